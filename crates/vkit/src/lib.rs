//! Shared kit for /verif harness binaries: seeded PRNG (mirrors lib/vcommon.py),
//! report accumulation, argument parsing.
use serde_json::{json, Map, Value};
use std::collections::{BTreeMap, BTreeSet};

#[derive(Clone, Debug)]
pub struct Rng {
    s: [u64; 4],
}

impl Rng {
    pub fn new(seed: u64) -> Rng {
        let mut s = seed;
        let mut st = [0u64; 4];
        for slot in st.iter_mut() {
            s = s.wrapping_add(0x9E3779B97F4A7C15);
            let mut z = s;
            z = (z ^ (z >> 30)).wrapping_mul(0xBF58476D1CE4E5B9);
            z = (z ^ (z >> 27)).wrapping_mul(0x94D049BB133111EB);
            *slot = z ^ (z >> 31);
        }
        Rng { s: st }
    }
    pub fn next(&mut self) -> u64 {
        let s = &mut self.s;
        let r = s[1].wrapping_mul(5).rotate_left(7).wrapping_mul(9);
        let t = s[1] << 17;
        s[2] ^= s[0];
        s[3] ^= s[1];
        s[1] ^= s[2];
        s[0] ^= s[3];
        s[2] ^= t;
        s[3] = s[3].rotate_left(45);
        r
    }
    pub fn below(&mut self, n: u64) -> u64 {
        if n == 0 {
            0
        } else {
            self.next() % n
        }
    }
    pub fn usize(&mut self, n: usize) -> usize {
        self.below(n as u64) as usize
    }
    /// inclusive range
    pub fn range(&mut self, lo: usize, hi: usize) -> usize {
        lo + self.usize(hi - lo + 1)
    }
    pub fn chance(&mut self, num: u64, den: u64) -> bool {
        self.below(den) < num
    }
    pub fn pick<'a, T>(&mut self, xs: &'a [T]) -> &'a T {
        &xs[self.usize(xs.len())]
    }
    pub fn fork(&mut self, tag: u64) -> Rng {
        Rng::new(self.next() ^ tag.wrapping_mul(0xD6E8FEB86659FD93))
    }
    pub fn shuffle<T>(&mut self, xs: &mut [T]) {
        for i in (1..xs.len()).rev() {
            let j = self.usize(i + 1);
            xs.swap(i, j);
        }
    }
}

/// FNV-1a, good enough for "distinct shape" accounting.
pub fn hash64(bytes: &[u8]) -> u64 {
    let mut h: u64 = 0xcbf29ce484222325;
    for b in bytes {
        h ^= *b as u64;
        h = h.wrapping_mul(0x100000001b3);
    }
    h
}
pub fn hash_str(s: &str) -> String {
    format!("{:016x}", hash64(s.as_bytes()))
}

#[derive(Default)]
pub struct Report {
    pub evaluations: u64,
    pub distinct: BTreeSet<String>,
    pub samples: Vec<Value>,
    pub violations: Vec<Value>,
    violation_sigs: BTreeSet<String>,
    pub inconclusive: BTreeMap<String, u64>,
    pub extra: Map<String, Value>,
    pub counters: BTreeMap<String, u64>,
    pub assumptions: Vec<String>,
    pub rule: String,
    pub max_samples: usize,
}

impl Report {
    pub fn new(rule: &str) -> Report {
        Report { rule: rule.to_string(), max_samples: 6, ..Default::default() }
    }
    pub fn eval(&mut self) {
        self.evaluations += 1;
    }
    pub fn evals(&mut self, n: u64) {
        self.evaluations += n;
    }
    /// record a distinct non-trivial case by its key
    pub fn distinct(&mut self, key: &str) {
        if self.distinct.len() < 200_000 {
            self.distinct.insert(hash_str(key));
        }
    }
    pub fn count(&mut self, key: &str) {
        *self.counters.entry(key.to_string()).or_insert(0) += 1;
    }
    pub fn count_n(&mut self, key: &str, n: u64) {
        *self.counters.entry(key.to_string()).or_insert(0) += n;
    }
    pub fn sample(&mut self, v: Value) {
        if self.samples.len() < self.max_samples {
            self.samples.push(v);
        }
    }
    /// one violation per stable signature (first witness kept)
    pub fn violation(&mut self, signature: &str, what: &str, replay: Value) {
        if self.violation_sigs.insert(signature.to_string()) && self.violations.len() < 200 {
            self.violations.push(json!({"signature": signature, "what": what, "replay": replay}));
        }
    }
    pub fn has_violation(&self, signature: &str) -> bool {
        self.violation_sigs.contains(signature)
    }
    pub fn inconclusive(&mut self, why: &str) {
        *self.inconclusive.entry(why.to_string()).or_insert(0) += 1;
    }
    pub fn assume(&mut self, a: &str) {
        if !self.assumptions.iter().any(|x| x == a) {
            self.assumptions.push(a.to_string());
        }
    }
    pub fn to_json(&self) -> Value {
        let mut extra = self.extra.clone();
        if !self.counters.is_empty() {
            extra.insert("counters".into(), json!(self.counters));
        }
        json!({
            "evaluations": self.evaluations,
            "distinct": self.distinct.iter().collect::<Vec<_>>(),
            "samples": self.samples,
            "violations": self.violations,
            "inconclusive": self.inconclusive.iter().map(|(k, v)| json!({"why": k, "count": v})).collect::<Vec<_>>(),
            "extra": extra,
            "assumptions": self.assumptions,
            "rule": self.rule,
        })
    }
    pub fn write(&self, path: &str) {
        let s = serde_json::to_string(&self.to_json()).unwrap();
        if path == "-" {
            println!("{s}");
        } else {
            std::fs::write(path, s).expect("write report");
        }
    }
}

/// `--key value` style arguments.
pub struct Args {
    map: BTreeMap<String, String>,
    pub free: Vec<String>,
}

impl Args {
    pub fn parse() -> Args {
        let mut map = BTreeMap::new();
        let mut free = vec![];
        let mut it = std::env::args().skip(1);
        while let Some(a) = it.next() {
            if let Some(k) = a.strip_prefix("--") {
                if let Some((k, v)) = k.split_once('=') {
                    map.insert(k.to_string(), v.to_string());
                } else {
                    let v = it.next().unwrap_or_default();
                    map.insert(k.to_string(), v);
                }
            } else {
                free.push(a);
            }
        }
        Args { map, free }
    }
    pub fn get(&self, k: &str) -> Option<&str> {
        self.map.get(k).map(|s| s.as_str())
    }
    pub fn str(&self, k: &str, d: &str) -> String {
        self.get(k).unwrap_or(d).to_string()
    }
    pub fn u64(&self, k: &str, d: u64) -> u64 {
        self.get(k).and_then(|s| s.parse().ok()).unwrap_or(d)
    }
    pub fn seed(&self) -> u64 {
        self.u64("seed", 0)
    }
    pub fn thorough(&self) -> bool {
        self.get("tier") == Some("thorough")
    }
    pub fn out(&self) -> String {
        self.str("out", "-")
    }
}

/// Run `f`, capturing a panic as (message, location).
pub fn catch<F: FnOnce() -> R + std::panic::UnwindSafe, R>(f: F) -> Result<R, (String, String)> {
    use std::sync::Mutex;
    static LAST: Mutex<Option<(String, String)>> = Mutex::new(None);
    static INIT: std::sync::Once = std::sync::Once::new();
    INIT.call_once(|| {
        std::panic::set_hook(Box::new(|info| {
            let msg = if let Some(s) = info.payload().downcast_ref::<&str>() {
                s.to_string()
            } else if let Some(s) = info.payload().downcast_ref::<String>() {
                s.clone()
            } else {
                "<non-string panic>".to_string()
            };
            let loc = info.location().map(|l| format!("{}:{}", l.file(), l.line())).unwrap_or_default();
            *LAST.lock().unwrap() = Some((msg, loc));
        }));
    });
    match std::panic::catch_unwind(f) {
        Ok(r) => Ok(r),
        Err(_) => Err(LAST.lock().unwrap().take().unwrap_or_default()),
    }
}
