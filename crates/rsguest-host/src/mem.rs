//! `cabi_ref::Memory` over the live process: addresses are real pointers,
//! `alloc` is the guest's global allocator with the canonical size/alignment
//! (what `cabi_realloc(0, 0, align, size)` does in a real component).
use cabi_ref::Memory;
use rsguest_support::alloc;

#[derive(Default)]
pub struct ProcMem {
    /// number of blocks handed to the guest by this host
    pub handed: u64,
    /// addresses of the blocks allocated since `begin_call` (so that a pointer
    /// stored into memory is written as a pointer, with provenance, not as an
    /// integer: the guest will load it at pointer type)
    pub recent: std::collections::HashSet<u64>,
    pub bytes_read: u64,
    pub bytes_written: u64,
}

impl ProcMem {
    pub fn new() -> ProcMem {
        ProcMem::default()
    }
    pub fn begin_call(&mut self) {
        self.recent.clear();
    }
}

impl Memory for ProcMem {
    fn read(&self, addr: u64, len: usize) -> Result<Vec<u8>, String> {
        if len == 0 {
            return Ok(vec![]);
        }
        if addr < 4096 {
            return Err(format!("read of {len} bytes at near-null address {addr:#x}"));
        }
        if len > (1 << 31) {
            return Err(format!("read of implausible length {len} at {addr:#x}"));
        }
        let mut v = vec![0u8; len];
        // `copy`, not `copy_nonoverlapping`: a dangling guest pointer may point into this very buffer
        unsafe { std::ptr::copy(addr as usize as *const u8, v.as_mut_ptr(), len) };
        Ok(v)
    }
    fn write(&mut self, addr: u64, bytes: &[u8]) -> Result<(), String> {
        if bytes.is_empty() {
            return Ok(());
        }
        if addr < 4096 {
            return Err(format!("write at near-null address {addr:#x}"));
        }
        if bytes.len() == std::mem::size_of::<usize>() {
            let mut a = [0u8; 8];
            a[..bytes.len()].copy_from_slice(bytes);
            let v = u64::from_le_bytes(a);
            if self.recent.contains(&v) {
                unsafe { (addr as usize as *mut *mut u8).write_unaligned(std::ptr::with_exposed_provenance_mut(v as usize)) };
                self.bytes_written += bytes.len() as u64;
                return Ok(());
            }
        }
        unsafe { std::ptr::copy_nonoverlapping(bytes.as_ptr(), addr as usize as *mut u8, bytes.len()) };
        self.bytes_written += bytes.len() as u64;
        Ok(())
    }
    fn alloc(&mut self, size: usize, align: usize) -> Result<u64, String> {
        let p = alloc::guest_alloc(size, align) as usize as u64;
        if size > 0 {
            // uninitialised padding must not look like data: poison
            unsafe { std::ptr::write_bytes(p as usize as *mut u8, 0xA5, size) };
            self.handed += 1;
            self.recent.insert(p);
        }
        Ok(p)
    }
}
