//! In-process reference host for the rsguest echo machine.
//!
//! A generated test crate links: the bindings under test (`bindings.rs`, emitted
//! by the working-tree Rust generator), the generated glue (`glue.rs`: `Obs`
//! impls, `Guest` impls, import drivers, per-function native call glue and the
//! `verif_import|..` symbols) and this library, and calls [`run`].
//!
//! The host knows the world only from its WIT text (parsed here with wit-parser
//! as a type AST) and the canonical ABI only from `cabi-ref`.
pub mod mem;
pub mod norm;
pub mod plan;
pub mod res;
pub mod run;

pub use cabi_ref::{CoreTy, CoreVal};
pub use rsguest_support as support;
pub use run::{import_called, run};

/// Rust-level type of one flat slot, as written in the generated signature.
#[derive(Clone, Copy, Debug, PartialEq, Eq)]
pub enum Slot {
    I32,
    I64,
    F32,
    F64,
    /// `*mut u8` / `*const u8`
    Ptr,
    /// `usize`
    Len,
    /// `MaybeUninit<u64>`
    PtrOrI64,
}

pub struct ExportEntry {
    /// core export name, e.g. `test:pkg/types#f1` or `cabi_post_test:pkg/types#f1`
    pub name: &'static str,
    pub params: &'static [Slot],
    pub results: &'static [Slot],
    pub call: unsafe fn(&[CoreVal]) -> Option<CoreVal>,
}

pub struct ImportEntry {
    /// `verif_import|<module>|<name>`
    pub link: &'static str,
    pub params: &'static [Slot],
    pub results: &'static [Slot],
    /// guest-side driver that builds the arguments from the script, calls the
    /// binding and logs the result (None: no free function / method wraps it)
    pub driver: Option<fn()>,
}

pub struct Tables {
    pub wit: &'static str,
    pub world: &'static str,
    /// generator options as JSON (ownership, raw_strings, ...)
    pub opts: &'static str,
    pub exports: &'static [ExportEntry],
    pub imports: &'static [ImportEntry],
    /// hooks into user-side resource state (C07), if the world has exported resources
    pub res_hooks: Option<&'static res::GuestHooks>,
}

/// Conversions used by the generated call glue.
pub mod conv {
    use super::CoreVal;
    use std::mem::MaybeUninit;
    #[inline]
    pub fn bits(v: &CoreVal) -> u64 {
        v.bits()
    }
    pub fn to_i32(v: &CoreVal) -> i32 {
        v.bits() as u32 as i32
    }
    pub fn to_i64(v: &CoreVal) -> i64 {
        v.bits() as i64
    }
    pub fn to_f32(v: &CoreVal) -> f32 {
        f32::from_bits(v.bits() as u32)
    }
    pub fn to_f64(v: &CoreVal) -> f64 {
        f64::from_bits(v.bits())
    }
    pub fn to_ptr(v: &CoreVal) -> *mut u8 {
        v.bits() as usize as *mut u8
    }
    pub fn to_len(v: &CoreVal) -> usize {
        v.bits() as usize
    }
    pub fn to_ptr64(v: &CoreVal) -> MaybeUninit<u64> {
        // The guest may read this slot at pointer type (`.as_ptr().cast::<*mut u8>().read()`):
        // the low pointer-sized bytes are therefore written as a pointer (exposed provenance), so
        // that under Miri the guest does not get a provenance-less pointer from the host.  Read at
        // integer type the bytes are unchanged.
        let mut m = MaybeUninit::<u64>::new(v.bits());
        if cfg!(target_endian = "little") {
            unsafe { m.as_mut_ptr().cast::<*mut u8>().write(std::ptr::with_exposed_provenance_mut(v.bits() as usize)) };
        }
        m
    }
    pub fn from_i32(x: i32) -> CoreVal {
        CoreVal::I32(x as u32)
    }
    pub fn from_i64(x: i64) -> CoreVal {
        CoreVal::I64(x as u64)
    }
    pub fn from_f32(x: f32) -> CoreVal {
        CoreVal::F32(x.to_bits())
    }
    pub fn from_f64(x: f64) -> CoreVal {
        CoreVal::F64(x.to_bits())
    }
    pub fn from_ptr(x: *mut u8) -> CoreVal {
        if cfg!(target_pointer_width = "32") {
            CoreVal::I32(x as usize as u32)
        } else {
            CoreVal::I64(x as usize as u64)
        }
    }
    pub fn from_cptr(x: *const u8) -> CoreVal {
        from_ptr(x as *mut u8)
    }
    pub fn from_len(x: usize) -> CoreVal {
        if cfg!(target_pointer_width = "32") {
            CoreVal::I32(x as u32)
        } else {
            CoreVal::I64(x as u64)
        }
    }
    pub fn from_ptr64(x: MaybeUninit<u64>) -> CoreVal {
        // the guest always initialises the slot (it lowered a value into it)
        CoreVal::I64(unsafe { x.assume_init() })
    }
}
