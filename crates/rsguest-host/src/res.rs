//! Resource tables + host-chosen histories (C07).
//!
//! The host keeps the guest's handle table the way the canonical ABI defines it
//! (own / borrow entries, lend counts, borrow scopes) and implements the
//! `[resource-new]`, `[resource-rep]`, `[resource-drop]` built-ins and the
//! `[dtor]` callback.  Handle indices are never reused, so that a stale handle
//! is always recognised.  On top of the table there is an object ledger: every
//! host object given to the guest as `own` must come back or be dropped exactly
//! once; every guest object (exported resource) must be destroyed exactly once,
//! through `[dtor]`, and must be reachable with the expected id through every
//! handle.
use crate::plan::{Dir, Func};
use crate::run::{with_shared, Host, Shared, PTR};
use cabi_ref::{Abi, CoreVal, HandleKind, Memory, Shape, SigKind, Val};
use rsguest_support::{alloc, obs};
use serde_json::json;
use std::collections::{BTreeMap, BTreeSet};
use wit_parser::{FunctionKind, Handle, Resolve, Type, TypeDefKind, TypeId};

/// Hooks into the user-side state (generated glue).
pub struct GuestHooks {
    /// drop everything the user code kept
    pub clear_stash: fn(),
    pub stash_len: fn() -> usize,
}

#[derive(Clone, Debug)]
pub enum Entry {
    Own { rt: usize, rep: u64, lend: u32 },
    Borrow { rt: usize, rep: u64 },
}

#[derive(Clone, Debug)]
pub struct ResType {
    pub id: TypeId,
    /// host-defined (imported by the guest) or guest-defined (exported)
    pub exported: bool,
    pub module: String,
    pub name: String,
}

#[derive(Default)]
pub struct ResState {
    pub types: Vec<ResType>,
    /// the guest's handle table; index 0 is never used; no reuse
    pub table: Vec<Option<Entry>>,
    /// host objects (imported resources): id -> (rt, times dropped by the guest, currently owned by guest?)
    pub host_objs: BTreeMap<u64, HostObj>,
    /// guest objects (exported resources) by rep
    pub guest_objs: BTreeMap<u64, GuestObj>,
    /// records of destroyed guest objects whose address was reused
    pub retired: Vec<GuestObj>,
    /// object id announced by the user code for the next `[resource-new]`
    pub traps: Vec<(String, String)>,
    pub borrows_in_call: u32,
    pub next_host_obj: u64,
    pub counters: BTreeMap<&'static str, u64>,
    pub in_export: bool,
}

#[derive(Clone, Debug)]
pub struct HostObj {
    pub rt: usize,
    pub guest_drops: u32,
}

#[derive(Clone, Debug)]
pub struct GuestObj {
    pub rt: usize,
    pub id: Option<u32>,
    pub dtor_calls: u32,
}

impl ResState {
    fn count(&mut self, k: &'static str) {
        *self.counters.entry(k).or_insert(0) += 1;
    }
    pub fn trap(&mut self, kind: &str, what: String) {
        if self.traps.len() < 16 {
            self.traps.push((kind.to_string(), what));
        }
    }
    pub fn new_entry(&mut self, e: Entry) -> u32 {
        if self.table.is_empty() {
            self.table.push(None);
        }
        self.table.push(Some(e));
        (self.table.len() - 1) as u32
    }
    pub fn rt_by_builtin(&self, module: &str, name: &str, exported: bool) -> Option<usize> {
        self.types.iter().position(|t| t.exported == exported && t.module == module && t.name == name)
    }
    pub fn rt_of(&self, id: TypeId, exported_ctx: bool) -> Option<usize> {
        // the same interface may be imported and exported: prefer the copy of the calling context
        self.types.iter().position(|t| t.id == id && t.exported == exported_ctx).or_else(|| self.types.iter().position(|t| t.id == id))
    }
    pub fn live_own_entries(&self) -> Vec<(u32, Entry)> {
        self.table.iter().enumerate().filter_map(|(i, e)| e.clone().map(|e| (i as u32, e))).collect()
    }
}

thread_local! {
    pub static RES: std::cell::RefCell<ResState> = std::cell::RefCell::new(ResState::default());
}

pub fn with_res<R>(f: impl FnOnce(&mut ResState) -> R) -> R {
    RES.with(|r| f(&mut r.borrow_mut()))
}

/// resolve a handle type to (kind, original resource TypeId)
pub fn handle_target(resolve: &Resolve, ty: &Type) -> Option<(HandleKind, TypeId)> {
    let mut t = *ty;
    loop {
        match t {
            Type::Id(id) => match &resolve.types[id].kind {
                TypeDefKind::Type(inner) => t = *inner,
                TypeDefKind::Handle(h) => {
                    let (k, mut r) = match h {
                        Handle::Own(r) => (HandleKind::Own, *r),
                        Handle::Borrow(r) => (HandleKind::Borrow, *r),
                    };
                    // follow `use` aliases of the resource itself
                    while let TypeDefKind::Type(Type::Id(next)) = &resolve.types[r].kind {
                        r = *next;
                    }
                    return Some((k, r));
                }
                _ => return None,
            },
            _ => return None,
        }
    }
}

fn parse_builtin(link: &str) -> Option<(bool, &str, &str, &str)> {
    // verif_import|[export]mod|[resource-new]name   /  verif_import|mod|[resource-drop]name
    let rest = link.strip_prefix("verif_import|")?;
    let (module, name) = rest.rsplit_once('|')?;
    let (exported, module) = match module.strip_prefix("[export]") {
        Some(m) => (true, m),
        None => (false, module),
    };
    for kind in ["[resource-new]", "[resource-rep]", "[resource-drop]"] {
        if let Some(r) = name.strip_prefix(kind) {
            return Some((exported, module, kind, r));
        }
    }
    None
}

fn call_dtor(sh: &Shared, module: &str, name: &str, rep: u64) -> bool {
    let sym = format!("{module}#[dtor]{name}");
    match sh.tables.exports.iter().find(|e| e.name == sym) {
        Some(e) => {
            let arg = [if PTR == 4 { CoreVal::I32(rep as u32) } else { CoreVal::I64(rep) }];
            let prev = alloc::set_tracking(true);
            unsafe { (e.call)(&arg) };
            alloc::set_tracking(prev);
            true
        }
        None => false,
    }
}

/// Drop of an `own` entry: host objects are released, guest objects destroyed via `[dtor]`.
fn destroy(sh: &Shared, rt: usize, rep: u64) {
    let (exported, module, name) = with_res(|r| (r.types[rt].exported, r.types[rt].module.clone(), r.types[rt].name.clone()));
    if exported {
        with_res(|r| {
            if let Some(o) = r.guest_objs.get_mut(&rep) {
                o.dtor_calls += 1;
            }
            r.count("dtor_calls");
        });
        if !call_dtor(sh, &module, &name, rep) {
            with_res(|r| r.trap("no-dtor-export", format!("no `{module}#[dtor]{name}` export in the bindings")));
        }
    } else {
        with_res(|r| {
            if let Some(o) = r.host_objs.get_mut(&rep) {
                o.guest_drops += 1;
            }
            r.count("host_objects_dropped_by_guest");
        });
    }
}

/// `[resource-new]`, `[resource-rep]`, `[resource-drop]` built-ins.
pub fn builtin_called(sh: &mut Shared, link: &str, flat: &[CoreVal]) -> Option<Option<CoreVal>> {
    let (exported, module, kind, name) = parse_builtin(link)?;
    let arg = flat.first().map(|v| v.bits()).unwrap_or(0);
    let rt = with_res(|r| r.rt_by_builtin(module, name, exported));
    let Some(rt) = rt else {
        with_res(|r| r.trap("unknown-resource", format!("built-in `{link}` names a resource the world does not have")));
        return Some(Some(CoreVal::I32(0)));
    };
    match kind {
        "[resource-new]" => {
            // the user code announced the object id just before (note `new:K:id`)
            let id = obs::peek_last_note("new:").and_then(|n| n.rsplit(':').next().and_then(|x| x.parse::<u32>().ok()));
            let idx = with_res(|r| {
                r.count("resource_new");
                match r.guest_objs.remove(&arg) {
                    Some(old) if old.dtor_calls == 0 => r.trap("rep-reused", format!("`[resource-new]` called twice with the live representation {arg:#x}")),
                    // the allocator reused the address of a destroyed object: retire the old record
                    Some(old) => r.retired.push(old),
                    None => {}
                }
                r.guest_objs.insert(arg, GuestObj { rt, id, dtor_calls: 0 });
                r.new_entry(Entry::Own { rt, rep: arg, lend: 0 })
            });
            Some(Some(CoreVal::I32(idx)))
        }
        "[resource-rep]" => {
            let rep = with_res(|r| {
                r.count("resource_rep");
                match r.table.get(arg as usize).cloned().flatten() {
                    Some(Entry::Own { rt: t, rep, .. }) if t == rt => rep,
                    Some(other) => {
                        r.trap("rep-of-wrong-handle", format!("`[resource-rep]` of handle {arg}: entry {other:?} is not an own handle of `{name}`"));
                        0
                    }
                    None => {
                        r.trap("use-of-dropped-or-unknown-handle", format!("`[resource-rep]` of handle {arg} (`{name}`), which is not in the table"));
                        0
                    }
                }
            });
            Some(Some(if PTR == 4 { CoreVal::I32(rep as u32) } else { CoreVal::I64(rep) }))
        }
        _ => {
            // [resource-drop]
            let entry = with_res(|r| {
                r.count("resource_drop");
                let e = r.table.get(arg as usize).cloned().flatten();
                match &e {
                    None => r.trap("drop-of-dropped-or-unknown-handle", format!("`[resource-drop]` of handle {arg} (`{name}`), which is not in the table (double drop or never issued)")),
                    Some(Entry::Own { rt: t, .. }) | Some(Entry::Borrow { rt: t, .. }) if *t != rt => {
                        r.trap("drop-with-wrong-type", format!("`[resource-drop]` of handle {arg} through `{name}`, but the entry is {e:?}"));
                    }
                    Some(Entry::Own { lend, .. }) if *lend > 0 => r.trap("own-dropped-while-lent", format!("own handle {arg} (`{name}`) dropped while it is lent to a call in progress")),
                    _ => {}
                }
                if e.is_some() {
                    r.table[arg as usize] = None;
                }
                if let Some(Entry::Borrow { .. }) = &e {
                    if r.borrows_in_call == 0 {
                        r.trap("borrow-count-underflow", format!("borrow handle {arg} dropped outside its call"));
                    } else {
                        r.borrows_in_call -= 1;
                    }
                }
                e
            });
            if let Some(Entry::Own { rt, rep, .. }) = entry {
                destroy(sh, rt, rep);
            }
            Some(None)
        }
    }
}

// ---------------------------------------------------------------------------
// values with handles

/// (kind, resource) of every handle leaf of a value, in traversal order
fn collect_handles(abi: &Abi, resolve: &Resolve, v: &Val, ty: &Type, out: &mut Vec<(HandleKind, TypeId)>) {
    match (abi.shape(ty), v) {
        (Shape::Handle(_), Val::Handle(_)) => {
            if let Some(t) = handle_target(resolve, ty) {
                out.push(t);
            }
        }
        (Shape::List(et), Val::List(xs)) | (Shape::FixedList(et, _), Val::List(xs)) => {
            for x in xs {
                collect_handles(abi, resolve, x, &et, out);
            }
        }
        (Shape::Map(k, vt), Val::Map(xs)) => {
            for (a, b) in xs {
                collect_handles(abi, resolve, a, &k, out);
                collect_handles(abi, resolve, b, &vt, out);
            }
        }
        (Shape::Record(fs), Val::Record(xs)) => {
            for (f, x) in fs.iter().zip(xs) {
                collect_handles(abi, resolve, x, f, out);
            }
        }
        (Shape::Variant(cs, _), Val::Variant(c, Some(p))) => {
            if let Some(Some(t)) = cs.get(*c as usize) {
                collect_handles(abi, resolve, p, t, out);
            }
        }
        _ => {}
    }
}

/// rebuild a value with every handle leaf replaced by `f(kind, resource, old)`
fn map_handles(abi: &Abi, resolve: &Resolve, v: &Val, ty: &Type, f: &mut dyn FnMut(HandleKind, TypeId, u32) -> u32) -> Val {
    match (abi.shape(ty), v) {
        (Shape::Handle(_), Val::Handle(h)) => match handle_target(resolve, ty) {
            Some((k, r)) => Val::Handle(f(k, r, *h)),
            None => v.clone(),
        },
        (Shape::List(et), Val::List(xs)) | (Shape::FixedList(et, _), Val::List(xs)) => Val::List(xs.iter().map(|x| map_handles(abi, resolve, x, &et, f)).collect()),
        (Shape::Map(k, vt), Val::Map(xs)) => Val::Map(xs.iter().map(|(a, b)| (map_handles(abi, resolve, a, &k, f), map_handles(abi, resolve, b, &vt, f))).collect()),
        (Shape::Record(fs), Val::Record(xs)) => Val::Record(fs.iter().zip(xs).map(|(t, x)| map_handles(abi, resolve, x, t, f)).collect()),
        (Shape::Variant(cs, _), Val::Variant(c, Some(p))) => match cs.get(*c as usize) {
            Some(Some(t)) => Val::Variant(*c, Some(Box::new(map_handles(abi, resolve, p, t, f)))),
            _ => v.clone(),
        },
        _ => v.clone(),
    }
}

/// What the host model knows the user code holds (mirrors the guest's stash).
#[derive(Default)]
pub struct Model {
    /// own handles of imported resources kept by the user code: (rt, index)
    pub kept_imported: BTreeSet<(usize, u32)>,
    /// own handles of exported resources kept by the user code: (rt, object id)
    pub kept_exported: BTreeSet<(usize, u32)>,
    /// exported-resource objects the host owns: (rt, rep, object id)
    pub host_owned: Vec<(usize, u64, u32)>,
    pub next_obj_id: u32,
    /// ids of guest objects created so far / destroyed so far (from the user code's notes)
    pub created: BTreeMap<u32, u32>,
    pub dropped: BTreeMap<u32, u32>,
    /// host objects handed to the guest as own and not yet accounted for: id -> handle index
    pub given: BTreeMap<u64, u32>,
}

struct Planned {
    wire: Vec<Val>,
    seen: Vec<String>,
    /// own handles (imported) the guest receives in this call: (rt, index, host obj)
    received_own: Vec<(usize, u32, u64)>,
    /// exported-resource owns moved to the guest: (rt, index, object id)
    received_exported: Vec<(usize, u32, u32)>,
}

impl<'a> Host<'a> {
    fn res_fail(&mut self, kind: &str, op: &str, msg: &str, f: Option<&Func>) {
        let sig = format!("rust-res:{kind}:{op}");
        let m = format!("{msg} [{}; opts {}]", f.map(|f| f.symbol()).unwrap_or_default(), self.tables.opts);
        let rp = json!({"world": self.world_tag, "seed": self.seed, "call": self.call_no, "func": f.map(|f| f.symbol()), "opts": serde_json::from_str::<serde_json::Value>(self.tables.opts).unwrap_or_default(), "wit": self.tables.wit});
        self.rep.violation(&sig, &m, rp);
    }

    /// report table traps recorded by the built-ins; returns true if any
    fn drain_traps(&mut self, f: Option<&Func>, op: &str) -> bool {
        let traps = with_res(|r| std::mem::take(&mut r.traps));
        let any = !traps.is_empty();
        for (kind, what) in traps {
            self.res_fail(&kind, op, &what, f);
        }
        any
    }

    fn op_kind(f: &Func) -> &'static str {
        match (&f.dir, &f.kind) {
            (Dir::Export, FunctionKind::Constructor(_)) => "export-constructor",
            (Dir::Export, FunctionKind::Method(_)) => "export-method",
            (Dir::Export, FunctionKind::Static(_)) => "export-static",
            (Dir::Export, _) => "export-func",
            (Dir::Import, FunctionKind::Constructor(_)) => "import-constructor",
            (Dir::Import, FunctionKind::Method(_)) => "import-method",
            (Dir::Import, FunctionKind::Static(_)) => "import-static",
            (Dir::Import, _) => "import-func",
        }
    }

    /// consume the user code's notes: object creations / destructions / `self` ids
    fn absorb_notes(&mut self, log: &[obs::Event], model: &mut Model) -> Vec<u32> {
        let mut selfs = vec![];
        for e in log {
            if self.verbose {
                eprintln!("EVENT {e:?}");
            }
            if let obs::Event::Note(n) = e {
                let mut it = n.split(':');
                let (k, _, id) = (it.next().unwrap_or(""), it.next(), it.next().and_then(|x| x.parse::<u32>().ok()));
                match (k, id) {
                    ("new", Some(id)) => *model.created.entry(id).or_insert(0) += 1,
                    ("drop", Some(id)) => *model.dropped.entry(id).or_insert(0) += 1,
                    ("self", Some(id)) => selfs.push(id),
                    _ => {}
                }
            }
        }
        selfs
    }

    /// Values the host sends (export params / import results): random structure,
    /// then every handle leaf is bound to a real table entry.  None: the host
    /// does not own what the signature needs right now.
    fn plan_down(&mut self, tys: &[Type], exported_ctx: bool, model: &mut Model) -> Option<Planned> {
        let cfg = cabi_ref::GenCfg { max_list: 3, ..self.gen_cfg() };
        for _attempt in 0..6 {
            let vals: Vec<Val> = tys.iter().map(|t| self.abi.gen_val(&mut self.rng, t, &cfg, 0)).collect();
            let mut leaves = vec![];
            for (v, t) in vals.iter().zip(tys) {
                collect_handles(&self.abi, self.resolve, v, t, &mut leaves);
            }
            // feasibility: exported-resource handles need objects the host owns
            let mut need_own: BTreeMap<usize, usize> = BTreeMap::new();
            let mut need_any: BTreeSet<usize> = BTreeSet::new();
            let mut ok = true;
            for (k, r) in &leaves {
                let Some(rt) = with_res(|s| s.rt_of(*r, exported_ctx)) else {
                    ok = false;
                    break;
                };
                if with_res(|s| s.types[rt].exported) {
                    match k {
                        HandleKind::Own => *need_own.entry(rt).or_insert(0) += 1,
                        _ => {
                            need_any.insert(rt);
                        }
                    }
                }
            }
            for (rt, n) in &need_own {
                // a borrow of the same type in the same call needs one more object that stays
                let extra = if need_any.contains(rt) { 1 } else { 0 };
                if model.host_owned.iter().filter(|o| o.0 == *rt).count() < n + extra {
                    ok = false;
                }
            }
            for rt in &need_any {
                if !model.host_owned.iter().any(|o| o.0 == *rt) {
                    ok = false;
                }
            }
            if !ok {
                continue;
            }
            // commit
            let mut planned = Planned { wire: vec![], seen: vec![], received_own: vec![], received_exported: vec![] };
            for (v, t) in vals.iter().zip(tys) {
                let mut seen_ids: Vec<u32> = vec![];
                let wire = {
                    let rng = &mut self.rng;
                    let mut f = |k: HandleKind, r: TypeId, _old: u32| -> u32 {
                        let rt = with_res(|s| s.rt_of(r, exported_ctx)).unwrap();
                        let exported = with_res(|s| s.types[rt].exported);
                        match (exported, k) {
                            (false, HandleKind::Own) => {
                                let (idx, obj) = with_res(|s| {
                                    s.next_host_obj += 1;
                                    let obj = s.next_host_obj;
                                    s.host_objs.insert(obj, HostObj { rt, guest_drops: 0 });
                                    (s.new_entry(Entry::Own { rt, rep: obj, lend: 0 }), obj)
                                });
                                planned.received_own.push((rt, idx, obj));
                                seen_ids.push(idx);
                                idx
                            }
                            (false, _) => {
                                let idx = with_res(|s| {
                                    s.next_host_obj += 1;
                                    let obj = s.next_host_obj;
                                    s.host_objs.insert(obj, HostObj { rt, guest_drops: 0 });
                                    s.borrows_in_call += 1;
                                    s.new_entry(Entry::Borrow { rt, rep: obj })
                                });
                                seen_ids.push(idx);
                                idx
                            }
                            (true, HandleKind::Own) => {
                                // move one of the host's objects into the guest's table
                                let cands: Vec<usize> = model.host_owned.iter().enumerate().filter(|(_, o)| o.0 == rt).map(|(i, _)| i).collect();
                                let pick = cands[rng.usize(cands.len())];
                                let (_, rep, id) = model.host_owned.remove(pick);
                                let idx = with_res(|s| s.new_entry(Entry::Own { rt, rep, lend: 0 }));
                                planned.received_exported.push((rt, idx, id));
                                seen_ids.push(id);
                                idx
                            }
                            (true, _) => {
                                let cands: Vec<&(usize, u64, u32)> = model.host_owned.iter().filter(|o| o.0 == rt).collect();
                                let (_, rep, id) = *cands[rng.usize(cands.len())];
                                seen_ids.push(id);
                                rep as u32
                            }
                        }
                    };
                    map_handles(&self.abi, self.resolve, v, t, &mut f)
                };
                // what the user code prints: handle index for imported resources, object id for its own
                let mut it = seen_ids.into_iter();
                let seen = map_handles(&self.abi, self.resolve, &wire, t, &mut |_, _, _| it.next().unwrap_or(0));
                planned.seen.push(self.text(&seen));
                planned.wire.push(wire);
            }
            return Some(planned);
        }
        None
    }

    /// Values the user code must produce (export results / import params): the
    /// script names handles the user code holds (`kept_*`) or new object ids.
    /// Returns (script text, handles consumed from the model) or None.
    fn plan_up(&mut self, tys: &[Type], exported_ctx: bool, fresh_only: bool, model: &mut Model) -> Option<Vec<(String, Val)>> {
        let cfg = cabi_ref::GenCfg { max_list: 3, ..self.gen_cfg() };
        'attempt: for _attempt in 0..6 {
            let vals: Vec<Val> = tys.iter().map(|t| self.abi.gen_val(&mut self.rng, t, &cfg, 0)).collect();
            let mut avail_imp: Vec<(usize, u32)> = model.kept_imported.iter().cloned().collect();
            let mut avail_exp: Vec<(usize, u32)> = model.kept_exported.iter().cloned().collect();
            let mut lent: BTreeSet<(usize, u32)> = BTreeSet::new();
            let mut take_imp = vec![];
            let mut take_exp = vec![];
            let mut fresh = vec![];
            let mut out = vec![];
            let mut next_id = model.next_obj_id;
            for (v, t) in vals.iter().zip(tys) {
                let mut leaves = vec![];
                collect_handles(&self.abi, self.resolve, v, t, &mut leaves);
                let mut chosen = vec![];
                for (k, r) in leaves {
                    let Some(rt) = with_res(|s| s.rt_of(r, exported_ctx)) else { continue 'attempt };
                    let exported = with_res(|s| s.types[rt].exported);
                    match (exported, k) {
                        (false, HandleKind::Own) => {
                            let Some(pos) = avail_imp.iter().position(|x| x.0 == rt && !lent.contains(x)) else { continue 'attempt };
                            let x = avail_imp.remove(pos);
                            take_imp.push(x);
                            chosen.push(x.1);
                        }
                        (false, _) => {
                            // every leaf gets its own handle: the user code moves a kept handle out of
                            // its stash to lend it, so it cannot lend the same one twice in one value
                            let Some(x) = avail_imp.iter().find(|x| x.0 == rt && !lent.contains(x)).cloned() else { continue 'attempt };
                            lent.insert(x);
                            chosen.push(x.1);
                        }
                        (true, HandleKind::Own) => {
                            let pos = avail_exp.iter().position(|x| x.0 == rt);
                            match pos {
                                Some(p) if !fresh_only && self.rng.chance(1, 2) => {
                                    let x = avail_exp.remove(p);
                                    take_exp.push(x);
                                    chosen.push(x.1);
                                }
                                _ => {
                                    next_id += 1;
                                    fresh.push((rt, next_id));
                                    chosen.push(next_id);
                                }
                            }
                        }
                        (true, _) => continue 'attempt, // the user code cannot produce a borrow of its own resource
                    }
                }
                let mut it = chosen.into_iter();
                let script = map_handles(&self.abi, self.resolve, v, t, &mut |_, _, _| it.next().unwrap_or(0));
                out.push((self.text(&script), script));
            }
            for x in take_imp {
                model.kept_imported.remove(&x);
            }
            for x in take_exp {
                model.kept_exported.remove(&x);
            }
            model.next_obj_id = next_id;
            return Some(out);
        }
        None
    }

    /// Lift-side bookkeeping of a value the guest produced: own handles leave the
    /// guest's table (`lift_own`), borrows are checked.  Returns the value as the
    /// user code scripted it (object ids for its own resources).
    fn account_up(&mut self, f: &Func, v: &Val, ty: &Type, exported_ctx: bool, model: &mut Model, lent: &mut Vec<u32>) -> Val {
        let mut problems: Vec<(String, String)> = vec![];
        let out = map_handles(&self.abi, self.resolve, v, ty, &mut |k, r, h| {
            let rt = with_res(|s| s.rt_of(r, exported_ctx));
            let Some(rt) = rt else { return h };
            let entry = with_res(|s| s.table.get(h as usize).cloned().flatten());
            match (k, entry) {
                (HandleKind::Own, Some(Entry::Own { rt: t, rep, lend })) if t == rt => {
                    if lend > 0 {
                        problems.push(("own-transferred-while-lent".into(), format!("own handle {h} given away while lent")));
                    }
                    with_res(|s| s.table[h as usize] = None);
                    if with_res(|s| s.types[rt].exported) {
                        let id = with_res(|s| s.guest_objs.get(&rep).and_then(|o| o.id)).unwrap_or(u32::MAX);
                        model.host_owned.push((rt, rep, id));
                        id
                    } else {
                        // a host object came back
                        model.given.remove(&rep);
                        h
                    }
                }
                (HandleKind::Own, other) => {
                    problems.push(("transfer-of-invalid-handle".into(), format!("the guest passed own handle {h}, but the table entry is {other:?} (used after giving it away / dropping it?)")));
                    h
                }
                (_, Some(Entry::Own { rt: t, .. })) if t == rt => {
                    with_res(|s| {
                        if let Some(Entry::Own { lend, .. }) = &mut s.table[h as usize] {
                            *lend += 1;
                        }
                    });
                    lent.push(h);
                    h
                }
                (_, Some(Entry::Borrow { rt: t, .. })) if t == rt => h,
                (_, other) => {
                    problems.push(("borrow-of-invalid-handle".into(), format!("the guest lent handle {h}, but the table entry is {other:?}")));
                    h
                }
            }
        });
        for (k, m) in problems {
            self.res_fail(&k, Self::op_kind(f), &m, Some(f));
        }
        out
    }

    // --------------------------------------------------------------- calls

    fn res_call_export(&mut self, f: &Func, model: &mut Model) -> bool {
        let sym = f.symbol();
        let Some(entry) = self.exports.get(sym.as_str()).copied() else {
            self.rep.inconclusive("an exported function of the world has no export symbol in the generated bindings");
            return false;
        };
        let post = self.exports.get(f.post_symbol().as_str()).copied();
        let op = Self::op_kind(f);
        let sig = self.abi.signature(&f.params, f.result.as_ref(), SigKind::SyncLift);
        let Some(down) = self.plan_down(&f.params, true, model) else {
            self.rep.count("ops_skipped_host_owns_no_suitable_object");
            return false;
        };
        let result_tys: Vec<Type> = f.result.iter().cloned().collect();
        // a constructor returns the user value itself (`Self`), never a kept handle
        let Some(up) = self.plan_up(&result_tys, true, matches!(f.kind, FunctionKind::Constructor(_)), model) else {
            self.rep.count("ops_skipped_guest_holds_no_suitable_handle");
            // undo nothing: entries created by plan_down stay in the table as host-side garbage;
            // remove them so that the end-of-history ledger stays exact
            for (_, idx, obj) in &down.received_own {
                with_res(|s| {
                    s.table[*idx as usize] = None;
                    s.host_objs.remove(obj);
                });
            }
            for (rt, idx, id) in &down.received_exported {
                let rep = with_res(|s| match s.table[*idx as usize].take() {
                    Some(Entry::Own { rep, .. }) => rep,
                    _ => 0,
                });
                model.host_owned.push((*rt, rep, *id));
            }
            with_res(|s| {
                // borrow entries of this plan
                for e in s.table.iter_mut() {
                    if matches!(e, Some(Entry::Borrow { .. })) {
                        *e = None;
                    }
                }
                s.borrows_in_call = 0;
            });
            return false;
        };
        self.call_no += 1;
        let keep = self.rng.chance(1, 2);
        // sometimes the user code takes the value out of the own handles to its own resources (`into_inner`)
        let into_inner = !down.received_exported.is_empty() && self.rng.chance(1, 3);
        let keep = keep || into_inner;
        let drops_before: Vec<u32> = down.received_exported.iter().map(|(_, _, id)| model.dropped.get(id).copied().unwrap_or(0)).collect();
        obs::clear();
        if into_inner {
            obs::set_into_inner();
        } else {
            obs::set_keep(keep);
        }
        obs::push_script(up.first().map(|x| x.0.clone()).unwrap_or_default());
        self.ctx(f, "call", op);
        let flat: Result<Vec<CoreVal>, String> = with_shared(|sh| {
            let mem = &mut sh.mem;
            mem.begin_call();
            if sig.indirect_params {
                let (size, align) = self.abi.record_layout(&f.params);
                let base = mem.alloc(size, align)?;
                let offs = self.abi.field_offsets(&f.params);
                for ((v, t), o) in down.wire.iter().zip(&f.params).zip(offs) {
                    self.abi.store(mem, v, t, base + o as u64)?;
                }
                Ok(vec![if PTR == 4 { CoreVal::I32(base as u32) } else { CoreVal::I64(base) }])
            } else {
                let mut out = vec![];
                for (v, t) in down.wire.iter().zip(&f.params) {
                    out.extend(self.abi.lower_flat(mem, v, t)?);
                }
                Ok(out)
            }
        });
        let Ok(flat) = flat else {
            self.rep.inconclusive("host could not lower its own arguments (resources)");
            return false;
        };
        with_res(|s| s.in_export = true);
        alloc::set_tracking(true);
        let ret = unsafe { (entry.call)(&flat) };
        alloc::set_tracking(false);
        self.rep.eval();
        self.rep.count(&format!("ops_{op}"));
        self.ctx(f, "lift-result", op);
        let log = obs::take_log();
        let selfs = self.absorb_notes(&log, model);
        let seen_args: Vec<String> = log.iter().filter_map(|e| if let obs::Event::Arg(a) = e { Some(a.clone()) } else { None }).collect();
        let self_args = matches!(f.kind, FunctionKind::Method(_)) as usize;
        if seen_args.len() + self_args != down.seen.len() {
            self.res_fail("dispatch", op, &format!("the user implementation received {} arguments, the host sent {}", seen_args.len() + self_args, down.seen.len()), Some(f));
        } else {
            if self_args == 1 {
                // `self`: the object reached through the borrowed handle
                let want = down.seen[0].clone();
                let got = selfs.first().map(|id| format!("h{id}")).unwrap_or_else(|| "<no self>".into());
                if want != got {
                    self.res_fail("wrong-object", op, &format!("method reached object {got}, the host passed a borrow of {want}"), Some(f));
                }
                self.rep.count("self_identity_checks");
            }
            for (i, t) in f.params.iter().enumerate().skip(self_args) {
                let exp = down.seen[i].clone();
                let got = seen_args[i - self_args].clone();
                if crate::run::type_has_handle(&self.abi, t, 0) {
                    self.rep.count("handle_carrying_values_compared");
                }
                self.judge_res(f, "param", t, i, &exp, &got);
            }
        }
        // lift the result
        let mut lent = vec![];
        if let (Some(ty), Some((script, _))) = (&f.result, up.first()) {
            let lifted: Result<Val, String> = with_shared(|sh| {
                let mem = &sh.mem;
                match (sig.retptr, ret) {
                    (true, Some(p)) => self.abi.load(mem, ty, p.bits()),
                    (false, Some(v)) => {
                        let vs = [v];
                        self.abi.lift_flat(mem, &mut vs.iter(), ty)
                    }
                    (_, None) => Err("the export returned no core value".to_string()),
                }
            });
            match lifted {
                Ok(v) => {
                    let seen = self.account_up(f, &v, ty, true, model, &mut lent);
                    let got = self.text(&seen);
                    if crate::run::type_has_handle(&self.abi, ty, 0) {
                        self.rep.count("handle_carrying_values_compared");
                    }
                    self.judge_res(f, "result", ty, 0, script, &got);
                }
                Err(e) => self.res_fail("result-lift", op, &format!("the host could not lift the result: {e}"), Some(f)),
            }
        }
        if let Some(post) = post {
            self.ctx(f, "post-return", op);
            let args: Vec<CoreVal> = ret.into_iter().collect();
            alloc::set_tracking(true);
            unsafe { (post.call)(&args) };
            alloc::set_tracking(false);
        }
        // end of the call: every borrow the guest received must be gone
        let left = with_res(|s| {
            s.in_export = false;
            let n = s.borrows_in_call;
            s.borrows_in_call = 0;
            let mut stale = vec![];
            for (i, e) in s.table.iter_mut().enumerate() {
                if matches!(e, Some(Entry::Borrow { .. })) {
                    stale.push(i);
                    *e = None;
                }
            }
            (n, stale)
        });
        if left.0 > 0 {
            self.res_fail("borrows-left-at-end-of-call", op, &format!("{} borrow handle(s) {:?} were not dropped before the export returned", left.0, left.1), Some(f));
        }
        // what the user code did with the own handles it received
        for (rt, idx, obj) in &down.received_own {
            let live = with_res(|s| matches!(s.table.get(*idx as usize), Some(Some(Entry::Own { .. }))));
            if keep {
                if live {
                    model.kept_imported.insert((*rt, *idx));
                    model.given.insert(*obj, *idx);
                } else if with_res(|s| s.host_objs.get(obj).map(|o| o.guest_drops).unwrap_or(0)) == 0 && !model.given.contains_key(obj) {
                    // handed straight back in the result: accounted in account_up
                }
            } else if live {
                self.res_fail("own-handle-leaked", op, &format!("the user code dropped its value, but own handle {idx} is still in the guest's table (never dropped by the bindings)"), Some(f));
                with_res(|s| s.table[*idx as usize] = None);
            }
        }
        for (k, (rt, idx, id)) in down.received_exported.iter().enumerate() {
            let live = with_res(|s| matches!(s.table.get(*idx as usize), Some(Some(Entry::Own { .. }))));
            if into_inner {
                // the value was taken out and dropped by the user code; the emptied handle was dropped by
                // `into_inner` itself, and the `[dtor]` that follows must not destroy the value again
                self.rep.count("into_inner_checks");
                let d = model.dropped.get(id).copied().unwrap_or(0).saturating_sub(drops_before[k]);
                if live {
                    self.res_fail("into-inner", "handle-not-consumed", &format!("`into_inner` on own handle {idx} (object {id}) left the handle in the guest's table"), Some(f));
                    with_res(|s| s.table[*idx as usize] = None);
                }
                if d >= 2 {
                    self.res_fail("into-inner", "object-destroyed-twice", &format!("the user value {id} taken out with `into_inner` and dropped once was destroyed {d} times (the `[dtor]` of the emptied representation destroyed it again)"), Some(f));
                } else if d == 0 {
                    self.res_fail("into-inner", "object-not-destroyed", &format!("the user value {id} taken out with `into_inner` and dropped by the user code was never destroyed"), Some(f));
                }
                continue;
            }
            if keep && live {
                model.kept_exported.insert((*rt, *id));
            } else if !keep && live {
                self.res_fail("own-handle-leaked", op, &format!("the user code dropped its value, but own handle {idx} (object {id}) is still in the guest's table"), Some(f));
                with_res(|s| s.table[*idx as usize] = None);
            }
        }
        if self.samples_left > 0 && f.params.iter().chain(f.result.iter()).any(|t| crate::run::type_has_handle(&self.abi, t, 0)) {
            self.samples_left -= 1;
            self.rep.sample(json!({"world": self.world_tag, "op": op, "func": f.symbol(), "user_code_keeps_received_handles": keep,
                "args_as_the_user_code_must_see_them": down.seen, "scripted_result": up.first().map(|x| x.0.clone()), "opts": self.tables.opts}));
        }
        self.drain_traps(Some(f), op);
        let key = format!("res-export|{}|{}|{}|{}", op, f.params.iter().map(|t| self.abi.shape_key(t)).collect::<Vec<_>>().join(","), f.result.as_ref().map(|t| self.abi.shape_key(t)).unwrap_or_default(), keep);
        self.rep.distinct(&key);
        true
    }

    fn judge_res(&mut self, f: &Func, what: &str, ty: &Type, index: usize, expected: &str, observed: &str) {
        // same comparison as C05, but a mismatch on a handle-carrying value is a C07 matter
        if crate::run::type_has_handle(&self.abi, ty, 0) {
            match crate::norm::compare(expected, observed) {
                crate::norm::Cmp::Equal | crate::norm::Cmp::NanOnly => {}
                _ => {
                    let class = crate::plan::shape_class(&self.abi, ty, 0);
                    self.res_fail(
                        "wrong-handle-or-object",
                        &format!("{}:{}:{}", Self::op_kind(f), what, class),
                        &format!("{} {} (index {index}) carried different handles/objects: expected {expected} observed {observed}", f.dir.name(), what),
                        Some(f),
                    );
                }
            }
        } else {
            self.judge(f, what, ty, index, expected, observed);
        }
    }

    fn res_call_import(&mut self, f: &Func, model: &mut Model) -> bool {
        let link = f.symbol();
        let Some(idx) = self.imports.get(link.as_str()).copied() else {
            self.rep.inconclusive("an imported function of the world has no import declaration in the generated bindings");
            return false;
        };
        let Some(driver) = self.tables.imports[idx].driver else {
            self.rep.inconclusive("no public Rust function wraps an import declaration (no driver)");
            return false;
        };
        let op = Self::op_kind(f);
        // the user code builds the arguments (handles it holds), the host the result
        let Some(up) = self.plan_up(&f.params, false, false, model) else {
            self.rep.count("ops_skipped_guest_holds_no_suitable_handle");
            return false;
        };
        let result_tys: Vec<Type> = f.result.iter().cloned().collect();
        let Some(down) = self.plan_down(&result_tys, false, model) else {
            self.rep.count("ops_skipped_host_owns_no_suitable_object");
            return false;
        };
        // plan_down counted borrows, but an import result cannot contain borrows
        with_res(|s| s.borrows_in_call = 0);
        self.call_no += 1;
        let keep = self.rng.chance(1, 2);
        obs::clear();
        obs::set_keep(keep);
        for (s, _) in &up {
            obs::push_script(s.clone());
        }
        with_shared(|sh| {
            sh.pending = Some(crate::run::Pending {
                link: link.clone(),
                params: f.params.clone(),
                result: f.result,
                result_val: down.wire.first().cloned(),
                lifted: None,
                calls: 0,
                lower_error: None,
                flat_in: 0,
                used_retptr: false,
                used_indirect: false,
            })
        });
        self.ctx(f, "call", op);
        alloc::set_tracking(true);
        driver();
        alloc::set_tracking(false);
        self.rep.eval();
        self.rep.count(&format!("ops_{op}"));
        let p = with_shared(|sh| sh.pending.take()).unwrap();
        if p.calls != 1 {
            self.res_fail("dispatch", op, &format!("the binding called its import {} times for one call", p.calls), Some(f));
        }
        let mut lent = vec![];
        match p.lifted {
            Some(Ok(vals)) => {
                for (i, ((t, (script, _)), v)) in f.params.iter().zip(&up).zip(&vals).enumerate() {
                    let seen = self.account_up(f, v, t, false, model, &mut lent);
                    let got = self.text(&seen);
                    if crate::run::type_has_handle(&self.abi, t, 0) {
                        self.rep.count("handle_carrying_values_compared");
                    }
                    self.judge_res(f, "param", t, i, script, &got);
                }
            }
            Some(Err(e)) => self.res_fail("param-lift", op, &format!("the host could not lift the arguments: {e}"), Some(f)),
            None => {}
        }
        // the call is over: lends end (the host looked at the handles while the call was in progress)
        with_res(|s| {
            for h in &lent {
                if let Some(Some(Entry::Own { lend, .. })) = s.table.get_mut(*h as usize) {
                    *lend = lend.saturating_sub(1);
                }
            }
        });
        let log = obs::take_log();
        self.absorb_notes(&log, model);
        let rets: Vec<&String> = log.iter().filter_map(|e| if let obs::Event::Ret(r) = e { Some(r) } else { None }).collect();
        if let (Some(ty), Some(exp)) = (&f.result, down.seen.first()) {
            match rets.as_slice() {
                [got] => {
                    let got = (*got).clone();
                    if crate::run::type_has_handle(&self.abi, ty, 0) {
                        self.rep.count("handle_carrying_values_compared");
                    }
                    self.judge_res(f, "result", ty, 0, exp, &got)
                }
                other => self.res_fail("dispatch", op, &format!("the driver logged {} results", other.len()), Some(f)),
            }
        }
        for (rt, idx, obj) in &down.received_own {
            let live = with_res(|s| matches!(s.table.get(*idx as usize), Some(Some(Entry::Own { .. }))));
            if keep && live {
                model.kept_imported.insert((*rt, *idx));
                model.given.insert(*obj, *idx);
            } else if !keep && live {
                self.res_fail("own-handle-leaked", op, &format!("the user code dropped the result, but own handle {idx} is still in the guest's table (never dropped by the bindings)"), Some(f));
                with_res(|s| s.table[*idx as usize] = None);
            }
        }
        // lent handles must still be there (a borrow must not consume the handle)
        for h in &lent {
            let live = with_res(|s| matches!(s.table.get(*h as usize), Some(Some(Entry::Own { .. }))));
            if !live {
                self.res_fail("lent-handle-gone", op, &format!("own handle {h} was only lent to the import, but it is gone from the guest's table after the call"), Some(f));
                let key: Vec<(usize, u32)> = model.kept_imported.iter().filter(|x| x.1 == *h).cloned().collect();
                for k in key {
                    model.kept_imported.remove(&k);
                }
            }
        }
        if self.samples_left > 0 && f.params.iter().chain(f.result.iter()).any(|t| crate::run::type_has_handle(&self.abi, t, 0)) {
            self.samples_left -= 1;
            self.rep.sample(json!({"world": self.world_tag, "op": op, "func": f.symbol(), "user_code_keeps_received_handles": keep,
                "scripted_args": up.iter().map(|x| x.0.clone()).collect::<Vec<_>>(), "host_result_as_the_user_code_must_see_it": down.seen.first(), "opts": self.tables.opts}));
        }
        self.drain_traps(Some(f), op);
        let key = format!("res-import|{}|{}|{}|{}", op, f.params.iter().map(|t| self.abi.shape_key(t)).collect::<Vec<_>>().join(","), f.result.as_ref().map(|t| self.abi.shape_key(t)).unwrap_or_default(), keep);
        self.rep.distinct(&key);
        true
    }

    /// the host drops an own handle it holds to a guest object: `[dtor]` runs
    fn res_host_drop(&mut self, model: &mut Model) {
        if model.host_owned.is_empty() {
            return;
        }
        let i = self.rng.usize(model.host_owned.len());
        let (rt, rep, id) = model.host_owned.remove(i);
        obs::clear();
        let c = json!({"call": self.call_no, "dir": "export", "func": "[dtor]", "phase": "call", "op": "host-drop", "world": self.world_tag}).to_string();
        obs::set_context(&c);
        eprintln!("CTX {c}");
        with_shared(|sh| destroy(sh, rt, rep));
        let log = obs::take_log();
        let before = model.dropped.get(&id).copied().unwrap_or(0);
        self.absorb_notes(&log, model);
        let after = model.dropped.get(&id).copied().unwrap_or(0);
        self.rep.eval();
        self.rep.count("ops_host_drop_of_guest_object");
        if after != before + 1 {
            self.res_fail("dtor-did-not-destroy", "host-drop", &format!("the host dropped its own handle to object {id}; the user value was destroyed {} times by `[dtor]`", after - before), None);
        }
        self.drain_traps(None, "host-drop");
    }

    /// the user code drops everything it kept
    fn res_clear_stash(&mut self, model: &mut Model) {
        let Some(hooks) = self.tables.res_hooks else { return };
        obs::clear();
        let c = json!({"call": self.call_no, "dir": "import", "func": "[resource-drop]", "phase": "call", "op": "guest-drops-kept", "world": self.world_tag}).to_string();
        obs::set_context(&c);
        eprintln!("CTX {c}");
        alloc::set_tracking(true);
        (hooks.clear_stash)();
        alloc::set_tracking(false);
        let log = obs::take_log();
        self.absorb_notes(&log, model);
        self.rep.eval();
        self.rep.count("ops_guest_drops_kept_handles");
        for (_, idx) in std::mem::take(&mut model.kept_imported) {
            let live = with_res(|s| matches!(s.table.get(idx as usize), Some(Some(_))));
            if live {
                self.res_fail("own-handle-leaked", "guest-drops-kept", &format!("the user code dropped its kept value, but own handle {idx} is still in the guest's table"), None);
                with_res(|s| s.table[idx as usize] = None);
            }
        }
        model.given.clear();
        model.kept_exported.clear();
        self.drain_traps(None, "guest-drops-kept");
    }

    fn res_end_of_history(&mut self, model: &mut Model) {
        self.res_clear_stash(model);
        while !model.host_owned.is_empty() {
            self.res_host_drop(model);
        }
        // nothing may be left in the guest's table
        let left = with_res(|s| s.live_own_entries());
        if !left.is_empty() {
            self.res_fail("handles-left-at-end", "history-end", &format!("entries left in the guest's handle table after everything was dropped: {:?}", &left[..left.len().min(6)]), None);
            with_res(|s| s.table.iter_mut().for_each(|e| *e = None));
        }
        // every guest object destroyed exactly once, via [dtor]
        for (id, n) in &model.created {
            let d = model.dropped.get(id).copied().unwrap_or(0);
            if *n != 1 || d != 1 {
                let kind = if d == 0 { "guest-object-never-destroyed" } else if d > 1 { "guest-object-destroyed-twice" } else { "guest-object-created-twice" };
                self.res_fail(kind, "history-end", &format!("user object {id}: created {n} times, destroyed {d} times over the history"), None);
            }
        }
        let bad: Vec<(u64, u32)> = with_res(|s| {
            s.guest_objs.iter().map(|(r, o)| (*r, o)).chain(s.retired.iter().map(|o| (0u64, o))).filter(|(_, o)| o.dtor_calls != 1).map(|(r, o)| (r, o.dtor_calls)).collect()
        });
        if !bad.is_empty() {
            self.res_fail("dtor-count", "history-end", &format!("representations whose `[dtor]` ran a number of times other than 1: {:?}", &bad[..bad.len().min(6)]), None);
        }
        // every host object given as own was dropped exactly once or handed back
        let bad: Vec<(u64, u32)> = with_res(|s| s.host_objs.iter().filter(|(_, o)| o.guest_drops > 1).map(|(i, o)| (*i, o.guest_drops)).collect());
        if !bad.is_empty() {
            self.res_fail("host-object-dropped-twice", "history-end", &format!("host objects dropped more than once by the guest: {:?}", &bad[..bad.len().min(6)]), None);
        }
        if let Some(h) = self.tables.res_hooks {
            if (h.stash_len)() != 0 {
                self.rep.inconclusive("the user-side stash is not empty at the end of a history");
            }
        }
        self.rep.count("histories_completed");
        with_res(|s| {
            s.guest_objs.clear();
            s.retired.clear();
            s.host_objs.clear();
        });
        *model = Model { next_obj_id: model.next_obj_id, ..Model::default() };
    }
}

pub fn run_histories(host: &mut Host, histories: usize, ops: usize) {
    // resource types of the world
    let types: Vec<ResType> = host.view.resources.iter().map(|r| ResType { id: r.id, exported: r.dir == Dir::Export, module: r.module.clone(), name: r.name.clone() }).collect();
    if types.is_empty() {
        host.rep.inconclusive("world has no resource");
        return;
    }
    with_res(|s| {
        *s = ResState::default();
        s.types = types;
    });
    let funcs: Vec<Func> = host.view.funcs.iter().filter(|f| !f.is_async).cloned().collect();
    let mut model = Model::default();
    for h in 0..histories {
        let n_ops = 4 + host.rng.usize(ops.max(5) - 3);
        let mut done = 0;
        let mut attempts = 0;
        while done < n_ops && attempts < n_ops * 6 {
            attempts += 1;
            let roll = host.rng.below(24);
            if roll == 0 {
                host.res_clear_stash(&mut model);
                done += 1;
            } else if roll <= 2 {
                if !model.host_owned.is_empty() {
                    host.res_host_drop(&mut model);
                    done += 1;
                }
            } else {
                // prefer functions that touch handles
                let f = funcs[host.rng.usize(funcs.len())].clone();
                let touches = f.resource().is_some() || f.params.iter().chain(f.result.iter()).any(|t| crate::run::type_has_handle(&host.abi, t, 0));
                if !touches && host.rng.chance(4, 5) {
                    continue;
                }
                let ok = match f.dir {
                    Dir::Export => host.res_call_export(&f, &mut model),
                    Dir::Import => host.res_call_import(&f, &mut model),
                };
                if ok {
                    done += 1;
                }
            }
            if host.rep.violations.len() > 12 {
                break;
            }
        }
        host.res_end_of_history(&mut model);
        host.rep.distinct(&format!("history|{}|{}", host.world_tag, h));
        if host.rep.violations.len() > 12 {
            break;
        }
    }
    let counters = with_res(|s| s.counters.clone());
    for (k, v) in counters {
        host.rep.count_n(k, v);
    }
}
