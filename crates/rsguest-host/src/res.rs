//! Resource tables + histories (C07).  Filled in after C05/C06.
use crate::run::{Host, Shared};
use cabi_ref::CoreVal;

/// Hooks into the user-side resource implementation (generated glue).
pub struct GuestHooks {
    /// number of user resource objects currently alive
    pub live_objects: fn() -> usize,
}

/// `[resource-new]`, `[resource-rep]`, `[resource-drop]` built-ins.
pub fn builtin_called(_sh: &mut Shared, _link: &str, _flat: &[CoreVal]) -> Option<Option<CoreVal>> {
    None
}

pub fn run_histories(host: &mut Host, _sets: usize, _ops: usize) {
    host.rep.inconclusive("resource histories not implemented");
}
