//! Untyped reader of the canonical value text, used to compare observations:
//! map entries are ordered by key text (a map data structure has its own
//! iteration order), NaN payloads can be masked (canonicalisation is permitted).
#[derive(Clone, Debug, PartialEq)]
pub enum Node {
    Atom(String),
    List(Vec<Node>),
    Map(Vec<(Node, Node)>),
    Rec(Vec<Node>),
    Var(String, Option<Box<Node>>),
}

struct P<'a> {
    s: &'a [u8],
    i: usize,
}

impl<'a> P<'a> {
    fn peek(&self) -> u8 {
        self.s.get(self.i).copied().unwrap_or(0)
    }
    fn node(&mut self) -> Result<Node, String> {
        match self.peek() {
            b'[' => {
                self.i += 1;
                let mut v = vec![];
                if self.peek() == b']' {
                    self.i += 1;
                    return Ok(Node::List(v));
                }
                loop {
                    v.push(self.node()?);
                    match self.peek() {
                        b',' => self.i += 1,
                        b']' => {
                            self.i += 1;
                            return Ok(Node::List(v));
                        }
                        c => return Err(format!("list: unexpected {:?} at {}", c as char, self.i)),
                    }
                }
            }
            b'(' => {
                self.i += 1;
                let mut v = vec![];
                if self.peek() == b')' {
                    self.i += 1;
                    return Ok(Node::Rec(v));
                }
                loop {
                    v.push(self.node()?);
                    match self.peek() {
                        b',' => self.i += 1,
                        b')' => {
                            self.i += 1;
                            return Ok(Node::Rec(v));
                        }
                        c => return Err(format!("record: unexpected {:?} at {}", c as char, self.i)),
                    }
                }
            }
            b'{' => {
                self.i += 1;
                let mut v = vec![];
                if self.peek() == b'}' {
                    self.i += 1;
                    return Ok(Node::Map(v));
                }
                loop {
                    let k = self.node()?;
                    if self.peek() != b':' {
                        return Err(format!("map: expected ':' at {}", self.i));
                    }
                    self.i += 1;
                    let val = self.node()?;
                    v.push((k, val));
                    match self.peek() {
                        b',' => self.i += 1,
                        b'}' => {
                            self.i += 1;
                            return Ok(Node::Map(v));
                        }
                        c => return Err(format!("map: unexpected {:?} at {}", c as char, self.i)),
                    }
                }
            }
            b'#' => {
                let st = self.i;
                self.i += 1;
                while self.peek().is_ascii_digit() {
                    self.i += 1;
                }
                let tag = String::from_utf8_lossy(&self.s[st..self.i]).to_string();
                if self.peek() == b'<' {
                    self.i += 1;
                    let p = self.node()?;
                    if self.peek() != b'>' {
                        return Err(format!("variant: expected '>' at {}", self.i));
                    }
                    self.i += 1;
                    Ok(Node::Var(tag, Some(Box::new(p))))
                } else {
                    Ok(Node::Var(tag, None))
                }
            }
            b'"' => {
                let st = self.i;
                self.i += 1;
                while self.peek() != b'"' && self.i < self.s.len() {
                    self.i += 1;
                }
                self.i += 1;
                Ok(Node::Atom(String::from_utf8_lossy(&self.s[st..self.i.min(self.s.len())]).to_string()))
            }
            0 => Err("unexpected end".into()),
            _ => {
                let st = self.i;
                while !matches!(self.peek(), b',' | b']' | b')' | b'}' | b'>' | b':' | b'<' | 0) {
                    self.i += 1;
                }
                if st == self.i {
                    return Err(format!("unexpected {:?} at {}", self.peek() as char, self.i));
                }
                Ok(Node::Atom(String::from_utf8_lossy(&self.s[st..self.i]).to_string()))
            }
        }
    }
}

pub fn parse(text: &str) -> Result<Node, String> {
    let mut p = P { s: text.as_bytes(), i: 0 };
    let n = p.node()?;
    if p.i != text.len() {
        return Err(format!("trailing text at {}", p.i));
    }
    Ok(n)
}

fn is_nan_atom(a: &str) -> bool {
    let b = a.as_bytes();
    if b.len() == 9 && b[0] == b'f' {
        if let Ok(x) = u32::from_str_radix(&a[1..], 16) {
            return (x & 0x7f80_0000) == 0x7f80_0000 && (x & 0x007f_ffff) != 0;
        }
    }
    if b.len() == 17 && b[0] == b'd' {
        if let Ok(x) = u64::from_str_radix(&a[1..], 16) {
            return (x & 0x7ff0_0000_0000_0000) == 0x7ff0_0000_0000_0000 && (x & 0x000f_ffff_ffff_ffff) != 0;
        }
    }
    false
}

impl Node {
    pub fn print(&self, mask_nan: bool, out: &mut String) {
        match self {
            Node::Atom(a) => {
                if mask_nan && is_nan_atom(a) {
                    out.push_str(if a.len() == 9 { "fNaN" } else { "dNaN" });
                } else {
                    out.push_str(a)
                }
            }
            Node::List(v) => {
                out.push('[');
                for (i, x) in v.iter().enumerate() {
                    if i > 0 {
                        out.push(',');
                    }
                    x.print(mask_nan, out);
                }
                out.push(']');
            }
            Node::Rec(v) => {
                out.push('(');
                for (i, x) in v.iter().enumerate() {
                    if i > 0 {
                        out.push(',');
                    }
                    x.print(mask_nan, out);
                }
                out.push(')');
            }
            Node::Map(v) => {
                let mut es: Vec<(String, String)> = v
                    .iter()
                    .map(|(k, x)| {
                        let mut ks = String::new();
                        k.print(mask_nan, &mut ks);
                        let mut vs = String::new();
                        x.print(mask_nan, &mut vs);
                        (ks, vs)
                    })
                    .collect();
                es.sort();
                out.push('{');
                for (i, (k, x)) in es.iter().enumerate() {
                    if i > 0 {
                        out.push(',');
                    }
                    out.push_str(k);
                    out.push(':');
                    out.push_str(x);
                }
                out.push('}');
            }
            Node::Var(t, p) => {
                out.push_str(t);
                if let Some(p) = p {
                    out.push('<');
                    p.print(mask_nan, out);
                    out.push('>');
                }
            }
        }
    }
}

#[derive(Debug, PartialEq, Eq)]
pub enum Cmp {
    Equal,
    /// equal once NaN payloads are masked
    NanOnly,
    Different,
    /// one side is not well-formed canonical text
    Malformed(String),
}

/// Compare two canonical texts modulo map entry order.
pub fn compare(a: &str, b: &str) -> Cmp {
    if a == b {
        return Cmp::Equal;
    }
    let (na, nb) = match (parse(a), parse(b)) {
        (Ok(x), Ok(y)) => (x, y),
        (Err(e), _) | (_, Err(e)) => return Cmp::Malformed(e),
    };
    let (mut sa, mut sb) = (String::new(), String::new());
    na.print(false, &mut sa);
    nb.print(false, &mut sb);
    if sa == sb {
        return Cmp::Equal;
    }
    let (mut ma, mut mb) = (String::new(), String::new());
    na.print(true, &mut ma);
    nb.print(true, &mut mb);
    if ma == mb {
        Cmp::NanOnly
    } else {
        Cmp::Different
    }
}

#[cfg(test)]
mod tests {
    use super::*;
    #[test]
    fn maps_and_nans() {
        assert_eq!(compare("{1:\"61\",2:\"\"}", "{2:\"\",1:\"61\"}"), Cmp::Equal);
        assert_eq!(compare("(f7fc00001,1)", "(f7fc00000,1)"), Cmp::NanOnly);
        assert_eq!(compare("(f7fc00001,1)", "(f7fc00000,2)"), Cmp::Different);
        assert_eq!(compare("#1<[#0,#2<b010;>]>", "#1<[#0,#2<b010;>]>"), Cmp::Equal);
        assert_eq!(compare("[T,F]", "[T,T]"), Cmp::Different);
        assert_eq!(compare("{c41:-5}", "{c41:-5}"), Cmp::Equal);
    }
}
