//! The world as the host sees it: functions with their spec-level core names,
//! shape classes for signatures, value post-processing.
use cabi_ref::{Abi, Shape, Val, VariantKind};
use vkit::Rng;
use wit_parser::{Function, FunctionKind, Resolve, Type, TypeId, WorldId, WorldItem, WorldKey};

#[derive(Clone, Copy, Debug, PartialEq, Eq)]
pub enum Dir {
    Import,
    Export,
}

impl Dir {
    pub fn name(&self) -> &'static str {
        match self {
            Dir::Import => "import",
            Dir::Export => "export",
        }
    }
}

#[derive(Clone, Debug)]
pub struct Func {
    pub dir: Dir,
    /// `$root` or the interface id (`ns:pkg/iface@ver`)
    pub module: String,
    /// `f`, `[method]r.m`, `[constructor]r`, `[static]r.s`
    pub name: String,
    pub kind: FunctionKind,
    pub params: Vec<Type>,
    pub result: Option<Type>,
    pub is_async: bool,
}

impl Func {
    /// core export name / `verif_import|m|n` link name
    pub fn symbol(&self) -> String {
        match self.dir {
            Dir::Export => {
                if self.module == "$root" {
                    self.name.clone()
                } else {
                    format!("{}#{}", self.module, self.name)
                }
            }
            Dir::Import => format!("verif_import|{}|{}", self.module, self.name),
        }
    }
    pub fn post_symbol(&self) -> String {
        format!("cabi_post_{}", self.symbol())
    }
    /// resource this function belongs to (constructor / method / static)
    pub fn resource(&self) -> Option<TypeId> {
        match &self.kind {
            FunctionKind::Method(id)
            | FunctionKind::Static(id)
            | FunctionKind::Constructor(id)
            | FunctionKind::AsyncMethod(id)
            | FunctionKind::AsyncStatic(id) => Some(*id),
            _ => None,
        }
    }
}

/// A resource as the world exposes it.
#[derive(Clone, Debug)]
pub struct ResourceInfo {
    pub id: TypeId,
    pub dir: Dir,
    pub module: String,
    pub name: String,
}

pub struct WorldView {
    pub funcs: Vec<Func>,
    pub resources: Vec<ResourceInfo>,
}

fn push_func(out: &mut Vec<Func>, dir: Dir, module: &str, f: &Function) {
    out.push(Func {
        dir,
        module: module.to_string(),
        name: f.name.clone(),
        kind: f.kind.clone(),
        params: f.params.iter().map(|p| p.ty).collect(),
        result: f.result,
        is_async: f.kind.is_async(),
    });
}

pub fn world_view(resolve: &Resolve, world: WorldId) -> WorldView {
    let w = &resolve.worlds[world];
    let mut funcs = vec![];
    let mut resources = vec![];
    for (dir, items) in [(Dir::Import, &w.imports), (Dir::Export, &w.exports)] {
        for (key, item) in items.iter() {
            match item {
                WorldItem::Interface { id, .. } => {
                    let module = match key {
                        WorldKey::Name(n) => n.clone(),
                        WorldKey::Interface(i) => resolve.id_of(*i).unwrap_or_else(|| "?".into()),
                    };
                    let iface = &resolve.interfaces[*id];
                    for (_, f) in iface.functions.iter() {
                        push_func(&mut funcs, dir, &module, f);
                    }
                    for (name, tid) in iface.types.iter() {
                        if matches!(resolve.types[*tid].kind, wit_parser::TypeDefKind::Resource) {
                            resources.push(ResourceInfo { id: *tid, dir, module: module.clone(), name: name.clone() });
                        }
                    }
                }
                WorldItem::Function(f) => push_func(&mut funcs, dir, "$root", f),
                WorldItem::Type { id, .. } => {
                    if matches!(resolve.types[*id].kind, wit_parser::TypeDefKind::Resource) {
                        let name = resolve.types[*id].name.clone().unwrap_or_default();
                        resources.push(ResourceInfo { id: *id, dir, module: "$root".into(), name });
                    }
                }
            }
        }
    }
    WorldView { funcs, resources }
}

/// Coarse, stable class of a type for violation signatures: numeric-like
/// scalars collapse to `n`, members of records/variants are a sorted set,
/// nesting is cut at depth 3.
pub fn shape_class(abi: &Abi, ty: &Type, depth: usize) -> String {
    if depth > 3 {
        return "..".into();
    }
    match abi.shape(ty) {
        Shape::Bool | Shape::U8 | Shape::U16 | Shape::U32 | Shape::U64 | Shape::S8 | Shape::S16 | Shape::S32 | Shape::S64 => "n".into(),
        Shape::F32 | Shape::F64 => "f".into(),
        Shape::Char => "c".into(),
        Shape::String => "s".into(),
        Shape::Handle(k) => format!("h{}", format!("{k:?}").to_lowercase()),
        Shape::List(t) => format!("l<{}>", shape_class(abi, &t, depth + 1)),
        // fixed-length lists whose elements own heap data are lowered by a different path: own class
        Shape::FixedList(t, _) => format!("{}<{}>", if abi.contains_heap(&t) { "flh" } else { "fl" }, shape_class(abi, &t, depth + 1)),
        Shape::Map(k, v) => format!("m<{},{}>", shape_class(abi, &k, depth + 1), shape_class(abi, &v, depth + 1)),
        Shape::Record(fs) => {
            let mut m: Vec<String> = fs.iter().map(|f| shape_class(abi, f, depth + 1)).collect();
            m.sort();
            m.dedup();
            format!("r({})", m.join(","))
        }
        Shape::Variant(cs, kind) => {
            let mut m: Vec<String> = cs.iter().flatten().map(|f| shape_class(abi, f, depth + 1)).collect();
            m.sort();
            m.dedup();
            match kind {
                VariantKind::Enum => "e".into(),
                VariantKind::Option => format!("o<{}>", m.join(",")),
                VariantKind::Result => format!("res<{}>", m.join(",")),
                VariantKind::Variant => format!("v({})", m.join("|")),
            }
        }
        Shape::Flags(_) => "fg".into(),
        _ => "?".into(),
    }
}

/// With `raw_strings` every string is a `Vec<u8>` on the Rust side.
pub fn raw_strings(v: &Val) -> Val {
    match v {
        Val::Str(s) => Val::List(s.bytes().map(Val::U8).collect()),
        Val::List(xs) => Val::List(xs.iter().map(raw_strings).collect()),
        Val::Record(xs) => Val::Record(xs.iter().map(raw_strings).collect()),
        Val::Map(xs) => Val::Map(xs.iter().map(|(k, v)| (raw_strings(k), raw_strings(v))).collect()),
        Val::Variant(c, p) => Val::Variant(*c, p.as_ref().map(|p| Box::new(raw_strings(p)))),
        other => other.clone(),
    }
}

/// Does the type contain a list reachable without passing through another list?
pub fn has_list(abi: &Abi, ty: &Type, depth: usize) -> bool {
    if depth > 6 {
        return false;
    }
    match abi.shape(ty) {
        Shape::List(_) | Shape::String => true,
        Shape::Record(fs) => fs.iter().any(|f| has_list(abi, f, depth + 1)),
        Shape::Variant(cs, _) => cs.iter().flatten().any(|f| has_list(abi, f, depth + 1)),
        _ => false,
    }
}

/// A value of `ty` in which the first reachable list (or string) is inflated
/// to about `n` elements.  Returns None if the type has no such list.
pub fn big_value(abi: &Abi, rng: &mut Rng, ty: &Type, n: usize, cfg: &cabi_ref::GenCfg) -> Option<Val> {
    if !has_list(abi, ty, 0) {
        return None;
    }
    Some(big(abi, rng, ty, n, cfg, &mut false))
}

fn big(abi: &Abi, rng: &mut Rng, ty: &Type, n: usize, cfg: &cabi_ref::GenCfg, done: &mut bool) -> Val {
    if *done || !has_list(abi, ty, 0) {
        return abi.gen_val(rng, ty, cfg, 2);
    }
    match abi.shape(ty) {
        Shape::String => {
            *done = true;
            let alphabet = ["a", "é", "日", "🦀", "z", " "];
            let mut s = String::with_capacity(n * 2);
            for _ in 0..n {
                s.push_str(alphabet[rng.usize(alphabet.len())]);
            }
            Val::Str(s)
        }
        Shape::List(et) => {
            *done = true;
            let heavy = abi.contains_heap(&et) || abi.elem_size(&et) > 64;
            let count = if heavy { (n / 8).max(1) } else { n };
            let small = cabi_ref::GenCfg { max_list: 2, ..*cfg };
            Val::List((0..count).map(|_| abi.gen_val(rng, &et, &small, 3)).collect())
        }
        Shape::Record(fs) => Val::Record(fs.iter().map(|f| big(abi, rng, f, n, cfg, done)).collect()),
        Shape::Variant(cs, _) => {
            // choose a case that leads to the list
            let idx = cs.iter().position(|c| c.as_ref().map(|t| has_list(abi, t, 0)).unwrap_or(false)).unwrap();
            let t = cs[idx].unwrap();
            Val::Variant(idx as u32, Some(Box::new(big(abi, rng, &t, n, cfg, done))))
        }
        _ => abi.gen_val(rng, ty, cfg, 2),
    }
}

/// number of heap-carrying nodes / elements in a value (workload evidence)
pub fn count_nodes(v: &Val, lists: &mut u64, elems: &mut u64, strings: &mut u64, maps: &mut u64) {
    match v {
        Val::Str(_) => *strings += 1,
        Val::List(xs) => {
            *lists += 1;
            *elems += xs.len() as u64;
            for x in xs {
                count_nodes(x, lists, elems, strings, maps);
            }
        }
        Val::Map(xs) => {
            *maps += 1;
            *elems += xs.len() as u64;
            for (k, x) in xs {
                count_nodes(k, lists, elems, strings, maps);
                count_nodes(x, lists, elems, strings, maps);
            }
        }
        Val::Record(xs) => {
            for x in xs {
                count_nodes(x, lists, elems, strings, maps);
            }
        }
        Val::Variant(_, Some(p)) => count_nodes(p, lists, elems, strings, maps),
        _ => {}
    }
}

/// Class of the smallest typed sub-value that contains every difference between
/// two canonical texts (for violation signatures: the *mismatching* part, not
/// the whole parameter).  A differing leaf is reported with its parent
/// constructor, e.g. `l<n>`, `flh<s>`, `r(s)`.
pub fn diff_class(abi: &Abi, ty: &Type, a: &crate::norm::Node, b: &crate::norm::Node) -> String {
    fn go(abi: &Abi, ty: &Type, a: &crate::norm::Node, b: &crate::norm::Node, parent: Option<&Type>) -> String {
        use crate::norm::Node;
        let here = |parent: Option<&Type>| match parent {
            Some(p) if !matches!(abi.shape(ty), Shape::Record(_) | Shape::Variant(..) | Shape::List(_) | Shape::FixedList(..) | Shape::Map(..)) => shape_class(abi, p, 2),
            _ => shape_class(abi, ty, 1),
        };
        match (abi.shape(ty), a, b) {
            // differences inside a fixed-length list with heap elements are reported as that list
            // (its lowering is generated by a separate path)
            (Shape::FixedList(et, _), _, _) if abi.contains_heap(&et) => shape_class(abi, ty, 1),
            (Shape::Record(fs), Node::Rec(x), Node::Rec(y)) if x.len() == y.len() && x.len() == fs.len() => {
                let d: Vec<usize> = (0..x.len()).filter(|i| x[*i] != y[*i]).collect();
                if d.len() == 1 {
                    return go(abi, &fs[d[0]], &x[d[0]], &y[d[0]], Some(ty));
                }
                here(parent)
            }
            (Shape::List(et), Node::List(x), Node::List(y)) | (Shape::FixedList(et, _), Node::List(x), Node::List(y)) if x.len() == y.len() => {
                let d: Vec<usize> = (0..x.len()).filter(|i| x[*i] != y[*i]).collect();
                if let Some(i) = d.first() {
                    // all differing elements have the same type: descend into the first
                    return go(abi, &et, &x[*i], &y[*i], Some(ty));
                }
                here(parent)
            }
            (Shape::Variant(cs, _), Node::Var(t1, Some(p1)), Node::Var(t2, Some(p2))) if t1 == t2 => {
                let idx: usize = t1.trim_start_matches('#').parse().unwrap_or(usize::MAX);
                match cs.get(idx) {
                    Some(Some(t)) => go(abi, t, p1, p2, Some(ty)),
                    _ => here(parent),
                }
            }
            _ => here(parent),
        }
    }
    go(abi, ty, a, b, None)
}

/// If a class mentions a fixed-length list with heap elements (`flh<..>`, a
/// separately generated lowering path), reduce the class to that part: keeps
/// signatures of defects of that path stable across enclosing shapes.
pub fn focus(class: &str) -> String {
    if let Some(i) = class.find("flh<") {
        let bytes = class.as_bytes();
        let mut depth = 0;
        for j in i + 3..bytes.len() {
            match bytes[j] {
                b'<' => depth += 1,
                b'>' => {
                    depth -= 1;
                    if depth == 0 {
                        return class[i..=j].to_string();
                    }
                }
                _ => {}
            }
        }
        return class[i..].to_string();
    }
    class.to_string()
}
