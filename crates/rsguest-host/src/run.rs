//! Call planner + oracles (C05 value equalities, C06 heap balance).
use crate::mem::ProcMem;
use crate::norm::{self, Cmp};
use crate::plan::{self, Dir, Func, WorldView};
use crate::res;
use crate::{ExportEntry, Slot, Tables};
use cabi_ref::{Abi, CoreTy, CoreVal, GenCfg, Memory, SigKind, Val};
use rsguest_support::{alloc, obs};
use serde_json::{json, Value};
use std::cell::RefCell;
use std::collections::BTreeMap;
use vkit::{Args, Report, Rng};
use wit_parser::{Resolve, Type};

pub const PTR: usize = std::mem::size_of::<usize>();

/// Known generator defect (recorded in known_findings.json): a fixed-length list
/// whose elements own heap data, inside an import parameter that is lowered to
/// memory, has its elements dropped before the import is called.  One exact
/// signature, whatever the element type / nesting / world.
/// Second known defect of the same construct: an export *result* that contains a
/// fixed-length list with heap elements is not cleaned up by post-return (the
/// generated `__post_return_*` frees nothing for the elements): a leak per call.
pub const SIG_FIXED_LIST_LEAK: &str = "rust-mem:leak:export:fixed-list-with-heap-elements-in-result:not-freed-by-post-return";
pub const SIG_FIXED_LIST_DANGLING: &str = "rust-e2e:import:param:fixed-list-with-heap-elements-lowered-to-memory:dangling-elements";

/// What the host expects from the import call that the running driver makes.
pub struct Pending {
    pub link: String,
    pub params: Vec<Type>,
    pub result: Option<Type>,
    pub result_val: Option<Val>,
    /// filled by `import_called`
    pub lifted: Option<Result<Vec<Val>, String>>,
    pub calls: u32,
    pub lower_error: Option<String>,
    pub flat_in: usize,
    pub used_retptr: bool,
    pub used_indirect: bool,
}

pub struct Shared {
    pub resolve: *const Resolve,
    pub tables: &'static Tables,
    pub pending: Option<Pending>,
    pub unexpected: Vec<String>,
    pub mem: ProcMem,
}

thread_local! {
    pub static SHARED: RefCell<Option<Shared>> = RefCell::new(None);
}

pub fn with_shared<R>(f: impl FnOnce(&mut Shared) -> R) -> R {
    SHARED.with(|s| f(s.borrow_mut().as_mut().expect("host not running")))
}

pub fn trunc(s: &str, n: usize) -> String {
    if s.len() <= n {
        s.to_string()
    } else {
        let mut end = n;
        while !s.is_char_boundary(end) {
            end -= 1;
        }
        format!("{}...(+{} bytes)", &s[..end], s.len() - end)
    }
}

pub fn slot_compatible(slot: Slot, core: CoreTy) -> bool {
    let pw = if PTR == 4 { CoreTy::I32 } else { CoreTy::I64 };
    match slot {
        Slot::I32 => core == CoreTy::I32,
        Slot::I64 => core == CoreTy::I64,
        Slot::F32 => core == CoreTy::F32,
        Slot::F64 => core == CoreTy::F64,
        Slot::Ptr | Slot::Len => core == pw,
        Slot::PtrOrI64 => core == CoreTy::I64,
    }
}

pub fn check_sig(slots: &[Slot], core: &[CoreTy]) -> Result<(), String> {
    if slots.len() != core.len() {
        return Err(format!("generated signature has {} flat slots {:?}, the canonical ABI has {} {:?}", slots.len(), slots, core.len(), core));
    }
    for (i, (s, c)) in slots.iter().zip(core).enumerate() {
        if !slot_compatible(*s, *c) {
            return Err(format!("flat slot {i}: generated {s:?}, canonical ABI {c:?} (all: {slots:?} vs {core:?})"));
        }
    }
    Ok(())
}

/// Entry point of every `verif_import|..` symbol of the glue that is an
/// ordinary function import (resource built-ins go to `res`).
pub fn import_called(index: usize, flat: &[CoreVal]) -> Option<CoreVal> {
    let prev = alloc::set_tracking(false);
    let r = SHARED.with(|s| {
        let mut g = s.borrow_mut();
        let sh = g.as_mut().expect("import called while the host is not running");
        let link = sh.tables.imports[index].link;
        if let Some(r) = res::builtin_called(sh, link, flat) {
            return r;
        }
        let resolve: &Resolve = unsafe { &*sh.resolve };
        let abi = Abi::new(resolve, PTR);
        let Shared { pending, unexpected, mem, .. } = sh;
        let p = match pending {
            Some(p) if p.link == link => p,
            _ => {
                if unexpected.len() < 8 {
                    unexpected.push(link.to_string());
                }
                return None;
            }
        };
        p.calls += 1;
        p.flat_in = flat.len();
        mem.begin_call();
        let sig = abi.signature(&p.params, p.result.as_ref(), SigKind::SyncLower);
        let nparams = if sig.retptr { flat.len().saturating_sub(1) } else { flat.len() };
        // lift the arguments the guest lowered
        let lifted: Result<Vec<Val>, String> = (|| {
            if sig.indirect_params {
                let base = match flat.first() {
                    Some(v) => v.bits(),
                    None => return Err("no parameter pointer".to_string()),
                };
                let offs = abi.field_offsets(&p.params);
                let mut out = vec![];
                for (t, o) in p.params.iter().zip(offs) {
                    out.push(abi.load(mem, t, base + o as u64)?);
                }
                Ok(out)
            } else {
                let mut it = flat[..nparams].iter();
                let mut out = vec![];
                for t in &p.params {
                    out.push(abi.lift_flat(mem, &mut it, t)?);
                }
                if it.next().is_some() {
                    return Err("more flat arguments than the canonical ABI defines".to_string());
                }
                Ok(out)
            }
        })();
        p.lifted = Some(lifted);
        p.used_retptr = sig.retptr;
        p.used_indirect = sig.indirect_params;
        // lower the scripted result
        match (&p.result, &p.result_val) {
            (Some(ty), Some(val)) => {
                if sig.retptr {
                    let rp = flat.last().map(|v| v.bits()).unwrap_or(0);
                    if let Err(e) = abi.store(mem, val, ty, rp) {
                        p.lower_error = Some(e);
                    }
                    None
                } else {
                    match abi.lower_flat(mem, val, ty) {
                        Ok(v) => v.first().copied(),
                        Err(e) => {
                            p.lower_error = Some(e);
                            None
                        }
                    }
                }
            }
            _ => None,
        }
    });
    alloc::set_tracking(prev);
    r
}

pub struct Host<'a> {
    pub tables: &'static Tables,
    pub resolve: &'a Resolve,
    pub abi: Abi<'a>,
    pub view: WorldView,
    pub raw_strings: bool,
    pub rng: Rng,
    pub rep: Report,
    pub exports: BTreeMap<&'static str, &'static ExportEntry>,
    pub imports: BTreeMap<&'static str, usize>,
    pub call_no: u64,
    pub seed: u64,
    pub max_list: usize,
    pub big: usize,
    pub world_tag: String,
    pub alloc_ok: bool,
    pub samples_left: usize,
    pub verbose: bool,
    pub class_cache: BTreeMap<String, String>,
    pub keyed: std::collections::BTreeSet<String>,
    /// C08 differential: key of the running call (`dir|module|name|k`, set by the
    /// caller) and every mismatch / heap imbalance observed, as
    /// (`<call key>|<what>|<index>`, observed text) — the reference dump of a sync run
    pub call_key: String,
    pub mismatches: Vec<(String, String)>,
}

impl<'a> Host<'a> {
    pub fn text(&self, v: &Val) -> String {
        if self.raw_strings {
            plan::raw_strings(v).text()
        } else {
            v.text()
        }
    }

    pub fn ctx(&self, f: &Func, phase: &str, shape: &str) {
        // hand-formatted JSON (names and shape classes contain no quotes or backslashes): this runs
        // several times per call, also under Miri
        let s = format!(
            "{{\"call\":{},\"dir\":\"{}\",\"func\":\"{}\",\"phase\":\"{}\",\"shape\":\"{}\",\"world\":\"{}\"}}",
            self.call_no,
            f.dir.name(),
            f.symbol().replace('\\', "/").replace('"', "'"),
            phase,
            shape.replace('"', "'"),
            self.world_tag
        );
        obs::set_context(&s);
        if phase != "prepare" && phase != "after" {
            eprintln!("CTX {s}");
        }
    }

    pub fn replay(&self, f: &Func, extra: Value) -> Value {
        json!({"world": self.world_tag, "seed": self.seed, "call": self.call_no, "func": f.symbol(), "dir": f.dir.name(),
               "opts": serde_json::from_str::<Value>(self.tables.opts).unwrap_or(Value::Null), "wit": self.tables.wit, "detail": extra})
    }

    /// signature class for the heap-carrying part of a function signature (cached per function)
    pub fn heap_class(&mut self, f: &Func) -> String {
        let sym = f.symbol();
        if let Some(c) = self.class_cache.get(&sym) {
            return c.clone();
        }
        let c = self.heap_class_uncached(f);
        self.class_cache.insert(sym, c.clone());
        c
    }

    pub fn heap_class_uncached(&self, f: &Func) -> String {
        let mut ps: Vec<String> = f.params.iter().filter(|t| self.abi.contains_heap(t)).map(|t| plan::shape_class(&self.abi, t, 0)).collect();
        ps.sort();
        ps.dedup();
        let r = f.result.as_ref().filter(|t| self.abi.contains_heap(t)).map(|t| plan::shape_class(&self.abi, t, 0)).unwrap_or_default();
        let mut s = format!("p={};r={}", ps.join("+"), r);
        if s.len() > 90 {
            s.truncate(90);
        }
        s
    }

    /// one of the four C05 equalities
    pub fn judge(&mut self, f: &Func, what: &str, ty: &Type, index: usize, expected: &str, observed: &str) {
        self.rep.count(match (f.dir, what) {
            (Dir::Export, "param") => "compared_export_param",
            (Dir::Export, _) => "compared_export_result",
            (Dir::Import, "param") => "compared_import_param",
            (Dir::Import, _) => "compared_import_result",
        });
        self.rep.count_n("bytes_compared", expected.len() as u64);
        match norm::compare(expected, observed) {
            Cmp::Equal => {}
            Cmp::NanOnly => {
                self.rep.count("nan_payload_only_differences");
                self.rep.inconclusive("a NaN payload changed across the boundary (canonicalisation is permitted)");
            }
            other => {
                if !self.call_key.is_empty() {
                    self.mismatches.push((format!("{}|{}|{}", self.call_key, what, index), observed.to_string()));
                }
                // classify by the part of the value that actually differs
                let class = match (norm::parse(expected), norm::parse(observed)) {
                    (Ok(a), Ok(b)) => plan::diff_class(&self.abi, ty, &a, &b),
                    _ => plan::shape_class(&self.abi, ty, 0),
                };
                let focused = plan::focus(&class);
                let sig = if f.dir == Dir::Import && what == "param" && focused.starts_with("flh<") {
                    SIG_FIXED_LIST_DANGLING.to_string()
                } else {
                    format!("rust-e2e:{}:{}:{}", f.dir.name(), what, focused)
                };
                let msg = format!(
                    "{} {} of `{}` (index {}, type shape {}) arrived changed: expected {} observed {}{} [opts {}]",
                    f.dir.name(),
                    what,
                    f.symbol(),
                    index,
                    self.abi.shape_key(ty),
                    trunc(expected, 600),
                    trunc(observed, 600),
                    if let Cmp::Malformed(e) = &other { format!(" (malformed: {e})") } else { String::new() },
                    self.tables.opts
                );
                let rp = self.replay(f, json!({"what": what, "index": index, "expected": trunc(expected, 4000), "observed": trunc(observed, 4000)}));
                self.rep.violation(&sig, &msg, rp);
            }
        }
    }

    pub fn fail(&mut self, f: &Func, what: &str, ty: Option<&Type>, msg: &str) {
        let class = ty.map(|t| plan::shape_class(&self.abi, t, 0)).unwrap_or_else(|| "-".into());
        // a lift failure cannot be localised: if the signature has a fixed-length list with heap elements, name that
        let fclass = plan::focus(&self.heap_class(f));
        let class = if fclass.starts_with("flh<") { fclass } else { plan::focus(&class) };
        let sig = if f.dir == Dir::Import && what == "param" && class.starts_with("flh<") {
            SIG_FIXED_LIST_DANGLING.to_string()
        } else {
            format!("rust-e2e:{}:{}:{}", f.dir.name(), what, class)
        };
        let m = format!("{} `{}`: {} [opts {}]", f.dir.name(), f.symbol(), msg, self.tables.opts);
        let rp = self.replay(f, json!({"what": what, "error": msg}));
        self.rep.violation(&sig, &m, rp);
    }

    pub fn gen_cfg(&self) -> GenCfg {
        GenCfg { max_list: self.max_list, ..GenCfg::default() }
    }

    pub fn gen_args(&mut self, f: &Func, big: bool) -> (Vec<Val>, bool) {
        let cfg = self.gen_cfg();
        let mut used_big = false;
        let mut out = vec![];
        for t in &f.params {
            if big && !used_big {
                if let Some(v) = plan::big_value(&self.abi, &mut self.rng, t, self.big, &cfg) {
                    used_big = true;
                    out.push(v);
                    continue;
                }
            }
            out.push(self.abi.gen_val(&mut self.rng, t, &cfg, 0));
        }
        (out, used_big)
    }

    pub fn gen_result(&mut self, f: &Func, big: bool) -> (Option<Val>, bool) {
        let cfg = self.gen_cfg();
        match &f.result {
            None => (None, false),
            Some(t) => {
                if big {
                    if let Some(v) = plan::big_value(&self.abi, &mut self.rng, t, self.big, &cfg) {
                        return (Some(v), true);
                    }
                }
                (Some(self.abi.gen_val(&mut self.rng, t, &cfg, 0)), false)
            }
        }
    }

    pub fn workload(&mut self, vals: &[Val]) {
        let (mut l, mut e, mut s, mut m) = (0, 0, 0, 0);
        for v in vals {
            plan::count_nodes(v, &mut l, &mut e, &mut s, &mut m);
        }
        self.rep.count_n("lists_passed", l);
        self.rep.count_n("list_elements_passed", e);
        self.rep.count_n("strings_passed", s);
        self.rep.count_n("maps_passed", m);
    }

    pub fn leak_check(&mut self, f: &Func, before: alloc::Snap, after: alloc::Snap, kept: bool) {
        if !self.alloc_ok {
            return;
        }
        self.rep.count("heap_balance_checks");
        if before == after || kept {
            return;
        }
        if !self.call_key.is_empty() {
            self.mismatches.push((format!("{}|balance|0", self.call_key), format!("{},{}", after.blocks - before.blocks, after.bytes - before.bytes)));
        }
        let blocks = alloc::tracked_blocks(12);
        let kind = if after.blocks > before.blocks || after.bytes > before.bytes { "leak" } else { "over-free" };
        let result_has_flh = f.result.as_ref().map(|t| plan::shape_class(&self.abi, t, 0).contains("flh<")).unwrap_or(false);
        let sig = if kind == "leak" && f.dir == Dir::Export && result_has_flh {
            SIG_FIXED_LIST_LEAK.to_string()
        } else {
            format!("rust-mem:{}:{}:{}", kind, f.dir.name(), plan::focus(&self.heap_class(f)))
        };
        let msg = format!(
            "{} `{}`: guest heap not restored after the call{}: live blocks {} -> {}, bytes {} -> {}; some live guest blocks (size, align): {:?} [opts {}]",
            f.dir.name(),
            f.symbol(),
            if f.dir == Dir::Export { " + post-return" } else { "" },
            before.blocks,
            after.blocks,
            before.bytes,
            after.bytes,
            blocks,
            self.tables.opts
        );
        let rp = self.replay(f, json!({"before": [before.blocks, before.bytes], "after": [after.blocks, after.bytes]}));
        self.rep.violation(&sig, &msg, rp);
    }

    // ------------------------------------------------------------- exports

    pub fn call_export(&mut self, f: &Func, big: bool) {
        self.call_no += 1;
        let sym = f.symbol();
        let entry = match self.exports.get(sym.as_str()) {
            Some(e) => *e,
            None => {
                self.rep.inconclusive(&format!("no `{}`-style export symbol found in the generated bindings (function kind {:?})", if f.module == "$root" { "f" } else { "iface#f" }, std::mem::discriminant(&f.kind)));
                return;
            }
        };
        let post = self.exports.get(f.post_symbol().as_str()).copied();
        let class = self.heap_class(f);
        self.ctx(f, "prepare", &class);
        let sig = self.abi.signature(&f.params, f.result.as_ref(), SigKind::SyncLift);
        if let Err(e) = check_sig(entry.params, &sig.params).and_then(|_| check_sig(entry.results, &sig.results)) {
            self.fail(f, "signature", None, &e);
            return;
        }
        let (args, big_a) = self.gen_args(f, big);
        let (result, big_r) = self.gen_result(f, big && !big_a);
        if big_a || big_r {
            self.rep.count("big_value_calls");
        }
        self.workload(&args);
        if let Some(r) = &result {
            self.workload(std::slice::from_ref(r));
        }
        let sent: Vec<String> = args.iter().map(|v| self.text(v)).collect();
        let scripted = result.as_ref().map(|v| self.text(v));
        obs::clear();
        obs::push_script(scripted.clone().unwrap_or_default());

        let before = alloc::snapshot();
        // lower
        let flat: Result<Vec<CoreVal>, String> = with_shared(|sh| {
            let mem = &mut sh.mem;
            mem.begin_call();
            if sig.indirect_params {
                let (size, align) = self.abi.record_layout(&f.params);
                let base = mem.alloc(size, align)?;
                let offs = self.abi.field_offsets(&f.params);
                for ((v, t), o) in args.iter().zip(&f.params).zip(offs) {
                    self.abi.store(mem, v, t, base + o as u64)?;
                }
                Ok(vec![if PTR == 4 { CoreVal::I32(base as u32) } else { CoreVal::I64(base) }])
            } else {
                let mut out = vec![];
                for (v, t) in args.iter().zip(&f.params) {
                    out.extend(self.abi.lower_flat(mem, v, t)?);
                }
                Ok(out)
            }
        });
        let flat = match flat {
            Ok(f) => f,
            Err(e) => {
                self.rep.inconclusive(&format!("host could not lower its own arguments: {e}"));
                return;
            }
        };
        if sig.indirect_params {
            self.rep.count("export_indirect_params");
        }
        // call
        self.ctx(f, "call", &class);
        alloc::set_tracking(true);
        let ret = unsafe { (entry.call)(&flat) };
        alloc::set_tracking(false);
        self.rep.eval();
        self.rep.count("export_calls");
        // observe the arguments
        self.ctx(f, "lift-result", &class);
        let log = obs::take_log();
        let mut seen_args = vec![];
        let mut enters = 0;
        for e in &log {
            match e {
                obs::Event::Enter(_) => enters += 1,
                obs::Event::Arg(a) => seen_args.push(a.clone()),
                _ => {}
            }
        }
        let self_args = matches!(f.kind, wit_parser::FunctionKind::Method(_)) as usize;
        if enters != 1 {
            self.fail(f, "dispatch", None, &format!("the user implementation was entered {enters} times for one call"));
        } else if seen_args.len() + self_args != sent.len() {
            self.fail(f, "dispatch", None, &format!("the user implementation received {} arguments, the host sent {}", seen_args.len() + self_args, sent.len()));
        } else {
            for (i, (t, exp)) in f.params.iter().zip(&sent).enumerate().skip(self_args) {
                let got = seen_args[i - self_args].clone();
                self.judge(f, "param", t, i, exp, &got);
            }
        }
        if obs::script_len() != 0 {
            self.fail(f, "dispatch", None, "the user implementation did not consume its scripted result");
        }
        // lift the result
        if let (Some(ty), Some(scripted)) = (&f.result, &scripted) {
            let lifted: Result<Val, String> = with_shared(|sh| {
                let mem = &sh.mem;
                match (sig.retptr, ret) {
                    (true, Some(p)) => self.abi.load(mem, ty, p.bits()),
                    (false, Some(v)) => {
                        let vs = [v];
                        self.abi.lift_flat(mem, &mut vs.iter(), ty)
                    }
                    (_, None) => Err("the export returned no core value".to_string()),
                }
            });
            if sig.retptr {
                self.rep.count("export_results_via_return_area");
            }
            match lifted {
                Ok(v) => {
                    let got = self.text(&v);
                    self.judge(f, "result", ty, 0, scripted, &got);
                }
                Err(e) => self.fail(f, "result", Some(ty), &format!("the host could not lift the result: {e}")),
            }
        }
        // post-return
        if let Some(post) = post {
            self.ctx(f, "post-return", &class);
            let args: Vec<CoreVal> = ret.into_iter().collect();
            alloc::set_tracking(true);
            unsafe { (post.call)(&args) };
            alloc::set_tracking(false);
            self.rep.count("post_return_calls");
        }
        self.ctx(f, "after", &class);
        let after = alloc::snapshot();
        self.leak_check(f, before, after, false);
        self.sample(f, &sent, scripted.as_deref());
        if self.keyed.insert(sym.clone()) {
            let key = format!("export|{}|{}|{}", f.params.iter().map(|t| self.abi.shape_key(t)).collect::<Vec<_>>().join(","), f.result.as_ref().map(|t| self.abi.shape_key(t)).unwrap_or_default(), self.tables.opts);
            self.rep.distinct(&key);
        }
    }

    pub fn sample(&mut self, f: &Func, args: &[String], result: Option<&str>) {
        if self.samples_left > 0 && (f.params.len() > 1 || result.map(|r| r.len() > 8).unwrap_or(false)) {
            self.samples_left -= 1;
            self.rep.sample(json!({"world": self.world_tag, "dir": f.dir.name(), "func": f.symbol(), "opts": self.tables.opts,
                "args": args.iter().map(|a| trunc(a, 300)).collect::<Vec<_>>(), "result": result.map(|r| trunc(r, 300))}));
        }
    }

    // ------------------------------------------------------------- imports

    pub fn call_import(&mut self, f: &Func, big: bool) {
        self.call_no += 1;
        let link = f.symbol();
        let idx = match self.imports.get(link.as_str()) {
            Some(i) => *i,
            None => {
                self.rep.inconclusive("an imported function of the world has no import declaration in the generated bindings");
                return;
            }
        };
        let entry = &self.tables.imports[idx];
        let driver = match entry.driver {
            Some(d) => d,
            None => {
                self.rep.inconclusive("no public Rust function wraps an import declaration (no driver)");
                return;
            }
        };
        let class = self.heap_class(f);
        self.ctx(f, "prepare", &class);
        let sig = self.abi.signature(&f.params, f.result.as_ref(), SigKind::SyncLower);
        if let Err(e) = check_sig(entry.params, &sig.params).and_then(|_| check_sig(entry.results, &sig.results)) {
            self.fail(f, "signature", None, &e);
            return;
        }
        let (args, big_a) = self.gen_args(f, big);
        let (result, big_r) = self.gen_result(f, big && !big_a);
        if big_a || big_r {
            self.rep.count("big_value_calls");
        }
        self.workload(&args);
        if let Some(r) = &result {
            self.workload(std::slice::from_ref(r));
        }
        let scripted: Vec<String> = args.iter().map(|v| self.text(v)).collect();
        let host_result = result.as_ref().map(|v| self.text(v));
        obs::clear();
        for s in &scripted {
            obs::push_script(s.clone());
        }
        with_shared(|sh| {
            sh.pending = Some(Pending {
                link: link.clone(),
                params: f.params.clone(),
                result: f.result,
                result_val: result.clone(),
                lifted: None,
                calls: 0,
                lower_error: None,
                flat_in: 0,
                used_retptr: false,
                used_indirect: false,
            })
        });
        let before = alloc::snapshot();
        self.ctx(f, "call", &class);
        alloc::set_tracking(true);
        driver();
        alloc::set_tracking(false);
        self.ctx(f, "after", &class);
        let after = alloc::snapshot();
        self.rep.eval();
        self.rep.count("import_calls");
        let p = with_shared(|sh| sh.pending.take()).unwrap();
        if p.used_retptr {
            self.rep.count("import_results_via_return_pointer");
        }
        if p.used_indirect {
            self.rep.count("import_indirect_params");
        }
        if let Some(e) = &p.lower_error {
            self.rep.inconclusive(&format!("host could not lower its own result: {e}"));
            return;
        }
        if p.calls != 1 {
            self.fail(f, "dispatch", None, &format!("the binding called its import {} times for one call", p.calls));
        }
        match p.lifted {
            Some(Ok(vals)) => {
                for (i, ((t, exp), v)) in f.params.iter().zip(&scripted).zip(&vals).enumerate() {
                    let got = self.text(v);
                    self.judge(f, "param", t, i, exp, &got);
                }
            }
            Some(Err(e)) => {
                let t = f.params.first().copied();
                self.fail(f, "param", t.as_ref(), &format!("the host could not lift the arguments: {e}"))
            }
            None => {}
        }
        let log = obs::take_log();
        let rets: Vec<&String> = log.iter().filter_map(|e| if let obs::Event::Ret(r) = e { Some(r) } else { None }).collect();
        if let (Some(ty), Some(exp)) = (&f.result, &host_result) {
            match rets.as_slice() {
                [got] => {
                    let got = (*got).clone();
                    self.judge(f, "result", ty, 0, exp, &got)
                }
                other => self.fail(f, "dispatch", None, &format!("the driver logged {} results", other.len())),
            }
        }
        self.leak_check(f, before, after, false);
        self.sample(f, &scripted, host_result.as_deref());
        if self.keyed.insert(link.clone()) {
            let key = format!("import|{}|{}|{}", f.params.iter().map(|t| self.abi.shape_key(t)).collect::<Vec<_>>().join(","), f.result.as_ref().map(|t| self.abi.shape_key(t)).unwrap_or_default(), self.tables.opts);
            self.rep.distinct(&key);
        }
    }
}

pub fn type_has_handle(abi: &Abi, ty: &Type, depth: usize) -> bool {
    use cabi_ref::Shape;
    if depth > 8 {
        return false;
    }
    match abi.shape(ty) {
        Shape::Handle(_) => true,
        Shape::List(t) | Shape::FixedList(t, _) => type_has_handle(abi, &t, depth + 1),
        Shape::Map(k, v) => type_has_handle(abi, &k, depth + 1) || type_has_handle(abi, &v, depth + 1),
        Shape::Record(fs) => fs.iter().any(|f| type_has_handle(abi, f, depth + 1)),
        Shape::Variant(cs, _) => cs.iter().flatten().any(|f| type_has_handle(abi, f, depth + 1)),
        _ => false,
    }
}

/// Main of every generated test crate.
pub fn run(tables: &'static Tables) {
    alloc::set_tracking(false);
    let args = Args::parse();
    let seed = args.seed();
    let sets = args.u64("sets", 10) as usize;
    let mode = args.str("mode", "values");
    let world_tag = args.str("world", "w");
    let mut rep = Report::new("one evaluation = one call through the generated bindings (export: lower, call, lift, post-return; import: driver, stub); distinct = (direction, canonical shape key of parameter and result types, generator options)");
    rep.max_samples = 3;
    let (resolve, world) = {
        let mut resolve = Resolve::default();
        resolve.all_features = true;
        let pkg = resolve.push_str("world.wit", tables.wit).expect("the world's WIT must parse");
        let world = resolve.select_world(&[pkg], Some(tables.world)).expect("world");
        (resolve, world)
    };
    let view = plan::world_view(&resolve, world);
    let opts: Value = serde_json::from_str(tables.opts).unwrap_or(Value::Null);
    let raw_strings = opts.get("raw_strings").and_then(|v| v.as_bool()).unwrap_or(false);
    let alloc_ok = alloc::installed();
    if !alloc_ok {
        rep.inconclusive("the checking allocator is not installed: heap balance not observed");
    }
    SHARED.with(|s| *s.borrow_mut() = Some(Shared { resolve: &resolve, tables, pending: None, unexpected: vec![], mem: ProcMem::new() }));
    let mut host = Host {
        tables,
        resolve: &resolve,
        abi: Abi::new(&resolve, PTR),
        view,
        raw_strings,
        rng: Rng::new(seed ^ 0x5eed_0000_c05),
        rep,
        exports: tables.exports.iter().map(|e| (e.name, e)).collect(),
        imports: tables.imports.iter().enumerate().map(|(i, e)| (e.link, i)).collect(),
        call_no: 0,
        seed,
        max_list: args.u64("max-list", 4) as usize,
        big: args.u64("big", 0) as usize,
        world_tag,
        alloc_ok,
        samples_left: 3,
        verbose: args.get("verbose").is_some(),
        class_cache: BTreeMap::new(),
        keyed: Default::default(),
        call_key: String::new(),
        mismatches: vec![],
    };
    match mode.as_str() {
        "values" => run_values(&mut host, sets),
        "resources" => {
            // exported-resource representations travel through an i32: keep them below 4 GiB
            if !alloc::set_low32(true) {
                host.rep.inconclusive("no way to keep resource representations below 4 GiB on this platform");
            }
            res::run_histories(&mut host, sets, args.u64("ops", 20) as usize);
            alloc::set_low32(false);
        }
        other => host.rep.inconclusive(&format!("unknown mode {other}")),
    }
    let unexpected = with_shared(|sh| std::mem::take(&mut sh.unexpected));
    for u in unexpected {
        host.rep.inconclusive(&format!("import `{u}` was called while the host expected no such call"));
    }
    let (allocs, frees, peak) = alloc::stats();
    host.rep.count_n("guest_heap_allocations", allocs as u64);
    host.rep.count_n("guest_heap_frees", frees as u64);
    let _ = peak;
    let (handed, written) = with_shared(|sh| (sh.mem.handed, sh.mem.bytes_written));
    host.rep.count_n("host_blocks_handed_to_guest", handed as u64);
    host.rep.count_n("host_bytes_written", written);
    host.rep.extra.insert("pointer_widths".into(), json!([PTR * 8]));
    let out = args.out();
    let rep = std::mem::take(&mut host.rep);
    drop(host);
    SHARED.with(|s| *s.borrow_mut() = None);
    obs::clear();
    rep.write(&out);
    eprintln!("CTX {}", json!({"phase": "done"}));
}

fn run_values(host: &mut Host, sets: usize) {
    let funcs: Vec<Func> = host.view.funcs.clone();
    let mut usable = vec![];
    for f in funcs {
        if f.is_async {
            host.rep.count("skipped_async_functions");
            continue;
        }
        let handle = f.params.iter().chain(f.result.iter()).any(|t| type_has_handle(&host.abi, t, 0));
        if handle || f.resource().is_some() {
            host.rep.count("skipped_handle_functions_in_values_mode");
            continue;
        }
        usable.push(f);
    }
    let flh = usable.iter().filter(|f| f.dir == Dir::Import && f.params.iter().any(|t| plan::shape_class(&host.abi, t, 0).contains("flh<"))).count();
    host.rep.count_n("import_functions_with_fixed_list_of_heap_elements", flh as u64);
    if usable.is_empty() {
        host.rep.inconclusive("world has no callable handle-free sync function");
        return;
    }
    for set in 0..sets {
        let mut order: Vec<usize> = (0..usable.len()).collect();
        host.rng.shuffle(&mut order);
        // big values: one function per set in the first two sets
        let big_idx = if host.big > 0 && set < 2 { Some(order[0]) } else { None };
        for i in order {
            let f = usable[i].clone();
            let big = big_idx == Some(i);
            match f.dir {
                Dir::Export => host.call_export(&f, big),
                Dir::Import => host.call_import(&f, big),
            }
        }
        // back-to-back calls of the same export: the static return area is reused
        if let Some(f) = usable.iter().find(|f| f.dir == Dir::Export && f.result.is_some()).cloned() {
            host.call_export(&f, false);
            host.call_export(&f, false);
            host.rep.count("back_to_back_return_area_reuse");
        }
    }
}
