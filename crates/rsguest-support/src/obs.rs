//! Positional observation channel.
//!
//! `Obs::ser` prints a Rust value in exactly the text form of
//! `cabi_ref::Val::text()`; `Obs::de` builds a Rust value from that text.  The
//! impls for generated records / variants / enums / flags / handles are emitted
//! by the `rsguest` generator from the *syntax* of the generated bindings
//! (fields in order, cases by index); everything else (integers, floats by bits,
//! chars by scalar value, strings by bytes, tuples, lists, options, results,
//! maps, references into an arena) is covered by the blanket impls below.
//!
//! Text grammar: `T`/`F`; decimal integers; `f%08x` / `d%016x` float bits;
//! `c%x` char; `"hex bytes"` string; `[a,b]` list; `{k:v,..}` map; `(a,b)`
//! record/tuple; `#n` or `#n<payload>` variant/enum/option/result; `b0101;`
//! flags; `h%d` handle.
use std::cell::{Cell, RefCell};
use std::collections::{BTreeMap, HashMap, VecDeque};
use std::fmt::Write;

use crate::alloc;

// ------------------------------------------------------------------ writer

pub struct Ser {
    pub out: String,
}

impl Ser {
    pub fn new() -> Ser {
        Ser { out: String::new() }
    }
    pub fn case(&mut self, idx: u32) {
        write!(self.out, "#{idx}").unwrap();
    }
    /// `#idx<payload>`
    pub fn case_with<'a, T: Obs<'a>>(&mut self, idx: u32, payload: &T) {
        self.case(idx);
        if !T::IS_UNIT {
            self.out.push('<');
            payload.ser(self);
            self.out.push('>');
        }
    }
    pub fn begin_record(&mut self) {
        self.out.push('(');
    }
    pub fn field<'a, T: Obs<'a>>(&mut self, idx: usize, v: &T) {
        if idx > 0 {
            self.out.push(',');
        }
        v.ser(self);
    }
    pub fn end_record(&mut self) {
        self.out.push(')');
    }
    pub fn flags(&mut self, bits: u128, n: usize) {
        self.out.push('b');
        for i in 0..n {
            self.out.push(if bits >> i & 1 == 1 { '1' } else { '0' });
        }
        self.out.push(';');
    }
    pub fn handle(&mut self, h: u32) {
        write!(self.out, "h{h}").unwrap();
    }
}

// ------------------------------------------------------------------ arena

/// Owner of values that parameters borrow from (`&str`, `&[T]`, `&T`); frees
/// them, in reverse order of creation, when dropped.
pub struct Arena {
    items: RefCell<Vec<(*mut u8, unsafe fn(*mut u8))>>,
}

impl Arena {
    pub fn new() -> Arena {
        Arena { items: RefCell::new(Vec::new()) }
    }
    pub fn alloc<'a, T: 'a>(&'a self, v: T) -> &'a T {
        unsafe fn drop_box<T>(p: *mut u8) {
            drop(Box::from_raw(p as *mut T));
        }
        let p = Box::into_raw(Box::new(v));
        self.items.borrow_mut().push((p as *mut u8, drop_box::<T>));
        unsafe { &*p }
    }
}

impl Arena {
    /// Like `alloc`, but when the arena is dropped the value is *kept*
    /// (`Obs::keep`): owned handles inside go back to the stash, because a value
    /// lent by reference is still owned by the user code afterwards.
    pub fn alloc_obs<'a, T: Obs<'a> + 'a>(&'a self, v: T) -> &'a T {
        unsafe fn keep_box<'x, T: Obs<'x>>(p: *mut u8) {
            let b = Box::from_raw(p as *mut T);
            (*b).keep();
        }
        let p = Box::into_raw(Box::new(v));
        self.items.borrow_mut().push((p as *mut u8, keep_box::<T>));
        unsafe { &*p }
    }
}

impl Drop for Arena {
    fn drop(&mut self) {
        let mut items = std::mem::take(&mut *self.items.borrow_mut());
        while let Some((p, f)) = items.pop() {
            unsafe { f(p) }
        }
    }
}

// ------------------------------------------------------------------ reader

pub struct De<'a> {
    s: &'a [u8],
    pos: usize,
    pub arena: &'a Arena,
}

/// A script/type disagreement is fatal for the run: it is printed on stderr and
/// the process aborts (we are usually inside an `extern "C"` frame).
fn mismatch(d: &De, what: &str) -> ! {
    alloc::set_tracking(false);
    let lo = d.pos.saturating_sub(24);
    let hi = (d.pos + 24).min(d.s.len());
    eprintln!(
        "\nRSGUEST-SCRIPT-MISMATCH expected={} at={} near={:?} ctx={}",
        what,
        d.pos,
        String::from_utf8_lossy(&d.s[lo..hi]),
        current_context()
    );
    std::process::abort()
}

impl<'a> De<'a> {
    pub fn new(text: &'a str, arena: &'a Arena) -> De<'a> {
        De { s: text.as_bytes(), pos: 0, arena }
    }
    pub fn peek(&self) -> u8 {
        self.s.get(self.pos).copied().unwrap_or(0)
    }
    pub fn at_end(&self) -> bool {
        self.pos >= self.s.len()
    }
    pub fn eat(&mut self, c: u8) -> bool {
        if self.peek() == c {
            self.pos += 1;
            true
        } else {
            false
        }
    }
    pub fn expect(&mut self, c: u8, what: &str) {
        if !self.eat(c) {
            mismatch(self, what)
        }
    }
    fn int(&mut self, what: &str) -> i128 {
        let neg = self.eat(b'-');
        let start = self.pos;
        let mut v: i128 = 0;
        while self.peek().is_ascii_digit() {
            v = v * 10 + (self.peek() - b'0') as i128;
            self.pos += 1;
        }
        if self.pos == start {
            mismatch(self, what)
        }
        if neg {
            -v
        } else {
            v
        }
    }
    fn hex(&mut self, digits: Option<usize>, what: &str) -> u64 {
        let start = self.pos;
        let mut v: u64 = 0;
        loop {
            let c = self.peek();
            let d = match c {
                b'0'..=b'9' => c - b'0',
                b'a'..=b'f' => c - b'a' + 10,
                _ => break,
            };
            if let Some(n) = digits {
                if self.pos - start == n {
                    break;
                }
            }
            v = v << 4 | d as u64;
            self.pos += 1;
        }
        match digits {
            Some(n) if self.pos - start != n => mismatch(self, what),
            None if self.pos == start => mismatch(self, what),
            _ => v,
        }
    }
    /// `#n`; the caller then reads the payload with `payload`
    pub fn case(&mut self) -> u32 {
        self.expect(b'#', "variant case '#'");
        self.int("case index") as u32
    }
    pub fn payload<T: Obs<'a>>(&mut self) -> T {
        if T::IS_UNIT {
            return T::de(self);
        }
        self.expect(b'<', "variant payload '<'");
        let v = T::de(self);
        self.expect(b'>', "variant payload '>'");
        v
    }
    pub fn bad_case(&mut self, idx: u32, ty: &str) -> ! {
        mismatch(self, &format!("case index {idx} out of range for {ty}"))
    }
    pub fn begin_record(&mut self) {
        self.expect(b'(', "record '('");
    }
    pub fn field<T: Obs<'a>>(&mut self, idx: usize) -> T {
        if idx > 0 {
            self.expect(b',', "record ','");
        }
        T::de(self)
    }
    pub fn end_record(&mut self) {
        self.expect(b')', "record ')'");
    }
    pub fn flags(&mut self, n: usize) -> u128 {
        self.expect(b'b', "flags 'b'");
        let mut bits = 0u128;
        for i in 0..n {
            match self.peek() {
                b'1' => bits |= 1 << i,
                b'0' => {}
                _ => mismatch(self, "flags bit"),
            }
            self.pos += 1;
        }
        self.expect(b';', "flags ';' (member count)");
        bits
    }
    pub fn handle(&mut self) -> u32 {
        self.expect(b'h', "handle 'h'");
        self.int("handle index") as u32
    }
    pub fn missing_handle(&mut self, h: u32, ty: &str) -> ! {
        mismatch(self, &format!("a {ty} handle {h} that the user code holds (stash)"))
    }
    pub fn unsupported(&mut self, what: &str) -> ! {
        mismatch(self, &format!("(unsupported: {what})"))
    }
    fn seq<T>(&mut self, open: u8, close: u8, what: &str, mut f: impl FnMut(&mut Self) -> T) -> Vec<T> {
        self.expect(open, what);
        let mut out = Vec::new();
        if self.eat(close) {
            return out;
        }
        loop {
            out.push(f(self));
            if self.eat(close) {
                return out;
            }
            self.expect(b',', what);
        }
    }
}

pub trait Obs<'a>: Sized {
    /// `()` (absent payload / no result)
    const IS_UNIT: bool = false;
    fn ser(&self, s: &mut Ser);
    fn de(d: &mut De<'a>) -> Self;
    /// Consume the value; owned resource handles inside it are moved to the
    /// stash (the user code keeps them), everything else is dropped.
    fn keep(self) {}
}

impl<'a> Obs<'a> for () {
    const IS_UNIT: bool = true;
    fn ser(&self, _: &mut Ser) {}
    fn de(_: &mut De<'a>) -> Self {}
}

impl<'a> Obs<'a> for bool {
    fn ser(&self, s: &mut Ser) {
        s.out.push(if *self { 'T' } else { 'F' });
    }
    fn de(d: &mut De<'a>) -> Self {
        match d.peek() {
            b'T' => {
                d.pos += 1;
                true
            }
            b'F' => {
                d.pos += 1;
                false
            }
            _ => mismatch(d, "bool"),
        }
    }
}

macro_rules! int_obs {
    ($($t:ty)*) => {$(
        impl<'a> Obs<'a> for $t {
            fn ser(&self, s: &mut Ser) { write!(s.out, "{}", self).unwrap(); }
            fn de(d: &mut De<'a>) -> Self {
                if !(d.peek().is_ascii_digit() || d.peek() == b'-') { mismatch(d, stringify!($t)) }
                let v = d.int(stringify!($t));
                match <$t>::try_from(v) { Ok(x) => x, Err(_) => mismatch(d, concat!(stringify!($t), " (out of range)")) }
            }
        }
    )*};
}
int_obs!(u8 u16 u32 u64 i8 i16 i32 i64);

impl<'a> Obs<'a> for f32 {
    fn ser(&self, s: &mut Ser) {
        write!(s.out, "f{:08x}", self.to_bits()).unwrap();
    }
    fn de(d: &mut De<'a>) -> Self {
        d.expect(b'f', "f32");
        f32::from_bits(d.hex(Some(8), "f32 bits") as u32)
    }
}
impl<'a> Obs<'a> for f64 {
    fn ser(&self, s: &mut Ser) {
        write!(s.out, "d{:016x}", self.to_bits()).unwrap();
    }
    fn de(d: &mut De<'a>) -> Self {
        d.expect(b'd', "f64");
        f64::from_bits(d.hex(Some(16), "f64 bits"))
    }
}
impl<'a> Obs<'a> for char {
    fn ser(&self, s: &mut Ser) {
        write!(s.out, "c{:x}", *self as u32).unwrap();
    }
    fn de(d: &mut De<'a>) -> Self {
        d.expect(b'c', "char");
        match char::from_u32(d.hex(None, "char scalar") as u32) {
            Some(c) => c,
            None => mismatch(d, "char (valid scalar)"),
        }
    }
}

fn ser_bytes(s: &mut Ser, b: &[u8]) {
    s.out.reserve(b.len() * 2 + 2);
    s.out.push('"');
    const HEX: &[u8; 16] = b"0123456789abcdef";
    for x in b {
        s.out.push(HEX[(x >> 4) as usize] as char);
        s.out.push(HEX[(x & 15) as usize] as char);
    }
    s.out.push('"');
}

fn de_bytes(d: &mut De) -> Vec<u8> {
    d.expect(b'"', "string '\"'");
    let start = d.pos;
    while d.peek() != b'"' && !d.at_end() {
        d.pos += 1;
    }
    let n = (d.pos - start) / 2;
    let mut out = Vec::with_capacity(n);
    let h = |c: u8| match c {
        b'0'..=b'9' => c - b'0',
        b'a'..=b'f' => c - b'a' + 10,
        _ => 0,
    };
    for i in 0..n {
        out.push(h(d.s[start + 2 * i]) << 4 | h(d.s[start + 2 * i + 1]));
    }
    d.expect(b'"', "string end");
    out
}

impl<'a> Obs<'a> for String {
    fn ser(&self, s: &mut Ser) {
        ser_bytes(s, self.as_bytes());
    }
    fn de(d: &mut De<'a>) -> Self {
        if d.peek() != b'"' {
            mismatch(d, "string");
        }
        match String::from_utf8(de_bytes(d)) {
            Ok(s) => s,
            Err(_) => mismatch(d, "utf-8 string"),
        }
    }
}

impl<'a> Obs<'a> for &'a str {
    fn ser(&self, s: &mut Ser) {
        ser_bytes(s, self.as_bytes());
    }
    fn de(d: &mut De<'a>) -> Self {
        let v = String::de(d);
        d.arena.alloc(v).as_str()
    }
}

impl<'a, T: Obs<'a>> Obs<'a> for Vec<T> {
    fn ser(&self, s: &mut Ser) {
        self.as_slice().ser_slice(s);
    }
    fn de(d: &mut De<'a>) -> Self {
        if d.peek() != b'[' {
            mismatch(d, "list");
        }
        d.seq(b'[', b']', "list", |d| T::de(d))
    }
    fn keep(self) {
        for x in self {
            x.keep();
        }
    }
}

trait SerSlice {
    fn ser_slice(&self, s: &mut Ser);
}
impl<'a, T: Obs<'a>> SerSlice for [T] {
    fn ser_slice(&self, s: &mut Ser) {
        s.out.push('[');
        for (i, x) in self.iter().enumerate() {
            if i > 0 {
                s.out.push(',');
            }
            x.ser(s);
        }
        s.out.push(']');
    }
}

impl<'a, T: Obs<'a> + 'a> Obs<'a> for &'a [T] {
    fn ser(&self, s: &mut Ser) {
        self.ser_slice(s);
    }
    fn de(d: &mut De<'a>) -> Self {
        let v = Vec::<T>::de(d);
        d.arena.alloc_obs(v).as_slice()
    }
}

impl<'a, T: Obs<'a> + 'a> Obs<'a> for &'a T {
    const IS_UNIT: bool = T::IS_UNIT;
    fn ser(&self, s: &mut Ser) {
        (**self).ser(s);
    }
    fn de(d: &mut De<'a>) -> Self {
        let v = T::de(d);
        d.arena.alloc_obs(v)
    }
}

impl<'a, T: Obs<'a>> Obs<'a> for Box<T> {
    const IS_UNIT: bool = T::IS_UNIT;
    fn ser(&self, s: &mut Ser) {
        (**self).ser(s);
    }
    fn de(d: &mut De<'a>) -> Self {
        Box::new(T::de(d))
    }
    fn keep(self) {
        (*self).keep();
    }
}

impl<'a, T: Obs<'a>, const N: usize> Obs<'a> for [T; N] {
    fn ser(&self, s: &mut Ser) {
        self.as_slice().ser_slice(s);
    }
    fn de(d: &mut De<'a>) -> Self {
        let v = Vec::<T>::de(d);
        match <[T; N]>::try_from(v) {
            Ok(a) => a,
            Err(_) => mismatch(d, "fixed-length list (length)"),
        }
    }
    fn keep(self) {
        for x in self {
            x.keep();
        }
    }
}

impl<'a, T: Obs<'a>> Obs<'a> for Option<T> {
    fn ser(&self, s: &mut Ser) {
        match self {
            None => s.case(0),
            Some(v) => s.case_with(1, v),
        }
    }
    fn de(d: &mut De<'a>) -> Self {
        match d.case() {
            0 => None,
            1 => Some(d.payload()),
            n => d.bad_case(n, "option"),
        }
    }
    fn keep(self) {
        if let Some(v) = self {
            v.keep();
        }
    }
}

impl<'a, T: Obs<'a>, E: Obs<'a>> Obs<'a> for Result<T, E> {
    fn ser(&self, s: &mut Ser) {
        match self {
            Ok(v) => s.case_with(0, v),
            Err(e) => s.case_with(1, e),
        }
    }
    fn de(d: &mut De<'a>) -> Self {
        match d.case() {
            0 => Ok(d.payload()),
            1 => Err(d.payload()),
            n => d.bad_case(n, "result"),
        }
    }
    fn keep(self) {
        match self {
            Ok(v) => v.keep(),
            Err(e) => e.keep(),
        }
    }
}

macro_rules! tuple_obs {
    ($(($($n:tt $t:ident),+))*) => {$(
        impl<'a, $($t: Obs<'a>),+> Obs<'a> for ($($t,)+) {
            fn ser(&self, s: &mut Ser) {
                s.begin_record();
                $( s.field($n, &self.$n); )+
                s.end_record();
            }
            fn de(d: &mut De<'a>) -> Self {
                d.begin_record();
                let v = ($( d.field::<$t>($n), )+);
                d.end_record();
                v
            }
            fn keep(self) {
                $( self.$n.keep(); )+
            }
        }
    )*};
}
tuple_obs! {
    (0 A)
    (0 A, 1 B)
    (0 A, 1 B, 2 C)
    (0 A, 1 B, 2 C, 3 D)
    (0 A, 1 B, 2 C, 3 D, 4 E)
    (0 A, 1 B, 2 C, 3 D, 4 E, 5 F)
    (0 A, 1 B, 2 C, 3 D, 4 E, 5 F, 6 G)
    (0 A, 1 B, 2 C, 3 D, 4 E, 5 F, 6 G, 7 H)
    (0 A, 1 B, 2 C, 3 D, 4 E, 5 F, 6 G, 7 H, 8 I)
    (0 A, 1 B, 2 C, 3 D, 4 E, 5 F, 6 G, 7 H, 8 I, 9 J)
    (0 A, 1 B, 2 C, 3 D, 4 E, 5 F, 6 G, 7 H, 8 I, 9 J, 10 K)
    (0 A, 1 B, 2 C, 3 D, 4 E, 5 F, 6 G, 7 H, 8 I, 9 J, 10 K, 11 L)
    (0 A, 1 B, 2 C, 3 D, 4 E, 5 F, 6 G, 7 H, 8 I, 9 J, 10 K, 11 L, 12 M)
    (0 A, 1 B, 2 C, 3 D, 4 E, 5 F, 6 G, 7 H, 8 I, 9 J, 10 K, 11 L, 12 M, 13 N)
    (0 A, 1 B, 2 C, 3 D, 4 E, 5 F, 6 G, 7 H, 8 I, 9 J, 10 K, 11 L, 12 M, 13 N, 14 O)
    (0 A, 1 B, 2 C, 3 D, 4 E, 5 F, 6 G, 7 H, 8 I, 9 J, 10 K, 11 L, 12 M, 13 N, 14 O, 15 P)
    (0 A, 1 B, 2 C, 3 D, 4 E, 5 F, 6 G, 7 H, 8 I, 9 J, 10 K, 11 L, 12 M, 13 N, 14 O, 15 P, 16 Q)
    (0 A, 1 B, 2 C, 3 D, 4 E, 5 F, 6 G, 7 H, 8 I, 9 J, 10 K, 11 L, 12 M, 13 N, 14 O, 15 P, 16 Q, 17 R)
}

fn de_map<'a, K: Obs<'a>, V: Obs<'a>>(d: &mut De<'a>) -> Vec<(K, V)> {
    if d.peek() != b'{' {
        mismatch(d, "map");
    }
    d.seq(b'{', b'}', "map", |d| {
        let k = K::de(d);
        d.expect(b':', "map ':'");
        let v = V::de(d);
        (k, v)
    })
}

fn ser_map<'x, 'a: 'x, K: Obs<'a> + 'x, V: Obs<'a> + 'x>(s: &mut Ser, it: impl Iterator<Item = (&'x K, &'x V)>) {
    s.out.push('{');
    for (i, (k, v)) in it.enumerate() {
        if i > 0 {
            s.out.push(',');
        }
        k.ser(s);
        s.out.push(':');
        v.ser(s);
    }
    s.out.push('}');
}

impl<'a, K: Obs<'a> + Ord, V: Obs<'a>> Obs<'a> for BTreeMap<K, V> {
    fn ser(&self, s: &mut Ser) {
        ser_map(s, self.iter());
    }
    fn de(d: &mut De<'a>) -> Self {
        de_map(d).into_iter().collect()
    }
    fn keep(self) {
        for (k, v) in self {
            k.keep();
            v.keep();
        }
    }
}

impl<'a, K: Obs<'a> + Eq + std::hash::Hash, V: Obs<'a>> Obs<'a> for HashMap<K, V> {
    fn ser(&self, s: &mut Ser) {
        ser_map(s, self.iter());
    }
    fn de(d: &mut De<'a>) -> Self {
        de_map(d).into_iter().collect()
    }
    fn keep(self) {
        for (k, v) in self {
            k.keep();
            v.keep();
        }
    }
}

// ------------------------------------------------------- guest-side channel

/// What the user code holds on to between calls (C07): owned handles of
/// imported resources by (type ordinal, handle index) and owned handles of its
/// own exported resources by (type ordinal, object id).
pub mod stash {
    use std::any::Any;
    use std::cell::RefCell;
    use std::collections::BTreeMap;
    thread_local! {
        static IMPORTED: RefCell<BTreeMap<(u32, u32), Box<dyn Any>>> = RefCell::new(BTreeMap::new());
        static EXPORTED: RefCell<BTreeMap<(u32, u32), Box<dyn Any>>> = RefCell::new(BTreeMap::new());
    }
    pub fn put_imported(ord: u32, handle: u32, v: Box<dyn Any>) {
        let old = IMPORTED.with(|m| m.borrow_mut().insert((ord, handle), v));
        drop(old);
    }
    pub fn take_imported(ord: u32, handle: u32) -> Option<Box<dyn Any>> {
        IMPORTED.with(|m| m.borrow_mut().remove(&(ord, handle)))
    }
    pub fn put_exported(ord: u32, id: u32, v: Box<dyn Any>) {
        let old = EXPORTED.with(|m| m.borrow_mut().insert((ord, id), v));
        drop(old);
    }
    pub fn take_exported(ord: u32, id: u32) -> Option<Box<dyn Any>> {
        EXPORTED.with(|m| m.borrow_mut().remove(&(ord, id)))
    }
    pub fn len() -> usize {
        IMPORTED.with(|m| m.borrow().len()) + EXPORTED.with(|m| m.borrow().len())
    }
    /// drop everything the user code kept (each drop goes through the bindings)
    pub fn clear() {
        loop {
            let next = IMPORTED.with(|m| m.borrow_mut().pop_first());
            match next {
                Some((_, v)) => drop(v),
                None => break,
            }
        }
        loop {
            let next = EXPORTED.with(|m| m.borrow_mut().pop_first());
            match next {
                Some((_, v)) => drop(v),
                None => break,
            }
        }
    }
}

thread_local! {
    static SCRIPT: RefCell<VecDeque<String>> = RefCell::new(VecDeque::new());
    static LOG: RefCell<Vec<Event>> = RefCell::new(Vec::new());
    static CTX: RefCell<String> = RefCell::new(String::new());
    static KEEP: Cell<bool> = Cell::new(false);
    static INTO_INNER: Cell<bool> = Cell::new(false);
}

#[derive(Clone, Debug, PartialEq, Eq)]
pub enum Event {
    /// an exported trait method (ordinal assigned by the generator) was entered
    Enter(u32),
    /// an argument the user code received
    Arg(String),
    /// an import driver observed this result
    Ret(String),
    /// free-form marker (resource hooks, C07)
    Note(String),
}

pub fn set_context(s: &str) {
    alloc::untracked(|| {
        CTX.with(|c| {
            let mut c = c.borrow_mut();
            c.clear();
            c.push_str(s);
        });
        alloc::set_context(s);
    })
}

pub fn current_context() -> String {
    CTX.with(|c| c.try_borrow().map(|c| c.clone()).unwrap_or_default())
}

/// host: queue one script entry (consumed front first)
pub fn push_script(s: String) {
    alloc::untracked(|| SCRIPT.with(|q| q.borrow_mut().push_back(s)))
}

pub fn clear() {
    alloc::untracked(|| {
        SCRIPT.with(|q| q.borrow_mut().clear());
        LOG.with(|l| l.borrow_mut().clear());
    })
}

pub fn script_len() -> usize {
    SCRIPT.with(|q| q.borrow().len())
}

pub fn take_log() -> Vec<Event> {
    alloc::untracked(|| LOG.with(|l| std::mem::take(&mut *l.borrow_mut())))
}

fn log(e: Event) {
    LOG.with(|l| l.borrow_mut().push(e));
}

/// guest: an exported method was entered
pub fn enter(ordinal: u32) {
    alloc::untracked(|| log(Event::Enter(ordinal)))
}

/// host: the most recent note with this prefix (the log is not consumed)
pub fn peek_last_note(prefix: &str) -> Option<String> {
    alloc::untracked(|| {
        LOG.with(|l| {
            l.borrow().iter().rev().find_map(|e| match e {
                Event::Note(n) if n.starts_with(prefix) => Some(n.clone()),
                _ => None,
            })
        })
    })
}

pub fn note(s: &str) {
    alloc::untracked(|| log(Event::Note(s.to_string())))
}

/// guest: record an argument as the user code sees it
pub fn arg<'a, T: Obs<'a>>(v: &T) {
    alloc::untracked(|| {
        let mut s = Ser::new();
        v.ser(&mut s);
        log(Event::Arg(s.out));
    })
}

/// guest: record the result an import call produced
pub fn result<'a, T: Obs<'a>>(v: &T) {
    alloc::untracked(|| {
        let mut s = Ser::new();
        v.ser(&mut s);
        log(Event::Ret(s.out));
    })
}

/// host: should the user code keep the owned handles it receives in the next call?
pub fn set_keep(on: bool) {
    KEEP.with(|k| k.set(on));
    INTO_INNER.with(|k| k.set(false));
}

/// host: in the next call the user code takes the value out of every own handle
/// to one of its *own* (exported) resources it receives (`into_inner`) and drops
/// that value; other received handles are kept.
pub fn set_into_inner() {
    KEEP.with(|k| k.set(true));
    INTO_INNER.with(|k| k.set(true));
}

pub fn into_inner_mode() -> bool {
    INTO_INNER.with(|k| k.get())
}

/// guest: end of life of a received value: keep its owned handles or drop it
pub fn dispose<'a, T: Obs<'a>>(v: T) {
    if KEEP.with(|k| k.get()) {
        v.keep();
    }
}

/// guest: pop the next script entry (harness-owned string)
pub fn next_script() -> String {
    alloc::untracked(|| match SCRIPT.with(|q| q.borrow_mut().pop_front()) {
        Some(s) => s,
        None => {
            eprintln!("\nRSGUEST-SCRIPT-MISMATCH expected=script-entry at=0 near=\"<script exhausted>\" ctx={}", current_context());
            std::process::abort()
        }
    })
}

/// guest: build one value of the inferred type from `text`; the allocation of
/// the value itself is guest-owned (tracked).
pub fn build<'a, T: Obs<'a>>(text: &'a str, arena: &'a Arena) -> T {
    let mut d = De::new(text, arena);
    let v = T::de(&mut d);
    if !d.at_end() {
        mismatch(&d, "end of script entry");
    }
    v
}

/// text form of any observable value (harness-owned)
pub fn text_of<'a, T: Obs<'a>>(v: &T) -> String {
    alloc::untracked(|| {
        let mut s = Ser::new();
        v.ser(&mut s);
        s.out
    })
}
