//! Checking + counting global allocator for the echo machine (C06).
//!
//! Every live heap block is recorded in a side table (open addressing, storage
//! taken from `System` directly) with its size, alignment and a *tracked* tag.
//! The tag is decided when the block is allocated: blocks allocated while
//! tracking is on belong to the guest side of the boundary (bindings, user
//! values, buffers the host hands over), everything else is harness memory.
//! Because the tag travels with the block, a block may be freed by either side
//! without disturbing the balance.
//!
//! Detected immediately (message on stderr, then abort):
//!   * `double-free` / `invalid-free`: dealloc of an address that is not live;
//!   * `layout`: dealloc with a size/alignment different from the allocation.
//! Detected by the host through `snapshot()`: tracked live (blocks, bytes)
//! drift across a call + post-return = leak.
//!
//! Addresses are stored XOR-masked so that neither valgrind's nor Miri's leak
//! checker sees the table as a reference to a leaked block.
use std::alloc::{GlobalAlloc, Layout, System};
use std::sync::atomic::{AtomicBool, AtomicIsize, AtomicUsize, Ordering::SeqCst};

pub struct Checking;

const MASK: usize = 0x5A5A_5A5A_5A5A_5A5Au64 as usize;

#[derive(Clone, Copy)]
#[repr(C)]
struct Entry {
    key: usize, // masked address; 0 = empty
    size: usize,
    meta: usize, // align << 1 | tracked
}

struct Table {
    ptr: *mut Entry,
    cap: usize, // power of two or 0
    len: usize,
}

static LOCK: AtomicBool = AtomicBool::new(false);
static mut TABLE: Table = Table { ptr: std::ptr::null_mut(), cap: 0, len: 0 };
static TRACKING: AtomicBool = AtomicBool::new(false);
static T_BLOCKS: AtomicIsize = AtomicIsize::new(0);
static T_BYTES: AtomicIsize = AtomicIsize::new(0);
static T_ALLOCS: AtomicUsize = AtomicUsize::new(0);
static T_FREES: AtomicUsize = AtomicUsize::new(0);
static T_PEAK_BYTES: AtomicIsize = AtomicIsize::new(0);

const RING: usize = 512;
static mut FREED: [usize; RING] = [0; RING];
static mut FREED_POS: usize = 0;

static mut CONTEXT: [u8; 320] = [0; 320];
static mut CONTEXT_LEN: usize = 0;

struct Guard;
fn lock() -> Guard {
    while LOCK.compare_exchange(false, true, SeqCst, SeqCst).is_err() {
        std::hint::spin_loop();
    }
    Guard
}
impl Drop for Guard {
    fn drop(&mut self) {
        LOCK.store(false, SeqCst);
    }
}

fn hash(key: usize, cap: usize) -> usize {
    ((key as u64).wrapping_mul(0x9E37_79B9_7F4A_7C15) >> 20) as usize & (cap - 1)
}

impl Table {
    unsafe fn grow(&mut self) {
        let ncap = if self.cap == 0 { 1024 } else { self.cap * 2 };
        let lay = Layout::array::<Entry>(ncap).unwrap();
        let np = System.alloc_zeroed(lay) as *mut Entry;
        if np.is_null() {
            fail_raw("table-oom", 0, 0, 0, 0, 0);
        }
        let (op, ocap) = (self.ptr, self.cap);
        self.ptr = np;
        self.cap = ncap;
        self.len = 0;
        for i in 0..ocap {
            let e = *op.add(i);
            if e.key != 0 {
                self.insert(e);
            }
        }
        if !op.is_null() {
            System.dealloc(op as *mut u8, Layout::array::<Entry>(ocap).unwrap());
        }
    }
    unsafe fn insert(&mut self, e: Entry) {
        if (self.len + 1) * 2 > self.cap {
            self.grow();
        }
        let mut i = hash(e.key, self.cap);
        loop {
            let slot = self.ptr.add(i);
            if (*slot).key == 0 {
                *slot = e;
                self.len += 1;
                return;
            }
            i = (i + 1) & (self.cap - 1);
        }
    }
    unsafe fn find(&self, key: usize) -> Option<usize> {
        if self.cap == 0 {
            return None;
        }
        let mut i = hash(key, self.cap);
        loop {
            let k = (*self.ptr.add(i)).key;
            if k == 0 {
                return None;
            }
            if k == key {
                return Some(i);
            }
            i = (i + 1) & (self.cap - 1);
        }
    }
    /// backward-shift deletion for linear probing
    unsafe fn remove_at(&mut self, mut i: usize) {
        let mask = self.cap - 1;
        let mut j = i;
        loop {
            j = (j + 1) & mask;
            let e = *self.ptr.add(j);
            if e.key == 0 {
                break;
            }
            let k = hash(e.key, self.cap);
            // can e move to i?  (k cyclically not in (i, j])
            let in_range = if i <= j { i < k && k <= j } else { i < k || k <= j };
            if !in_range {
                *self.ptr.add(i) = e;
                i = j;
            }
        }
        (*self.ptr.add(i)).key = 0;
        self.len -= 1;
    }
}

struct Buf {
    b: [u8; 768],
    n: usize,
}
impl std::fmt::Write for Buf {
    fn write_str(&mut self, s: &str) -> std::fmt::Result {
        for &c in s.as_bytes() {
            if self.n < self.b.len() {
                self.b[self.n] = c;
                self.n += 1;
            }
        }
        Ok(())
    }
}

extern "C" {
    fn write(fd: i32, buf: *const u8, n: usize) -> isize;
}

fn fail_raw(kind: &str, addr: usize, size: usize, align: usize, esize: usize, ealign: usize) -> ! {
    use std::fmt::Write;
    let mut b = Buf { b: [0; 768], n: 0 };
    #[allow(static_mut_refs)]
    let ctx = unsafe { std::str::from_utf8(&CONTEXT[..CONTEXT_LEN]).unwrap_or("?") };
    let _ = write!(
        b,
        "\nRSGUEST-MEM-ERROR kind={kind} addr={addr:#x} dealloc_size={size} dealloc_align={align} alloc_size={esize} alloc_align={ealign} ctx={ctx}\n"
    );
    unsafe {
        write(2, b.b.as_ptr(), b.n);
    }
    std::process::abort()
}

// ---------------------------------------------------------------------------
// Low-address arena (x86_64 only).  Exported-resource representations are
// pointers that the canonical ABI squeezes through an i32 (`rep as u32 as
// usize` in the generated code).  On wasm32 that is the identity; to keep it
// the identity in a 64-bit native run, small guest-owned blocks are served
// from a MAP_32BIT mapping while `low32` mode is on (resource histories).
#[cfg(all(target_arch = "x86_64", target_os = "linux", not(miri)))]
mod low {
    use std::sync::atomic::{AtomicBool, AtomicUsize, Ordering::SeqCst};
    pub static ON: AtomicBool = AtomicBool::new(false);
    static BASE: AtomicUsize = AtomicUsize::new(0);
    static NEXT: AtomicUsize = AtomicUsize::new(0);
    const LEN: usize = 64 << 20;
    pub const MAX: usize = 128;
    const CLASSES: usize = MAX / 16;
    static mut FREE: [usize; CLASSES] = [0; CLASSES];
    extern "C" {
        fn mmap(addr: *mut u8, len: usize, prot: i32, flags: i32, fd: i32, off: i64) -> *mut u8;
    }
    pub fn contains(p: usize) -> bool {
        let b = BASE.load(SeqCst);
        b != 0 && p >= b && p < b + LEN
    }
    fn class(size: usize) -> usize {
        (size.max(1) + 15) / 16 - 1
    }
    /// caller holds the allocator lock
    pub unsafe fn alloc(size: usize, align: usize) -> *mut u8 {
        if size > MAX || align > 16 {
            return std::ptr::null_mut();
        }
        if BASE.load(SeqCst) == 0 {
            // PROT_READ|PROT_WRITE, MAP_PRIVATE|MAP_ANONYMOUS|MAP_32BIT
            let p = mmap(std::ptr::null_mut(), LEN, 3, 0x2 | 0x20 | 0x40, -1, 0);
            if p as isize == -1 || p.is_null() || (p as usize) + LEN > (1usize << 32) {
                return std::ptr::null_mut();
            }
            BASE.store(p as usize, SeqCst);
            NEXT.store(p as usize, SeqCst);
        }
        let c = class(size);
        #[allow(static_mut_refs)]
        if FREE[c] != 0 {
            let p = FREE[c];
            FREE[c] = *(p as *const usize);
            return p as *mut u8;
        }
        let sz = (c + 1) * 16;
        let p = NEXT.load(SeqCst);
        if p + sz > BASE.load(SeqCst) + LEN {
            return std::ptr::null_mut();
        }
        NEXT.store(p + sz, SeqCst);
        p as *mut u8
    }
    /// caller holds the allocator lock
    pub unsafe fn free(p: *mut u8, size: usize) {
        let c = class(size);
        #[allow(static_mut_refs)]
        {
            *(p as *mut usize) = FREE[c];
            FREE[c] = p as usize;
        }
    }
}

/// Serve small guest-owned blocks from addresses below 4 GiB (no-op on 32-bit
/// targets and under Miri).  Returns whether such addresses are guaranteed.
pub fn set_low32(on: bool) -> bool {
    #[cfg(all(target_arch = "x86_64", target_os = "linux", not(miri)))]
    {
        low::ON.store(on, SeqCst);
        return true;
    }
    #[allow(unreachable_code)]
    {
        let _ = on;
        std::mem::size_of::<usize>() == 4
    }
}

unsafe impl GlobalAlloc for Checking {
    unsafe fn alloc(&self, layout: Layout) -> *mut u8 {
        #[cfg(all(target_arch = "x86_64", target_os = "linux", not(miri)))]
        if low::ON.load(SeqCst) && TRACKING.load(SeqCst) && layout.size() <= low::MAX {
            let p = {
                let _g = lock();
                low::alloc(layout.size(), layout.align())
            };
            if !p.is_null() {
                let _g = lock();
                #[allow(static_mut_refs)]
                TABLE.insert(Entry { key: p as usize ^ MASK, size: layout.size(), meta: layout.align() << 1 | 1 });
                drop(_g);
                T_BLOCKS.fetch_add(1, SeqCst);
                T_BYTES.fetch_add(layout.size() as isize, SeqCst);
                T_ALLOCS.fetch_add(1, SeqCst);
                return p;
            }
        }
        let p = System.alloc(layout);
        if p.is_null() {
            return p;
        }
        let tracked = TRACKING.load(SeqCst);
        {
            let _g = lock();
            #[allow(static_mut_refs)]
            TABLE.insert(Entry { key: p as usize ^ MASK, size: layout.size(), meta: layout.align() << 1 | tracked as usize });
        }
        if tracked {
            T_BLOCKS.fetch_add(1, SeqCst);
            let b = T_BYTES.fetch_add(layout.size() as isize, SeqCst) + layout.size() as isize;
            T_ALLOCS.fetch_add(1, SeqCst);
            if b > T_PEAK_BYTES.load(SeqCst) {
                T_PEAK_BYTES.store(b, SeqCst);
            }
        }
        p
    }

    unsafe fn dealloc(&self, p: *mut u8, layout: Layout) {
        let key = p as usize ^ MASK;
        let e;
        {
            let _g = lock();
            #[allow(static_mut_refs)]
            match TABLE.find(key) {
                Some(i) => {
                    e = *TABLE.ptr.add(i);
                    if e.size == layout.size() && e.meta >> 1 == layout.align() {
                        TABLE.remove_at(i);
                        FREED[FREED_POS % RING] = key;
                        FREED_POS += 1;
                    }
                }
                None => {
                    let was = FREED.iter().any(|k| *k == key);
                    drop(_g);
                    fail_raw(if was { "double-free" } else { "invalid-free" }, p as usize, layout.size(), layout.align(), 0, 0);
                }
            }
        }
        if e.size != layout.size() || e.meta >> 1 != layout.align() {
            fail_raw("layout", p as usize, layout.size(), layout.align(), e.size, e.meta >> 1);
        }
        if e.meta & 1 == 1 {
            T_BLOCKS.fetch_sub(1, SeqCst);
            T_BYTES.fetch_sub(e.size as isize, SeqCst);
            T_FREES.fetch_add(1, SeqCst);
        }
        if e.meta & 1 == 1 {
            // poison: a dangling guest pointer then yields visibly wrong data instead of stale bytes
            std::ptr::write_bytes(p, 0xDD, layout.size());
        }
        #[cfg(all(target_arch = "x86_64", target_os = "linux", not(miri)))]
        if low::contains(p as usize) {
            let _g = lock();
            low::free(p, layout.size());
            return;
        }
        System.dealloc(p, layout);
    }
}

/// Tracked live (blocks, bytes).
#[derive(Clone, Copy, Debug, PartialEq, Eq)]
pub struct Snap {
    pub blocks: isize,
    pub bytes: isize,
}

pub fn snapshot() -> Snap {
    Snap { blocks: T_BLOCKS.load(SeqCst), bytes: T_BYTES.load(SeqCst) }
}

/// (tracked allocations so far, tracked frees so far, peak tracked bytes)
pub fn stats() -> (usize, usize, isize) {
    (T_ALLOCS.load(SeqCst), T_FREES.load(SeqCst), T_PEAK_BYTES.load(SeqCst))
}

/// Switch the tag given to new allocations; returns the previous mode.
pub fn set_tracking(on: bool) -> bool {
    TRACKING.swap(on, SeqCst)
}

pub fn tracking() -> bool {
    TRACKING.load(SeqCst)
}

/// Run `f` with tracking off (harness-owned allocations).
pub fn untracked<R>(f: impl FnOnce() -> R) -> R {
    let prev = set_tracking(false);
    let r = f();
    set_tracking(prev);
    r
}

/// Run `f` with tracking on (guest-owned allocations).
pub fn tracked<R>(f: impl FnOnce() -> R) -> R {
    let prev = set_tracking(true);
    let r = f();
    set_tracking(prev);
    r
}

/// Is the global allocator really this one?  (false if the test crate forgot
/// `#[global_allocator]`; then the balance checks are reported as inconclusive)
pub fn installed() -> bool {
    let before = T_ALLOCS.load(SeqCst);
    let b = tracked(|| std::hint::black_box(Box::new(0x5au8)));
    let after = T_ALLOCS.load(SeqCst);
    drop(b);
    after == before + 1
}

/// Context string printed with allocator-detected errors (which call is running).
pub fn set_context(s: &str) {
    #[allow(static_mut_refs)]
    unsafe {
        let n = s.len().min(CONTEXT.len());
        CONTEXT[..n].copy_from_slice(&s.as_bytes()[..n]);
        CONTEXT_LEN = n;
    }
}

/// (size, align, tracked) of the live block starting at `addr`.
pub fn block_info(addr: usize) -> Option<(usize, usize, bool)> {
    let _g = lock();
    #[allow(static_mut_refs)]
    unsafe {
        TABLE.find(addr ^ MASK).map(|i| {
            let e = *TABLE.ptr.add(i);
            (e.size, e.meta >> 1, e.meta & 1 == 1)
        })
    }
}

/// Up to `max` tracked live blocks as (size, align) — to describe a leak.
pub fn tracked_blocks(max: usize) -> Vec<(usize, usize)> {
    untracked(|| {
        let mut out = Vec::with_capacity(max);
        let _g = lock();
        #[allow(static_mut_refs)]
        unsafe {
            for i in 0..TABLE.cap {
                let e = *TABLE.ptr.add(i);
                if e.key != 0 && e.meta & 1 == 1 && out.len() < max {
                    out.push((e.size, e.meta >> 1));
                }
            }
        }
        out
    })
}

/// The canonical ABI's `realloc(0, 0, align, size)` as the guest's allocator
/// performs it: a tracked block from the global allocator (dangling for size 0).
pub fn guest_alloc(size: usize, align: usize) -> *mut u8 {
    if size == 0 {
        return align as *mut u8;
    }
    let lay = Layout::from_size_align(size, align).expect("layout");
    let p = tracked(|| unsafe { std::alloc::alloc(lay) });
    if p.is_null() {
        std::alloc::handle_alloc_error(lay);
    }
    p
}
