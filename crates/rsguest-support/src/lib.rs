//! Guest-side support for the rsguest echo machine.  No dependencies, no use of
//! any bindgen-emitted code: values are observed / constructed positionally
//! through the `Obs` trait in the canonical text form of `cabi_ref::Val::text()`.
pub mod alloc;
pub mod obs;
pub use obs::{Arena, De, Obs, Ser};
