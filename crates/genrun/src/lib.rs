//! genrun — run every wit-bindgen backend **in-process** on a parsed world, with
//! panics captured (`vkit::catch`), plus the bookkeeping the generator-level
//! checks share: the list of backends, each backend's option variants (as the
//! command-line flags the real CLI accepts, so the same variant can be replayed
//! through the `wit-bindgen` binary), the exclusions every backend declares in
//! `crates/test/src/<lang>.rs::should_fail_verify`, feature tags computed from a
//! `Resolve`, the `tests/codegen` corpus loader and stable panic signatures.
//!
//! API summary
//! ```text
//! Backend::{ALL, name(), from_name(), base_flags(), variants(), variant(name), cli_args(&Variant)}
//! Variant{name, flags, tested}                      // tested = crates/test runs this variant
//! run_backend(backend, &variant, &resolve, world) -> Outcome
//! run_backend_flags(backend, &[String], &resolve, world) -> Outcome      // arbitrary flags
//! Outcome::{Ok(Vec<(String, Vec<u8>)>), Err(String), Panic{msg, location}}
//! features_of(&resolve, world) -> BTreeSet<String> // feature tags computed from the Resolve
//! excluded(backend, variant_name, &tags, corpus: Option<&CorpusEntry>) -> Option<String>
//! corpus(repo_root) -> Vec<CorpusEntry>; CorpusEntry::load() -> (Resolve, WorldId)
//! panic_signature(backend, msg, location) -> String; panic_source_line(backend, location)
//! directed_worlds() -> &[Directed]                // fixed WIT snippets reaching each known generator panic
//! hash_order_worlds() -> Vec<(name, wit)>          // worlds stressing one generator collection each with >8 entries (C15)
//! world_shape(&resolve, world, &tags) -> String
//! validate_variants() -> Result<(), String>        // every flag list parses
//! repo_root() -> PathBuf                           // $VERIF_REPO or /repo
//! ```
//! The process-wide panic hook of `vkit::catch` keeps ONE "last panic" slot, so
//! generators are run one at a time (a mutex enforces it); parallelise with
//! processes (`--shard i/n`), not threads.
use std::collections::BTreeSet;
use std::path::{Path, PathBuf};
use std::sync::Mutex;
use wit_bindgen_core::{Files, WorldGenerator};
use wit_parser::{
    FunctionKind, Handle, Resolve, Type, TypeDefKind, TypeId, WorldId, WorldItem, WorldKey,
};

#[derive(Clone, Copy, Debug, PartialEq, Eq, PartialOrd, Ord, Hash)]
pub enum Backend {
    C,
    Cpp,
    CSharp,
    Go,
    MoonBit,
    Markdown,
    D,
    Rust,
}

/// One option variant of a backend: `flags` are appended to `Backend::base_flags`.
#[derive(Clone, Copy, Debug)]
pub struct Variant {
    pub name: &'static str,
    pub flags: &'static [&'static str],
    /// true when `crates/test` runs the codegen corpus with this variant (its
    /// name is then the `args_kind` the test runner uses, "default" for the
    /// unnamed one)
    pub tested: bool,
}

const fn v(name: &'static str, flags: &'static [&'static str], tested: bool) -> Variant {
    Variant { name, flags, tested }
}

const C_VARIANTS: &[Variant] = &[
    v("default", &[], true),
    v("no-sig-flattening", &["--no-sig-flattening"], true),
    v("autodrop", &["--autodrop-borrows=yes"], true),
    v("async", &["--async=all"], true),
    v("utf16", &["--string-encoding", "utf16"], false),
    v("no-helpers", &["--no-helpers"], false),
    v("async-helpers", &["--generate-async-helpers", "--generate-threading-helpers"], false),
    v("no-object-file", &["--no-object-file", "--rename-world", "renamed", "--type-section-suffix", "sfx"], false),
    v("sync-all", &["--async=-all"], false),
];
const CPP_VARIANTS: &[Variant] = &[
    v("default", &[], true),
    v("symmetric", &["--api-style", "symmetric"], false),
    v("coarse-borrowing", &["--ownership", "coarse-borrowing"], false),
    v("fine-borrowing", &["--ownership", "fine-borrowing"], false),
    v("split-interfaces", &["--split-interfaces"], false),
    v("prefixes", &["--export-prefix", "ep_", "--internal-prefix", "ip"], false),
];
const CSHARP_VARIANTS: &[Variant] = &[
    v("default", &["--runtime=native-aot", "--generate-stub"], true),
    v("plain", &["--runtime=native-aot"], false),
    v("mono", &["--runtime=mono", "--generate-stub"], false),
    v("utf16", &["--runtime=native-aot", "--string-encoding", "utf16"], false),
    v("internal", &["--runtime=native-aot", "--internal", "--skip-support-files"], false),
    v("wit-results", &["--runtime=native-aot", "--with-wit-results", "--generate-stub"], false),
];
const GO_VARIANTS: &[Variant] = &[
    v("default", &["--generate-stubs"], true),
    v("plain", &[], false),
    v("async", &["--generate-stubs", "--async=all"], false),
    v("pkg-name", &["--pkg-name", "example.com/x/y", "--export-pkg-name", "example.com/x/z"], false),
    v("versions", &["--include-versions", "--print-remote-pkg-version", "--pkg-name", "example.com/x/y"], false),
];
const MOONBIT_DERIVES: [&str; 4] = ["--derive-debug", "--derive-show", "--derive-eq", "--derive-error"];
const MOONBIT_VARIANTS: &[Variant] = &[
    v("default", &MOONBIT_DERIVES, true),
    v("async", &["--derive-debug", "--derive-show", "--derive-eq", "--derive-error", "--async=all"], true),
    v("plain", &[], false),
    v("plain-async", &["--async=all"], false),
    v("no-stub", &["--ignore-stub", "--ignore-module-file"], false),
    v("gen-dir", &["--gen-dir", "my-gen/inner", "--project-name", "acme/proj-x"], false),
    v("sync-all", &["--async=-all", "--derive-eq"], false),
];
const MARKDOWN_VARIANTS: &[Variant] = &[v("default", &[], true), v("html-in-md", &["--html-in-md"], false)];
const D_VARIANTS: &[Variant] = &[
    v("default", &["--emit-export-stubs"], true),
    v("plain", &[], false),
    v("root-package", &["--root-package", "my.root", "--required-d-versions", "WitVerif", "--type-section-suffix", "sfx"], false),
];
const RUST_VARIANTS: &[Variant] = &[
    v("default", &["--format", "--stubs"], true),
    v("borrowed", &["--format", "--stubs", "--ownership=borrowing"], true),
    v("borrowed-duplicate", &["--format", "--stubs", "--ownership=borrowing-duplicate-if-necessary"], true),
    v("async", &["--format", "--stubs", "--async=all"], true),
    v("no-std", &["--format", "--stubs", "--std-feature"], true),
    v("merge-equal", &["--format", "--stubs", "--merge-structurally-equal-types"], true),
    v("hashmap", &["--format", "--stubs", "--map-type=std::collections::HashMap"], true),
    v("plain", &[], false),
    v("raw-strings", &["--raw-strings", "--stubs"], false),
    v("sync-all", &["--async=-all", "--stubs"], false),
    v("async-imports", &["--async=import:all", "--stubs"], false),
    v("unused-types", &["--generate-unused-types", "--enable-method-chaining", "--pub-export-macro"], false),
    v("merge-false", &["--merge-structurally-equal-types=false", "--disable-run-ctors-once-workaround", "--disable-custom-section-link-helpers"], false),
];

impl Backend {
    pub const ALL: [Backend; 8] =
        [Backend::C, Backend::Cpp, Backend::CSharp, Backend::Go, Backend::MoonBit, Backend::Markdown, Backend::D, Backend::Rust];

    /// CLI sub-command name (also the name `crates/test` uses).
    pub fn name(self) -> &'static str {
        match self {
            Backend::C => "c",
            Backend::Cpp => "cpp",
            Backend::CSharp => "csharp",
            Backend::Go => "go",
            Backend::MoonBit => "moonbit",
            Backend::Markdown => "markdown",
            Backend::D => "d",
            Backend::Rust => "rust",
        }
    }

    pub fn from_name(s: &str) -> Option<Backend> {
        Backend::ALL.iter().copied().find(|b| b.name() == s)
    }

    /// Directory of the backend's crate under `<repo>/crates`.
    pub fn crate_dir(self) -> &'static str {
        self.name()
    }

    /// Flags every run of this backend gets (what makes the backend usable on
    /// arbitrary worlds without consulting the environment).
    pub fn base_flags(self) -> &'static [&'static str] {
        match self {
            // without --generate-all every world using another interface is an Err(MissingWith)
            Backend::Rust => &["--generate-all"],
            // `gofmt` does not exist here; do not fork for every file
            Backend::Go => &["--format=false"],
            _ => &[],
        }
    }

    pub fn variants(self) -> &'static [Variant] {
        match self {
            Backend::C => C_VARIANTS,
            Backend::Cpp => CPP_VARIANTS,
            Backend::CSharp => CSHARP_VARIANTS,
            Backend::Go => GO_VARIANTS,
            Backend::MoonBit => MOONBIT_VARIANTS,
            Backend::Markdown => MARKDOWN_VARIANTS,
            Backend::D => D_VARIANTS,
            Backend::Rust => RUST_VARIANTS,
        }
    }

    pub fn variant(self, name: &str) -> Option<&'static Variant> {
        self.variants().iter().find(|v| v.name == name)
    }

    /// Flags for the real CLI (after the sub-command): base + variant.
    pub fn cli_args(self, variant: &Variant) -> Vec<String> {
        self.base_flags().iter().chain(variant.flags.iter()).map(|s| s.to_string()).collect()
    }
}

impl std::fmt::Display for Backend {
    fn fmt(&self, f: &mut std::fmt::Formatter<'_>) -> std::fmt::Result {
        f.write_str(self.name())
    }
}

#[derive(Debug, Clone)]
pub enum Outcome {
    /// generated files (sorted by name)
    Ok(Vec<(String, Vec<u8>)>),
    /// the generator returned an error (allowed behaviour)
    Err(String),
    Panic { msg: String, location: String },
}

impl Outcome {
    pub fn kind(&self) -> &'static str {
        match self {
            Outcome::Ok(_) => "ok",
            Outcome::Err(_) => "err",
            Outcome::Panic { .. } => "panic",
        }
    }
    pub fn files(&self) -> Option<&[(String, Vec<u8>)]> {
        match self {
            Outcome::Ok(f) => Some(f),
            _ => None,
        }
    }
}

#[derive(clap::Parser)]
#[command(no_binary_name = true)]
struct Wrap<T: clap::Args> {
    #[clap(flatten)]
    opts: T,
}

fn parse<T: clap::Args>(flags: &[String]) -> Result<T, String> {
    use clap::Parser;
    Wrap::<T>::try_parse_from(flags.iter()).map(|w| w.opts).map_err(|e| e.to_string())
}

/// Build a fresh generator from command-line flags (exactly what the CLI does).
pub fn build_generator(backend: Backend, flags: &[String]) -> Result<Box<dyn WorldGenerator>, String> {
    Ok(match backend {
        Backend::C => parse::<wit_bindgen_c::Opts>(flags)?.build(),
        Backend::Cpp => parse::<wit_bindgen_cpp::Opts>(flags)?.build(None),
        Backend::CSharp => parse::<wit_bindgen_csharp::Opts>(flags)?.build(),
        Backend::Go => parse::<wit_bindgen_go::Opts>(flags)?.build(),
        Backend::MoonBit => parse::<wit_bindgen_moonbit::Opts>(flags)?.build(),
        Backend::Markdown => parse::<wit_bindgen_markdown::Opts>(flags)?.build(),
        Backend::D => parse::<wit_bindgen_d::Opts>(flags)?.build(None),
        Backend::Rust => Box::new(parse::<wit_bindgen_rust::Opts>(flags)?.build()),
    })
}

/// Every (backend, variant) flag list is accepted by the backend's clap parser.
pub fn validate_variants() -> Result<(), String> {
    for b in Backend::ALL {
        let mut names = BTreeSet::new();
        for var in b.variants() {
            if !names.insert(var.name) {
                return Err(format!("{b}: duplicate variant {}", var.name));
            }
            build_generator(b, &b.cli_args(var)).map(|_| ()).map_err(|e| format!("{b}/{}: {e}", var.name))?;
        }
    }
    Ok(())
}

static ONE_AT_A_TIME: Mutex<()> = Mutex::new(());

/// Run one backend with explicit flags on (a private clone of) `resolve`.
/// A fresh generator instance is built for every call.
pub fn run_backend_flags(backend: Backend, flags: &[String], resolve: &Resolve, world: WorldId) -> Outcome {
    let _guard = ONE_AT_A_TIME.lock().unwrap_or_else(|e| e.into_inner());
    let flags = flags.to_vec();
    let mut resolve = resolve.clone();
    let r = vkit::catch(std::panic::AssertUnwindSafe(move || -> Result<Vec<(String, Vec<u8>)>, String> {
        let mut generator = build_generator(backend, &flags).map_err(|e| format!("genrun-bad-flags: {e}"))?;
        let mut files = Files::default();
        generator.generate(&mut resolve, world, &mut files).map_err(|e| format!("{e:#}"))?;
        Ok(files.iter().map(|(n, c)| (n.to_string(), c.to_vec())).collect())
    }));
    match r {
        Ok(Ok(files)) => Outcome::Ok(files),
        Ok(Err(e)) => Outcome::Err(e),
        Err((msg, location)) => Outcome::Panic { msg, location },
    }
}

pub fn run_backend(backend: Backend, variant: &Variant, resolve: &Resolve, world: WorldId) -> Outcome {
    run_backend_flags(backend, &backend.cli_args(variant), resolve, world)
}

// ---------------------------------------------------------------------------
// feature tags

fn walk_type(resolve: &Resolve, ty: &Type, seen: &mut BTreeSet<usize>, f: &mut dyn FnMut(&Type, Option<TypeId>)) {
    match ty {
        Type::Id(id) => {
            f(ty, Some(*id));
            if !seen.insert(id.index()) {
                return;
            }
            let def = &resolve.types[*id];
            match &def.kind {
                TypeDefKind::Record(r) => r.fields.iter().for_each(|x| walk_type(resolve, &x.ty, seen, f)),
                TypeDefKind::Tuple(t) => t.types.iter().for_each(|x| walk_type(resolve, x, seen, f)),
                TypeDefKind::Variant(v) => v.cases.iter().filter_map(|c| c.ty.as_ref()).for_each(|x| walk_type(resolve, x, seen, f)),
                TypeDefKind::Option(t) | TypeDefKind::List(t) | TypeDefKind::FixedLengthList(t, _) | TypeDefKind::Type(t) => {
                    walk_type(resolve, t, seen, f)
                }
                TypeDefKind::Map(k, v) => {
                    walk_type(resolve, k, seen, f);
                    walk_type(resolve, v, seen, f)
                }
                TypeDefKind::Result(r) => {
                    r.ok.iter().for_each(|x| walk_type(resolve, x, seen, f));
                    r.err.iter().for_each(|x| walk_type(resolve, x, seen, f));
                }
                TypeDefKind::Future(t) | TypeDefKind::Stream(t) => t.iter().for_each(|x| walk_type(resolve, x, seen, f)),
                TypeDefKind::Handle(Handle::Own(r)) | TypeDefKind::Handle(Handle::Borrow(r)) => {
                    walk_type(resolve, &Type::Id(*r), seen, f)
                }
                TypeDefKind::Resource | TypeDefKind::Flags(_) | TypeDefKind::Enum(_) | TypeDefKind::Unknown => {}
            }
        }
        other => f(other, None),
    }
}

/// Feature tags of everything in the `Resolve` (deliberately the whole resolve,
/// not just what the world reaches: exclusions are applied conservatively).
///
/// Tags: `error-context`, `fixed-list`, `named-fixed-list`, `map`, `future`,
/// `stream`, `async-func`, `async` (any of the previous four async-proposal
/// features — what the corpus marks `//@ async = true`), `resource`, `borrow`,
/// `fallible-constructor`, `async-resource-func`, `variant-case-named-as-type`,
/// `named-interface-item`, `world-func-payload-named` (a world-level function
/// whose signature holds a future/stream with a named payload type),
/// `import-export-same-interface`, `world-types`, `world-funcs`, `versioned`,
/// `multi-package`, `flags`, `variant`, `enum`, `record`, `tuple`, `option`,
/// `result`, `list`, `use`.
pub fn features_of(resolve: &Resolve, world: WorldId) -> BTreeSet<String> {
    let mut tags: BTreeSet<String> = BTreeSet::new();
    let mut tag = |s: &str| {
        tags.insert(s.to_string());
    };
    for (_, def) in resolve.types.iter() {
        match &def.kind {
            TypeDefKind::FixedLengthList(..) => {
                tag("fixed-list");
                if def.name.is_some() {
                    tag("named-fixed-list");
                }
            }
            TypeDefKind::Type(Type::Id(inner)) => {
                // a named alias (or `use`) of a fixed-length list, through any chain
                let mut cur = *inner;
                let mut n = 0;
                loop {
                    match &resolve.types[cur].kind {
                        TypeDefKind::FixedLengthList(..) => {
                            tag("named-fixed-list");
                            break;
                        }
                        TypeDefKind::Type(Type::Id(next)) if n < 64 => {
                            cur = *next;
                            n += 1;
                        }
                        _ => break,
                    }
                }
                if def.name.is_some() {
                    tag("use");
                }
            }
            TypeDefKind::Type(Type::ErrorContext) => tag("error-context"),
            TypeDefKind::Map(..) => tag("map"),
            TypeDefKind::Future(_) => tag("future"),
            TypeDefKind::Stream(_) => tag("stream"),
            TypeDefKind::Resource => tag("resource"),
            TypeDefKind::Handle(Handle::Borrow(_)) => tag("borrow"),
            TypeDefKind::Flags(_) => tag("flags"),
            TypeDefKind::Enum(_) => tag("enum"),
            TypeDefKind::Record(_) => tag("record"),
            TypeDefKind::Tuple(_) => tag("tuple"),
            TypeDefKind::Option(_) => tag("option"),
            TypeDefKind::Result(_) => tag("result"),
            TypeDefKind::List(_) => tag("list"),
            TypeDefKind::Variant(var) => {
                tag("variant");
                if let Some(n) = &def.name {
                    if var.cases.iter().any(|c| &c.name == n) {
                        tag("variant-case-named-as-type");
                    }
                }
            }
            _ => {}
        }
        // error-context anywhere directly inside a type definition
        let mut direct: Vec<Type> = vec![];
        match &def.kind {
            TypeDefKind::Record(r) => direct.extend(r.fields.iter().map(|f| f.ty)),
            TypeDefKind::Tuple(t) => direct.extend(t.types.iter().copied()),
            TypeDefKind::Variant(v) => direct.extend(v.cases.iter().filter_map(|c| c.ty)),
            TypeDefKind::Option(t) | TypeDefKind::List(t) | TypeDefKind::FixedLengthList(t, _) | TypeDefKind::Type(t) => direct.push(*t),
            TypeDefKind::Map(k, v) => {
                direct.push(*k);
                direct.push(*v)
            }
            TypeDefKind::Result(r) => {
                direct.extend(r.ok.iter().copied());
                direct.extend(r.err.iter().copied())
            }
            TypeDefKind::Future(t) | TypeDefKind::Stream(t) => direct.extend(t.iter().copied()),
            _ => {}
        }
        if direct.iter().any(|t| matches!(t, Type::ErrorContext)) {
            tag("error-context");
        }
    }
    let mut all_funcs: Vec<&wit_parser::Function> = vec![];
    for (_, iface) in resolve.interfaces.iter() {
        all_funcs.extend(iface.functions.values());
    }
    for (_, w) in resolve.worlds.iter() {
        for item in w.imports.values().chain(w.exports.values()) {
            if let WorldItem::Function(f) = item {
                all_funcs.push(f);
            }
        }
    }
    for f in &all_funcs {
        if f.params.iter().map(|p| &p.ty).chain(f.result.iter()).any(|t| matches!(t, Type::ErrorContext)) {
            tag("error-context");
        }
        match &f.kind {
            FunctionKind::AsyncFreestanding => tag("async-func"),
            FunctionKind::AsyncMethod(_) | FunctionKind::AsyncStatic(_) => {
                tag("async-func");
                tag("async-resource-func");
            }
            FunctionKind::Constructor(_) => {
                if let Some(Type::Id(id)) = &f.result {
                    if matches!(resolve.types[*id].kind, TypeDefKind::Result(_)) {
                        tag("fallible-constructor");
                    }
                }
            }
            _ => {}
        }
    }
    let w = &resolve.worlds[world];
    let mut imported_ifaces = BTreeSet::new();
    for (key, item) in w.imports.iter().chain(w.exports.iter()) {
        match item {
            WorldItem::Interface { .. } => {
                if matches!(key, WorldKey::Name(_)) {
                    tag("named-interface-item");
                }
            }
            WorldItem::Type { .. } => tag("world-types"),
            WorldItem::Function(f) => {
                tag("world-funcs");
                let mut seen = BTreeSet::new();
                let mut hit = false;
                for t in f.params.iter().map(|p| &p.ty).chain(f.result.iter()) {
                    walk_type(resolve, t, &mut seen, &mut |_, id| {
                        if let Some(id) = id {
                            if let TypeDefKind::Future(Some(Type::Id(p))) | TypeDefKind::Stream(Some(Type::Id(p))) = &resolve.types[id].kind {
                                if resolve.types[*p].name.is_some() {
                                    hit = true;
                                }
                            }
                        }
                    });
                }
                if hit {
                    tag("world-func-payload-named");
                }
            }
        }
    }
    for item in w.imports.values() {
        if let WorldItem::Interface { id, .. } = item {
            imported_ifaces.insert(id.index());
        }
    }
    for item in w.exports.values() {
        if let WorldItem::Interface { id, .. } = item {
            if imported_ifaces.contains(&id.index()) {
                tag("import-export-same-interface");
            }
        }
    }
    if resolve.packages.iter().any(|(_, p)| p.name.version.is_some()) {
        tag("versioned");
    }
    if resolve.packages.len() > 1 {
        tag("multi-package");
    }
    drop(tag);
    if ["future", "stream", "async-func", "error-context"].iter().any(|t| tags.contains(*t)) {
        tags.insert("async".to_string());
    }
    tags
}

/// Hash of (sorted feature tags + coarse sizes): the "distinct world shape" key.
pub fn world_shape(resolve: &Resolve, world: WorldId, tags: &BTreeSet<String>) -> String {
    let w = &resolve.worlds[world];
    let nfuncs: usize = resolve.interfaces.iter().map(|(_, i)| i.functions.len()).sum();
    let key = format!(
        "{}|i{}|t{}|f{}|im{}|ex{}|p{}",
        tags.iter().cloned().collect::<Vec<_>>().join(","),
        resolve.interfaces.len(),
        resolve.types.len(),
        nfuncs,
        w.imports.len(),
        w.exports.len(),
        resolve.packages.len()
    );
    vkit::hash_str(&key)
}

// ---------------------------------------------------------------------------
// declared exclusions

/// `//@ key = value` header of a corpus file (crates/test/src/config.rs::WitConfig).
#[derive(Clone, Debug, Default)]
pub struct WitConfig {
    pub async_: bool,
    pub error_context: bool,
}

#[derive(Clone, Debug)]
pub struct CorpusEntry {
    /// the name crates/test gives the codegen test: file name (`futures.wit`) or directory name (`wasi-http`)
    pub name: String,
    pub path: PathBuf,
    pub config: WitConfig,
}

impl CorpusEntry {
    /// Parse exactly like the test runner / the CLI (no `--all-features`), world
    /// selection: the only world, else the one called `imports`.
    pub fn load(&self) -> anyhow::Result<(Resolve, WorldId)> {
        let mut resolve = Resolve::default();
        let (pkg, _) = resolve.push_path(&self.path)?;
        let world = resolve.select_world(&[pkg], None).or_else(|e| resolve.select_world(&[pkg], Some("imports")).map_err(|_| e))?;
        Ok((resolve, world))
    }
}

pub fn repo_root() -> PathBuf {
    PathBuf::from(std::env::var("VERIF_REPO").unwrap_or_else(|_| "/repo".to_string()))
}

fn dir_has_wit(dir: &Path) -> bool {
    let Ok(rd) = std::fs::read_dir(dir) else { return false };
    rd.flatten().any(|e| {
        let p = e.path();
        if p.is_dir() {
            dir_has_wit(&p)
        } else {
            p.extension().map(|x| x == "wit").unwrap_or(false)
        }
    })
}

/// `<repo>/tests/codegen/*` sorted by name (directories without any `*.wit` —
/// submodules that are not checked out — are left out).
pub fn corpus(repo: &Path) -> Vec<CorpusEntry> {
    let dir = repo.join("tests/codegen");
    let mut out = vec![];
    let Ok(rd) = std::fs::read_dir(&dir) else { return out };
    for e in rd.flatten() {
        let path = e.path();
        let name = e.file_name().to_string_lossy().to_string();
        let mut config = WitConfig::default();
        if path.is_file() {
            if !name.ends_with(".wit") {
                continue;
            }
            if let Ok(text) = std::fs::read_to_string(&path) {
                for l in text.lines().take_while(|l| l.starts_with("//@")) {
                    let l = l[3..].replace(' ', "");
                    match l.as_str() {
                        "async=true" => config.async_ = true,
                        "error-context=true" => config.error_context = true,
                        _ => {}
                    }
                }
            }
        }
        if path.is_dir() && !dir_has_wit(&path) {
            // git submodules (wasi-*) that are not checked out in this sandbox
            continue;
        }
        // crates/test: a directory test is its `wit` sub-directory
        let path = if path.is_dir() && path.join("wit").is_dir() { path.join("wit") } else { path };
        out.push(CorpusEntry { name, path, config });
    }
    out.sort_by(|a, b| a.name.cmp(&b.name));
    out
}

/// `should_fail_verify(name, config)` of `crates/test/src/<lang>.rs`, verbatim.
/// `name` is the test-runner name: `<file>` for the unnamed variant, else
/// `<file>-<variant>`.
pub fn declared_should_fail(backend: Backend, name: &str, config: &WitConfig) -> bool {
    match backend {
        Backend::C => config.error_context || name.starts_with("named-fixed-length-list.wit"),
        Backend::Cpp => {
            if name == "issue-1598.wit" {
                return false;
            }
            matches!(name, "issue1514-6.wit" | "named-fixed-length-list.wit") || config.async_
        }
        Backend::CSharp => matches!(
            name,
            "error-context.wit"
                | "resource-fallible-constructor.wit"
                | "async-resource-func.wit"
                | "import-export-resource.wit"
                | "issue-1433.wit"
                | "named-fixed-length-list.wit"
        ),
        // the two toolchain-dependent names (`!go_async_supported()`) concern linking, not generation
        Backend::Go => config.error_context || name == "named-fixed-length-list.wit",
        Backend::MoonBit => name == "named-fixed-length-list.wit-async" || config.error_context,
        Backend::Rust => {
            name == "wasi-http-borrowed-duplicate" || name == "more-variants.wit-borrowed-duplicate" || name == "named-fixed-length-list.wit-async"
        }
        Backend::D => config.async_ || config.error_context || name == "map.wit" || name == "issue1642.wit",
        Backend::Markdown => false,
    }
}

fn variant_is_async(backend: Backend, variant: &str) -> bool {
    backend.variant(variant).map(|v| v.flags.iter().any(|f| f.starts_with("--async=") && *f != "--async=-all")).unwrap_or(false)
}

/// Is a panic of `backend` (option variant `variant`) on this input covered by an
/// exclusion the repository declares?  Returns the reason.
///
/// * corpus input (`corpus = Some(entry)`): the literal `should_fail_verify`
///   under the test-runner name; for variants `crates/test` does not run, the
///   verdict of the unnamed variant (and, for variants that force async, of the
///   `-async` variant) of the same file is inherited.
/// * random world (`corpus = None`): file-name exclusions translated into
///   feature tags, conservatively (see `features_of`).
pub fn excluded(backend: Backend, variant: &str, tags: &BTreeSet<String>, corpus: Option<&CorpusEntry>) -> Option<String> {
    if let Some(c) = corpus {
        let var = backend.variant(variant);
        let tested = var.map(|v| v.tested).unwrap_or(false);
        let mut names = vec![];
        if variant == "default" {
            names.push(c.name.clone());
        } else {
            names.push(format!("{}-{variant}", c.name));
            if !tested {
                names.push(c.name.clone());
                if variant_is_async(backend, variant) {
                    names.push(format!("{}-async", c.name));
                }
            }
        }
        for n in names {
            if declared_should_fail(backend, &n, &c.config) {
                return Some(format!("crates/test/src/{}.rs should_fail_verify({n:?})", backend.name()));
            }
        }
        return None;
    }
    let has = |t: &str| tags.contains(t);
    let asyncish = has("async") || has("future") || has("stream") || has("async-func") || has("error-context");
    let r = |s: &str| Some(format!("{}: {s}", backend.name()));
    match backend {
        Backend::C => {
            if has("error-context") {
                return r("config.error_context");
            }
            if has("fixed-list") || has("named-fixed-list") {
                return r("named-fixed-length-list.wit => fixed-length lists (the only corpus file with them) are declared unsupported");
            }
        }
        Backend::Cpp => {
            if asyncish {
                return r("config.async_ => any async-proposal feature");
            }
            if has("fixed-list") || has("named-fixed-list") {
                return r("named-fixed-length-list.wit => fixed-length lists (the only corpus file with them) are declared unsupported");
            }
            if has("variant-case-named-as-type") {
                return r("issue1514-6.wit => variant with a case named like the variant");
            }
        }
        Backend::CSharp => {
            if has("error-context") {
                return r("error-context.wit => any error-context");
            }
            if has("fallible-constructor") {
                return r("resource-fallible-constructor.wit => any fallible constructor");
            }
            if has("async-resource-func") {
                return r("async-resource-func.wit => any async method/static of a resource");
            }
            if has("world-func-payload-named") {
                return r("issue-1433.wit => world-level function with future/stream of a named type");
            }
            if has("fixed-list") || has("named-fixed-list") {
                return r("named-fixed-length-list.wit => fixed-length lists (the only corpus file with them) are declared unsupported");
            }
        }
        Backend::Go => {
            if has("error-context") {
                return r("config.error_context");
            }
            if has("fixed-list") || has("named-fixed-list") {
                return r("named-fixed-length-list.wit => fixed-length lists (the only corpus file with them) are declared unsupported");
            }
        }
        Backend::MoonBit => {
            if has("error-context") {
                return r("config.error_context");
            }
            if (has("fixed-list") || has("named-fixed-list")) && (variant_is_async(backend, variant) || asyncish) {
                return r("named-fixed-length-list.wit-async => fixed-length lists together with async are declared unsupported");
            }
        }
        Backend::Rust => {
            if variant == "borrowed-duplicate" {
                return r("*-borrowed-duplicate (declared buggy ownership mode; feature not characterised) => whole variant");
            }
            if (has("fixed-list") || has("named-fixed-list")) && (variant_is_async(backend, variant) || asyncish) {
                return r("named-fixed-length-list.wit-async => fixed-length lists together with async are declared unsupported");
            }
        }
        Backend::D => {
            if asyncish {
                return r("config.async_ / config.error_context => any async-proposal feature");
            }
            if has("map") {
                return r("map.wit => any map type");
            }
            if has("named-interface-item") {
                return r("issue1642.wit => interface imported/exported under an explicit name");
            }
        }
        Backend::Markdown => {}
    }
    None
}

// ---------------------------------------------------------------------------
// panic signatures

fn find_source(file: &str, backend: Option<Backend>) -> Option<PathBuf> {
    let p = Path::new(file);
    if p.is_absolute() {
        return p.exists().then(|| p.to_path_buf());
    }
    let repo = repo_root();
    let mut cands = vec![repo.join(file)];
    if let Some(b) = backend {
        cands.push(repo.join("crates").join(b.crate_dir()).join(file));
    }
    cands.push(repo.join("crates/core").join(file));
    cands.into_iter().find(|c| c.exists())
}

/// (enclosing function name, whitespace-free text of the panicking source line)
pub fn panic_site(location: &str, backend: Option<Backend>) -> (Option<String>, Option<String>) {
    let Some((file, line)) = location.rsplit_once(':') else { return (None, None) };
    let Ok(line) = line.parse::<usize>() else { return (None, None) };
    let Some(path) = find_source(file, backend) else { return (None, None) };
    let Ok(text) = std::fs::read_to_string(&path) else { return (None, None) };
    let lines: Vec<&str> = text.lines().collect();
    if line == 0 || line > lines.len() {
        return (None, None);
    }
    let snippet: String = lines[line - 1].chars().filter(|c| !c.is_whitespace()).take(70).collect();
    let mut func = None;
    for l in lines[..line].iter().rev() {
        let t = l.trim_start();
        if t.starts_with("//") {
            continue;
        }
        // `fn name` possibly preceded by pub/async/unsafe/const/extern qualifiers
        let mut rest = t;
        loop {
            let before = rest;
            for q in ["pub(crate) ", "pub(super) ", "pub ", "async ", "unsafe ", "const ", "extern \"C\" "] {
                if let Some(r) = rest.strip_prefix(q) {
                    rest = r;
                }
            }
            if rest == before {
                break;
            }
        }
        if let Some(r) = rest.strip_prefix("fn ") {
            let name: String = r.chars().take_while(|c| c.is_alphanumeric() || *c == '_').collect();
            if !name.is_empty() {
                func = Some(name);
                break;
            }
        }
    }
    (func, Some(snippet))
}

/// Normalise a panic message: first line, digit runs → `N`, double-quoted
/// strings → `"_"`, back-quoted WIT/user identifiers → `_` (Rust-looking
/// back-quoted code such as `Option::unwrap()` or `left == right` is kept), cut
/// at the first `{`, `(` or `[` outside back-quotes (Debug payloads).
pub fn normalise_message(msg: &str) -> String {
    let first = msg.lines().next().unwrap_or("").trim();
    let mut out = String::new();
    let chars: Vec<char> = first.chars().collect();
    let mut i = 0;
    while i < chars.len() {
        let c = chars[i];
        if c == '"' {
            if let Some(j) = chars[i + 1..].iter().position(|x| *x == '"') {
                out.push_str("\"_\"");
                i += j + 2;
                continue;
            }
        }
        if c == '`' {
            if let Some(j) = chars[i + 1..].iter().position(|x| *x == '`') {
                let inner: String = chars[i + 1..i + 1 + j].iter().collect();
                let rusty = inner.contains("::") || inner.contains("()") || inner.contains(" == ") || inner.contains(" != ") || inner == "None" || inner == "Err" || inner == "Ok" || inner == "Some";
                if rusty {
                    out.push('`');
                    out.push_str(&inner);
                    out.push('`');
                } else {
                    out.push('_');
                }
                i += j + 2;
                continue;
            }
        }
        if c.is_ascii_digit() {
            while i < chars.len() && chars[i].is_ascii_digit() {
                i += 1;
            }
            out.push('N');
            continue;
        }
        out.push(if c.is_whitespace() { ' ' } else { c });
        i += 1;
    }
    // Debug-printed payloads (`todo!("{:?}", ty)`) vary with the world: keep the text before them
    let mut cut = String::new();
    let mut in_tick = false;
    for c in out.chars() {
        if c == '`' {
            in_tick = !in_tick;
        }
        if !in_tick && matches!(c, '{' | '(' | '[') {
            break;
        }
        cut.push(c);
    }
    let out = cut.trim_end().to_string();
    let mut collapsed = String::new();
    let mut prev_space = false;
    for c in out.chars() {
        if c == ' ' {
            if !prev_space {
                collapsed.push(c);
            }
            prev_space = true;
        } else {
            collapsed.push(c);
            prev_space = false;
        }
    }
    collapsed.chars().take(100).collect()
}

/// `<backend>:panic:<enclosing fn | file stem>:<normalised message>` — no line
/// numbers, ids or world-specific names, so one defect keeps one signature.
/// (The panicking source line is used to recognise run-time formatted messages
/// and is reported separately, see `panic_source_line`.)
pub fn panic_signature(backend: Backend, msg: &str, location: &str) -> String {
    let (func, snippet) = panic_site(location, Some(backend));
    let file = location.rsplit_once(':').map(|x| x.0).unwrap_or(location);
    let stem = Path::new(file).file_stem().map(|s| s.to_string_lossy().to_string()).unwrap_or_else(|| "unknown".into());
    // a panic raised inside a dependency: name the crate, the enclosing function is still useful
    let krate = if file.contains("/.cargo/registry/") {
        file.split('/').find(|seg| seg.chars().any(|c| c == '-') && seg.chars().last().map(|c| c.is_ascii_digit()).unwrap_or(false)).map(|s| {
            let cut = s.rfind('-').unwrap_or(s.len());
            format!("{}/", &s[..cut])
        })
    } else if file.starts_with("/rustc/") {
        Some("std/".to_string())
    } else {
        None
    };
    let site = format!("{}{}", krate.unwrap_or_default(), func.unwrap_or(stem));
    let mut message = normalise_message(msg);
    // a message formatted from run-time data (`todo!("{:?}", ty)`): the source line identifies the defect, the
    // payload would split one defect into many signatures
    if let Some(s) = &snippet {
        let formatted = s.contains("!(\"") && s.find('{').map(|i| s[i..].contains('}')).unwrap_or(false);
        if formatted {
            let std_prefix = ["not yet implemented", "not implemented", "internal error: entered unreachable code"].iter().find(|p| message.starts_with(**p));
            message = match std_prefix {
                Some(p) => p.to_string(),
                None => message.split(':').next().unwrap_or("").trim().to_string(),
            };
        }
    }
    format!("{}:panic:{}:{}", backend.name(), site, message)
}

/// Whitespace-free text of the panicking source line (for the `what` of a finding).
pub fn panic_source_line(backend: Backend, location: &str) -> Option<String> {
    panic_site(location, Some(backend)).1
}

/// Identifier of a (world, backend, variant) case for reports.
pub fn case_id(input: &str, backend: Backend, variant: &str) -> String {
    format!("{input}|{}|{variant}", backend.name())
}

// ---------------------------------------------------------------------------
// directed worlds

/// A fixed, minimal WIT document that reaches one known generator panic, so
/// that the set of re-observed findings is the same at every seed.
pub struct Directed {
    pub name: &'static str,
    pub wit: &'static str,
    /// what it reaches (backend / variant / panic site), for humans
    pub reaches: &'static str,
}

const DIRECTED: &[Directed] = &[
    Directed {
        name: "handle-alias",
        wit: "package v:d;\ninterface i {\n  resource r;\n  type t = borrow<r>;\n  f: func(a: t);\n}\nworld w { import i; }\n",
        reaches: "every backend: core define_type `handle types do not require definition` (cpp: todo generate for handle)",
    },
    Directed {
        name: "c-autodrop-imported-borrow-in-list",
        wit: "package v:d;\ninterface a { resource r; }\ninterface i {\n  use a.{r};\n  f: func(a: list<borrow<r>>);\n}\nworld w { export i; }\n",
        reaches: "c --autodrop-borrows=yes: assert_no_droppable_borrows panic!",
    },
    Directed {
        name: "c-param-named-ret",
        wit: "package v:d;\ninterface i {\n  f: func(RET: u32) -> result<_, list<u8>>;\n}\nworld w { import i; }\n",
        reaches: "c --no-sig-flattening: import_body_sync locals.insert(retptr).unwrap() (`ret` already defined)",
    },
    Directed {
        name: "c-param-named-result",
        wit: "package v:d;\ninterface i {\n  f: func(%result: u32) -> u32;\n  g: async func(%result: string) -> string;\n}\nworld w { import i; export i; }\n",
        reaches: "c (all variants): FunctionBindgen::new locals.insert(name).unwrap() (`result` already defined)",
    },
    Directed {
        name: "csharp-async-import-five-params",
        wit: "package v:d;\ninterface i {\n  f: async func(a: u32, b: u32, c: u32, d: u32, e: u32) -> u64;\n}\nworld w { import i; }\n",
        reaches: "csharp: gen_import_src todo!(indirect params not supported for async imports yet)",
    },
    Directed {
        name: "csharp-async-export-borrow-of-used-resource",
        wit: "package v:d;\ninterface a { resource r; }\ninterface b {\n  use a.{r};\n  f: async func(x: borrow<r>);\n}\nworld w { export b; }\n",
        reaches: "csharp: emit `all_resources[&ty]` no entry found for key",
    },
    Directed {
        name: "rust-format-package-named-abstract",
        wit: "package ns1:abstract;\ninterface i { record r { a: f32 } f: func(a: r); }\nworld w { import i; }\n",
        reaches: "rust --format: finish syn::parse_file(..).unwrap() — the generated source uses the reserved word `abstract` as a module name",
    },
    Directed {
        name: "rust-fixed-list-of-borrows",
        wit: "package v:d;\ninterface i {\n  resource r;\n  f: func(a: list<borrow<r>, 3>);\n}\nworld w { import i; }\n",
        reaches: "rust (non-async): anonymous_type_handle assert!(self.mode.lifetime.is_some())",
    },
];

pub fn directed_worlds() -> &'static [Directed] {
    DIRECTED
}

// ---------------------------------------------------------------------------
// hash-order-sensitive worlds (C15)

/// Worlds built so that each stresses one generator-side collection with many
/// (> 8) entries: if that collection is a `HashMap`/`HashSet` iterated into the
/// output, independent processes disagree with near certainty.
pub fn hash_order_worlds() -> Vec<(&'static str, String)> {
    let mut v = vec![];
    // 1. many borrows of imported resources in export signatures (C autodrop list, handle tables)
    {
        let mut w = String::from("package ho:borrows;\n\ninterface res {\n  resource r;\n  resource s;\n  resource t;\n  resource u;\n}\n\ninterface api {\n  use res.{r, s, t, u};\n");
        w.push_str("  f: func(a: borrow<r>, b: borrow<s>, c: borrow<r>, d: borrow<s>, e: borrow<t>, g: borrow<u>);\n");
        w.push_str("  g: func(a: borrow<u>, b: borrow<t>, c: borrow<s>, d: borrow<r>, e: borrow<u>, h: borrow<t>, i: borrow<s>, j: borrow<r>) -> u32;\n");
        w.push_str("  h: func(a: borrow<r>, b: r, c: borrow<s>, d: s, e: borrow<t>) -> tuple<r, s>;\n");
        w.push_str("  record holder { a: borrow<r>, b: borrow<s>, c: borrow<t>, d: borrow<u> }\n  k: func(x: holder, y: borrow<r>, z: borrow<u>);\n");
        w.push_str("}\n\nworld w {\n  import res;\n  export api;\n}\n");
        v.push(("borrows", w));
    }
    // 2. structurally equal named types defined in many interfaces, used differently
    {
        let mut w = String::from("package ho:equal;\n\n");
        let mut names = vec![];
        for i in 0..12 {
            let n = format!("i{i}");
            w.push_str(&format!("interface {n} {{\n  type bytes = list<u8>;\n  type pair = tuple<u32, string>;\n  type maybe = option<list<string>>;\n  record pt {{ x: u32, y: list<u8> }}\n  variant shape {{ none, some(list<u8>), both(tuple<u32, string>) }}\n"));
            match i % 4 {
                0 => w.push_str("  get: func() -> bytes;\n  getp: func() -> pair;\n  getm: func() -> maybe;\n  getr: func() -> pt;\n  gets: func() -> shape;\n"),
                1 => w.push_str("  put: func(x: bytes);\n  putp: func(x: pair);\n  putm: func(x: maybe);\n  putr: func(x: pt);\n  puts: func(x: shape);\n"),
                2 => w.push_str("  both: func(x: bytes, p: pair, m: maybe, r: pt, s: shape) -> tuple<bytes, pair, maybe, pt, shape>;\n"),
                _ => w.push_str("  fail: func() -> result<u8, bytes>;\n  failp: func() -> result<u8, pair>;\n  failr: func(x: list<pt>) -> result<list<shape>, pt>;\n"),
            }
            w.push_str("}\n");
            names.push(n);
        }
        w.push_str("\nworld w {\n");
        for (k, n) in names.iter().enumerate() {
            match k % 3 {
                0 => w.push_str(&format!("  import {n};\n")),
                1 => w.push_str(&format!("  export {n};\n")),
                _ => w.push_str(&format!("  import {n};\n  export {n};\n")),
            }
        }
        w.push_str("}\n");
        v.push(("equal-types", w));
    }
    // 3. many resources with many methods, imported and exported
    {
        let mut w = String::from("package ho:resources;\n\n");
        for iface in ["a", "b"] {
            w.push_str(&format!("interface {iface} {{\n"));
            for i in 0..9 {
                w.push_str(&format!(
                    "  resource res{i} {{\n    constructor(x: u32, y: string);\n    get: func() -> u32;\n    set: func(v: u32, s: list<u8>);\n    name: func() -> string;\n    make: static func(n: u8) -> res{i};\n    merge: static func(l: res{i}, r: borrow<res{i}>) -> option<res{i}>;\n  }}\n"
                ));
            }
            w.push_str("  all: func(a: res0, b: borrow<res1>, c: res2, d: borrow<res3>, e: res4) -> tuple<res5, res6, res7, res8>;\n}\n");
        }
        w.push_str("\nworld w {\n  import a;\n  export a;\n  import b;\n  export b;\n}\n");
        v.push(("many-resources", w));
    }
    // 4. many future/stream payload types across functions
    {
        const P: &[&str] = &["u8", "u16", "u32", "u64", "s8", "s16", "s32", "s64", "f32", "f64", "bool", "char", "string", "list<u8>", "option<u32>", "tuple<u8, string>", "result<u8, string>", "rec", "en", "list<rec>"];
        let mut w = String::from("package ho:payloads;\n\ninterface i {\n  record rec { a: u32, b: string }\n  enum en { x, y, z }\n");
        for (k, p) in P.iter().enumerate() {
            w.push_str(&format!("  fut{k}: func(a: future<{p}>) -> future<{p}>;\n"));
            if *p != "char" {
                w.push_str(&format!("  str{k}: func(a: stream<{p}>) -> stream<{p}>;\n"));
            }
            if k % 3 == 0 {
                w.push_str(&format!("  asy{k}: async func(a: {p}) -> {p};\n"));
            }
        }
        w.push_str("}\n\nworld w {\n  import i;\n  export i;\n}\n");
        v.push(("many-payloads", w));
    }
    // 5. many world-level functions and types
    {
        let mut w = String::from("package ho:worlditems;\n\ninterface base {\n  record b0 { x: u32 }\n  record b1 { x: string }\n  enum b2 { p, q }\n  flags b3 { m, n, o }\n  variant b4 { i(u32), s(string) }\n}\n\nworld w {\n  use base.{b0, b1, b2, b3, b4};\n");
        for i in 0..10 {
            match i % 5 {
                0 => w.push_str(&format!("  record wr{i} {{ a: u32, b: b0, c: list<b1> }}\n")),
                1 => w.push_str(&format!("  variant wv{i} {{ one(b2), two(b3), three }}\n")),
                2 => w.push_str(&format!("  enum we{i} {{ k0, k1, k2, k3 }}\n")),
                3 => w.push_str(&format!("  flags wf{i} {{ f0, f1, f2, f3, f4, f5, f6, f7, f8 }}\n")),
                _ => w.push_str(&format!("  type wt{i} = tuple<b4, option<b0>, list<u8>>;\n")),
            }
        }
        for i in 0..12 {
            w.push_str(&format!("  import imp{i}: func(a: b{}, n: u{}) -> list<b{}>;\n", i % 5, [8, 16, 32, 64][i % 4], (i + 1) % 5));
            w.push_str(&format!("  export exp{i}: func(a: b{}, s: string) -> option<b{}>;\n", (i + 2) % 5, (i + 3) % 5));
        }
        w.push_str("}\n");
        v.push(("many-world-items", w));
    }
    // 6. many `use`d types across many interfaces
    {
        let mut w = String::from("package ho:uses;\n\ninterface base {\n");
        for i in 0..14 {
            match i % 4 {
                0 => w.push_str(&format!("  record t{i} {{ a: u32, b: string }}\n")),
                1 => w.push_str(&format!("  variant t{i} {{ a(u32), b(string), c }}\n")),
                2 => w.push_str(&format!("  enum t{i} {{ a, b, c }}\n")),
                _ => w.push_str(&format!("  resource t{i} {{ constructor(); m: func() -> u32; }}\n")),
            }
        }
        w.push_str("}\n");
        for k in 0..8 {
            let picks: Vec<String> = (0..14).filter(|i| (i + k) % 2 == 0 || i % 7 == k % 7).map(|i| format!("t{i}")).collect();
            w.push_str(&format!("interface user{k} {{\n  use base.{{{}}};\n", picks.join(", ")));
            for (j, t) in picks.iter().enumerate().take(5) {
                w.push_str(&format!("  f{j}: func(a: {t}) -> list<{}>;\n", picks[(j + 1) % picks.len()]));
            }
            w.push_str("}\n");
        }
        w.push_str("\nworld w {\n");
        for k in 0..8 {
            w.push_str(&format!("  {} user{k};\n", if k % 2 == 0 { "import" } else { "export" }));
        }
        w.push_str("}\n");
        v.push(("many-uses", w));
    }
    // 7. many packages, namespaces and versions
    {
        let ids = [
            ("aa", "lib", "@1.0.0"), ("aa", "lib", "@2.0.0"), ("bb", "lib", "@1.0.0"), ("bb", "my-lib", ""), ("cc", "io", "@0.2.0"), ("cc", "io", "@0.2.1"),
            ("dd", "http-types", "@1.2.3"), ("ee", "core-utils", ""), ("ff", "x", "@3.0.0-rc.1"), ("gg", "lib", "@1.0.0"),
        ];
        let mut w = String::from("package ho:root@1.0.0;\n\n");
        for (k, (ns, name, ver)) in ids.iter().enumerate() {
            w.push_str(&format!("package {ns}:{name}{ver} {{\n  interface types {{\n    record item{k} {{ a: u32, b: string }}\n    enum kind{k} {{ x, y }}\n    get: func(k: kind{k}) -> item{k};\n  }}\n  interface api {{\n    use types.{{item{k}}};\n    run: func(a: item{k}) -> list<item{k}>;\n  }}\n}}\n\n"));
        }
        w.push_str("world w {\n");
        for (k, (ns, name, ver)) in ids.iter().enumerate() {
            w.push_str(&format!("  import {ns}:{name}/types{ver};\n"));
            w.push_str(&format!("  {} {ns}:{name}/api{ver};\n", if k % 2 == 0 { "import" } else { "export" }));
        }
        w.push_str("}\n");
        v.push(("many-packages", w));
    }
    // 8. many interfaces with mixed shapes, imported and exported
    {
        let mut w = String::from("package ho:ifaces;\n\n");
        for i in 0..16 {
            w.push_str(&format!(
                "interface if{i} {{\n  record r {{ a: u{}, b: list<string>, c: option<f64> }}\n  variant v {{ a(r), b(map<string, u32>), c }}\n  flags fl {{ a, b, c, d }}\n  one: func(x: r, y: v, z: fl) -> result<v, string>;\n  two: func(m: map<u32, r>) -> tuple<fl, list<v>>;\n}}\n",
                [8, 16, 32, 64][i % 4]
            ));
        }
        w.push_str("\nworld w {\n");
        for i in 0..16 {
            match i % 3 {
                0 => w.push_str(&format!("  import if{i};\n")),
                1 => w.push_str(&format!("  export if{i};\n")),
                _ => w.push_str(&format!("  import if{i};\n  export if{i};\n")),
            }
        }
        w.push_str("}\n");
        v.push(("many-interfaces", w));
    }
    v
}

// ---------------------------------------------------------------------------
// shared workload helpers

pub mod workload {
    use super::*;
    use witgen::{Cfg, Names};

    /// Feature classes switched on in turn (index modulo the table length).
    pub fn cfg_class(i: usize) -> (&'static str, Cfg) {
        let d = Cfg::default();
        let table: Vec<(&'static str, Cfg)> = vec![
            ("base", d.clone()),
            ("async", Cfg { async_: true, ..d.clone() }),
            ("fixed-lists", Cfg { fixed_lists: true, ..d.clone() }),
            ("error-context", Cfg { error_context: true, async_: true, ..d.clone() }),
            ("no-resources-no-maps", Cfg { resources: false, maps: false, ..d.clone() }),
            ("docs", Cfg { docs: true, ..d.clone() }),
            ("adversarial-names", Cfg { names: Names::Adversarial, ..d.clone() }),
            ("multi-pkg", Cfg { multi_pkg: true, ifaces: 6, ..d.clone() }),
            ("deep", Cfg { max_depth: 5, types: 8, max_params: 8, ..d.clone() }),
            ("async-fixed", Cfg { async_: true, fixed_lists: true, ..d.clone() }),
            ("everything", Cfg { async_: true, fixed_lists: true, error_context: true, docs: true, multi_pkg: true, names: Names::Adversarial, ..d.clone() }),
            ("adversarial-async", Cfg { names: Names::Adversarial, async_: true, ..d.clone() }),
            ("large", Cfg { ifaces: 12, types: 8, funcs: 6, multi_pkg: true, ..d.clone() }),
            ("world-only", Cfg { ifaces: 1, types: 2, funcs: 1, world_funcs: true, world_types: true, async_: true, ..d }),
        ];
        let n = table.len();
        table.into_iter().nth(i % n).unwrap()
    }

    /// witgen tags ∪ tags computed from the Resolve.
    pub fn all_tags(w: &witgen::World, resolve: &Resolve, world: WorldId) -> BTreeSet<String> {
        let mut t = features_of(resolve, world);
        t.extend(w.tags.iter().cloned());
        t
    }

    /// `i/n` sharding of an index space.
    pub fn mine(idx: usize, shard: usize, shards: usize) -> bool {
        shards <= 1 || idx % shards == shard
    }
}
