//! C16 — generators never panic on valid worlds (in-process part).
//! Every backend × option variant over random valid worlds (feature classes
//! switched on in turn) and the tests/codegen corpus.  A panic is a violation
//! unless a declared exclusion covers it.
use genrun::{workload, Backend, Outcome};
use serde_json::json;
use std::collections::{BTreeMap, BTreeSet};
use vkit::{Args, Report, Rng};

struct Stats {
    per: BTreeMap<String, BTreeMap<&'static str, u64>>,
    sigs: BTreeSet<String>,
    excluded_sigs: BTreeSet<String>,
}

impl Stats {
    fn bump(&mut self, b: Backend, k: &'static str) {
        *self.per.entry(b.name().to_string()).or_default().entry(k).or_insert(0) += 1;
    }
}

#[allow(clippy::too_many_arguments)]
fn run_case(
    rep: &mut Report,
    st: &mut Stats,
    b: Backend,
    var: &genrun::Variant,
    resolve: &wit_parser::Resolve,
    world: wit_parser::WorldId,
    tags: &BTreeSet<String>,
    corpus: Option<&genrun::CorpusEntry>,
    input_desc: &serde_json::Value,
    cli_cases: &mut Vec<serde_json::Value>,
    want_cli: bool,
) {
    rep.eval();
    let excl = genrun::excluded(b, var.name, tags, corpus);
    if excl.is_some() {
        st.bump(b, "under_exclusion");
    }
    let out = genrun::run_backend(b, var, resolve, world);
    match &out {
        Outcome::Ok(files) => {
            st.bump(b, "ok");
            rep.count_n("files_generated", files.len() as u64);
            rep.count_n("bytes_generated", files.iter().map(|f| f.1.len() as u64).sum());
        }
        Outcome::Err(e) => {
            st.bump(b, "err");
            if e.starts_with("genrun-bad-flags") {
                rep.inconclusive(&format!("{b}/{}: {e}", var.name));
            }
        }
        Outcome::Panic { msg, location } => {
            let sig = genrun::panic_signature(b, msg, location);
            match &excl {
                Some(reason) => {
                    st.bump(b, "panic_excluded");
                    st.excluded_sigs.insert(format!("{sig}  [{reason}]"));
                }
                None => {
                    st.bump(b, "panic");
                    st.sigs.insert(sig.clone());
                    let mut replay = input_desc.clone();
                    replay["backend"] = json!(b.name());
                    replay["variant"] = json!(var.name);
                    replay["flags"] = json!(b.cli_args(var));
                    replay["panic_message"] = json!(msg);
                    replay["panic_location"] = json!(location);
                    replay["tags"] = json!(tags);
                    rep.violation(
                        &sig,
                        &format!(
                            "{b} generator (variant {}, flags {:?}) panicked at {location}: {} [source line: {}]",
                            var.name,
                            b.cli_args(var),
                            msg.lines().next().unwrap_or(""),
                            genrun::panic_source_line(b, location).unwrap_or_default()
                        ),
                        replay,
                    );
                }
            }
        }
    }
    if want_cli || (matches!(out, Outcome::Panic { .. }) && cli_cases.len() < 40) {
        let mut c = input_desc.clone();
        c["backend"] = json!(b.name());
        c["variant"] = json!(var.name);
        c["flags"] = json!(b.cli_args(var));
        c["inproc"] = json!(out.kind());
        c["excluded"] = json!(excl);
        if let Outcome::Panic { msg, location } = &out {
            c["signature"] = json!(genrun::panic_signature(b, msg, location));
        }
        cli_cases.push(c);
    }
}

fn main() {
    let args = Args::parse();
    let seed = args.seed();
    let thorough = args.thorough();
    let shard = args.u64("shard", 0) as usize;
    let shards = args.u64("shards", 1) as usize;
    let mut rep = Report::new("case = (world, backend, option variant) generated in-process under catch_unwind; distinct = world shapes (hash of sorted feature tags + interface/type/function/package counts)");
    rep.max_samples = 3;
    if let Err(e) = genrun::validate_variants() {
        eprintln!("variant table invalid: {e}");
        std::process::exit(2);
    }
    let mut st = Stats { per: BTreeMap::new(), sigs: BTreeSet::new(), excluded_sigs: BTreeSet::new() };
    let mut cli_cases: Vec<serde_json::Value> = vec![];
    let cli_dir = args.get("cli-dir").map(|s| s.to_string());
    let repo = genrun::repo_root();

    // --- replay of one case
    if let Some(p) = args.get("replay-wit") {
        let wit = std::fs::read_to_string(p).expect("replay wit");
        let b = Backend::from_name(&args.str("backend", "markdown")).expect("backend");
        let var = b.variant(&args.str("variant", "default")).expect("variant");
        match witgen::parse(&wit) {
            Ok((resolve, world)) => {
                let tags = genrun::features_of(&resolve, world);
                run_case(&mut rep, &mut st, b, var, &resolve, world, &tags, None, &json!({"wit": wit}), &mut cli_cases, false);
                rep.distinct(&genrun::world_shape(&resolve, world, &tags));
                rep.distinct("replay");
            }
            Err(e) => rep.inconclusive(&format!("replay wit does not parse: {e:#}")),
        }
        rep.write(&args.out());
        return;
    }
    if let Some(name) = args.get("replay-corpus") {
        let b = Backend::from_name(&args.str("backend", "markdown")).expect("backend");
        let var = b.variant(&args.str("variant", "default")).expect("variant");
        for c in genrun::corpus(&repo).iter().filter(|c| c.name == name) {
            if let Ok((resolve, world)) = c.load() {
                let tags = genrun::features_of(&resolve, world);
                run_case(&mut rep, &mut st, b, var, &resolve, world, &tags, Some(c), &json!({"corpus": c.name}), &mut cli_cases, false);
                rep.distinct(&genrun::world_shape(&resolve, world, &tags));
                rep.distinct("replay");
            }
        }
        rep.write(&args.out());
        return;
    }

    // --- corpus
    let t_start = std::time::Instant::now();
    let corpus = genrun::corpus(&repo);
    if corpus.len() < 50 {
        // (106 entries upstream; the 5 wasi-* submodules are empty here)
        rep.inconclusive(&format!("corpus at {} has only {} entries", repo.display(), corpus.len()));
    }
    let mut crng = Rng::new(seed ^ 0xC16C0);
    for (ci, c) in corpus.iter().enumerate() {
        // quick: untested variants only on a seed-dependent third of the corpus
        let extra_variants = thorough || crng.chance(1, 3);
        if !workload::mine(ci, shard, shards) {
            continue;
        }
        let (resolve, world) = match c.load() {
            Ok(x) => x,
            Err(e) => {
                rep.inconclusive(&format!("corpus entry {} does not load: {}", c.name, format!("{e:#}").lines().next().unwrap_or("")));
                continue;
            }
        };
        rep.count("corpus_inputs");
        let tags = genrun::features_of(&resolve, world);
        rep.distinct(&genrun::world_shape(&resolve, world, &tags));
        let desc = json!({"corpus": c.name, "world": resolve.worlds[world].name});
        for b in Backend::ALL {
            for var in b.variants() {
                if !var.tested && !extra_variants {
                    continue;
                }
                run_case(&mut rep, &mut st, b, var, &resolve, world, &tags, Some(c), &desc, &mut cli_cases, false);
            }
        }
    }

    rep.count_n("ms_corpus_phase", t_start.elapsed().as_millis() as u64);
    let t_start = std::time::Instant::now();
    // --- boundary shapes + random valid worlds
    let mut inputs: Vec<(String, witgen::World)> = vec![];
    for (name, wit) in witgen::boundary_corpus() {
        inputs.push((format!("boundary:{name}"), witgen::World { wit, world: "w".into(), tags: BTreeSet::new(), docs: vec![] }));
    }
    // directed worlds: one minimal document per known panic, run at every seed with every variant
    for d in genrun::directed_worlds() {
        inputs.push((format!("directed:{}", d.name), witgen::World { wit: d.wit.to_string(), world: "w".into(), tags: BTreeSet::new(), docs: vec![] }));
    }
    let n_random = args.u64("worlds", if thorough { 6000 } else { 420 }) as usize;
    let mut discarded = 0usize;
    let mut gave_up = 0usize;
    let mut idx = 0usize;
    // boundary shapes first
    for (label, w) in inputs {
        let mine = workload::mine(idx, shard, shards);
        idx += 1;
        if !mine {
            continue;
        }
        let Ok((resolve, world)) = witgen::parse(&w.wit) else {
            rep.inconclusive(&format!("fixed input {label} does not parse"));
            continue;
        };
        if witgen::check_encodable(&resolve, world).is_err() {
            rep.inconclusive(&format!("fixed input {label} is not a valid (encodable) world"));
            continue;
        }
        rep.count("fixed_inputs");
        let tags = workload::all_tags(&w, &resolve, world);
        rep.distinct(&genrun::world_shape(&resolve, world, &tags));
        let desc = json!({"wit": w.wit, "class": label});
        for b in Backend::ALL {
            for var in b.variants() {
                run_case(&mut rep, &mut st, b, var, &resolve, world, &tags, None, &desc, &mut cli_cases, false);
            }
        }
    }
    for i in 0..n_random {
        // every world has its own generator stream so shards agree on world i
        let mut rng = Rng::new(seed.wrapping_mul(0x9E3779B97F4A7C15) ^ (i as u64).wrapping_mul(0xD1B54A32D192ED03) ^ 0xC16);
        if !workload::mine(i, shard, shards) {
            continue;
        }
        let (class, cfg) = workload::cfg_class(i);
        let Some((w, resolve, world, d)) = witgen::generate_valid(&mut rng, &cfg) else {
            gave_up += 1;
            continue;
        };
        discarded += d;
        rep.count("random_valid_worlds");
        rep.count(&format!("class:{class}"));
        let tags = workload::all_tags(&w, &resolve, world);
        rep.distinct(&genrun::world_shape(&resolve, world, &tags));
        for t in &tags {
            rep.count(&format!("tag:{t}"));
        }
        let desc = json!({"wit": w.wit, "class": class, "world_index": i});
        if i < 2 {
            rep.sample(json!({"class": class, "tags": tags, "wit": w.wit}));
        }
        // variants: quick = default + 2 seed-chosen others per backend; thorough = all
        for b in Backend::ALL {
            let vars = b.variants();
            let mut chosen: Vec<usize> = vec![0];
            if thorough {
                chosen = (0..vars.len()).collect();
            } else {
                for _ in 0..2 {
                    let k = rng.usize(vars.len());
                    if !chosen.contains(&k) {
                        chosen.push(k);
                    }
                }
            }
            for k in chosen {
                // a seed-dependent sample of Ok/Err cases goes to the CLI cross-check as well
                let want_cli = cli_dir.is_some() && cli_cases.len() < 60 && rng.chance(1, 60);
                run_case(&mut rep, &mut st, b, &vars[k], &resolve, world, &tags, None, &desc, &mut cli_cases, want_cli);
            }
        }
    }
    rep.count_n("ms_random_phase", t_start.elapsed().as_millis() as u64);
    rep.count_n("random_worlds_discarded_invalid", discarded as u64);
    rep.count_n("random_worlds_gave_up", gave_up as u64);

    // flat keys so that the python side can add the shards up
    let mut flat: BTreeMap<String, u64> = BTreeMap::new();
    for (b, m) in &st.per {
        for (k, n) in m {
            flat.insert(format!("{b}.{k}"), *n);
        }
    }
    rep.extra.insert("per_backend".into(), json!(flat));
    rep.extra.insert("panic_signatures".into(), json!(st.sigs));
    rep.extra.insert("panic_signatures_under_exclusion".into(), json!(st.excluded_sigs));
    if let Some(dir) = cli_dir {
        std::fs::create_dir_all(&dir).ok();
        for (k, c) in cli_cases.iter_mut().enumerate() {
            if let Some(wit) = c.get("wit").and_then(|w| w.as_str()) {
                let p = format!("{dir}/s{shard}-{k}.wit");
                std::fs::write(&p, wit).ok();
                c["wit_path"] = json!(p);
            }
        }
        std::fs::write(format!("{dir}/cases-{shard}.json"), serde_json::to_string(&cli_cases).unwrap()).ok();
    }
    rep.write(&args.out());
}
