//! Helper for the CLI-level checks (C15, C33, ...):
//!   genrun-tool variants --out F            dump the backend/variant table as JSON
//!   genrun-tool validate FILE               exit 0 iff FILE parses and encodes (witgen's notion of a valid world)
//!   genrun-tool worlds --seed S --n N --profile P --dir D --out F
//!        write N random *valid* worlds (w<i>.wit) + an index (tags, shape, class)
//!        profiles: large (many interfaces/types, half multi-package), mixed (feature classes in turn)
use genrun::{workload, Backend};
use serde_json::json;
use vkit::{Args, Rng};
use witgen::Cfg;

fn main() {
    let args = Args::parse();
    let mode = args.free.first().cloned().unwrap_or_default();
    match mode.as_str() {
        "variants" => {
            if let Err(e) = genrun::validate_variants() {
                eprintln!("variant table invalid: {e}");
                std::process::exit(2);
            }
            let mut m = serde_json::Map::new();
            for b in Backend::ALL {
                let vs: Vec<_> = b.variants().iter().map(|v| json!({"name": v.name, "flags": b.cli_args(v), "tested": v.tested})).collect();
                m.insert(b.name().to_string(), json!(vs));
            }
            let corpus: Vec<_> = genrun::corpus(&genrun::repo_root())
                .iter()
                .map(|c| {
                    let world = c.load().ok().map(|(r, w)| (r.worlds[w].name.clone(), r.interfaces.len(), r.packages.len()));
                    json!({"name": c.name, "path": c.path, "async": c.config.async_, "error_context": c.config.error_context, "is_dir": c.path.is_dir(),
                           "world": world.as_ref().map(|w| w.0.clone()), "interfaces": world.as_ref().map(|w| w.1), "packages": world.as_ref().map(|w| w.2)})
                })
                .collect();
            std::fs::write(args.out(), serde_json::to_string(&json!({"variants": m, "corpus": corpus})).unwrap()).unwrap();
        }
        "worlds" => {
            let seed = args.seed();
            let n = args.u64("n", 10) as usize;
            let dir = args.str("dir", ".");
            let profile = args.str("profile", "large");
            std::fs::create_dir_all(&dir).unwrap();
            let mut index = vec![];
            let mut discarded = 0;
            let mut gave_up = 0;
            for i in 0..n {
                let mut rng = Rng::new(seed.wrapping_mul(0x9E3779B97F4A7C15) ^ (i as u64).wrapping_mul(0xD1B54A32D192ED03) ^ vkit::hash64(profile.as_bytes()));
                let (class, cfg) = match profile.as_str() {
                    "large" => {
                        let d = Cfg::default();
                        let c = Cfg {
                            ifaces: 14 + (i % 5) * 3,
                            types: 10,
                            funcs: 6,
                            multi_pkg: i % 2 == 1,
                            async_: i % 3 == 0,
                            fixed_lists: i % 7 == 3,
                            docs: i % 4 == 0,
                            names: if i % 5 == 4 { witgen::Names::Adversarial } else { witgen::Names::Simple },
                            ..d
                        };
                        ("large", c)
                    }
                    _ => workload::cfg_class(i),
                };
                let Some((mut w, mut resolve, mut world, d)) = witgen::generate_valid(&mut rng, &cfg) else {
                    gave_up += 1;
                    continue;
                };
                discarded += d;
                // `type t = borrow<r>;` makes every backend panic (core define_type, a C16 finding); the CLI-level
                // checks need worlds on which generation succeeds, so such aliases become `type t = r;`
                if args.get("keep-handle-aliases").is_none() && w.wit.contains(" = borrow<") {
                    let rewritten: Vec<String> = w
                        .wit
                        .lines()
                        .map(|l| {
                            let t = l.trim_start();
                            if t.starts_with("type ") && t.ends_with(">;") {
                                if let Some((lhs, rhs)) = l.split_once(" = borrow<") {
                                    let inner = &rhs[..rhs.len() - 2];
                                    if !inner.contains('<') {
                                        return format!("{lhs} = {inner};");
                                    }
                                }
                            }
                            l.to_string()
                        })
                        .collect();
                    let text = rewritten.join("\n") + "\n";
                    match witgen::parse(&text).and_then(|(r, id)| witgen::check_encodable(&r, id).map(|_| (r, id))) {
                        Ok((r, id)) => {
                            w.wit = text;
                            resolve = r;
                            world = id;
                        }
                        Err(_) => {
                            gave_up += 1;
                            continue;
                        }
                    }
                }
                let tags = workload::all_tags(&w, &resolve, world);
                let path = format!("{dir}/w{i}.wit");
                std::fs::write(&path, &w.wit).unwrap();
                index.push(json!({
                    "path": path, "class": class, "tags": tags, "world": w.world,
                    "shape": genrun::world_shape(&resolve, world, &tags),
                    "interfaces": resolve.interfaces.len(), "types": resolve.types.len(), "packages": resolve.packages.len(),
                    "bytes": w.wit.len(),
                }));
            }
            std::fs::write(args.out(), serde_json::to_string(&json!({"worlds": index, "discarded_invalid": discarded, "gave_up": gave_up})).unwrap()).unwrap();
        }
        "hash-order-worlds" => {
            // write the directed hash-order-sensitive worlds + an index
            let dir = args.str("dir", ".");
            std::fs::create_dir_all(&dir).unwrap();
            let mut index = vec![];
            for (name, wit) in genrun::hash_order_worlds() {
                let path = format!("{dir}/ho-{name}.wit");
                std::fs::write(&path, &wit).unwrap();
                let valid = witgen::parse(&wit).and_then(|(r, id)| witgen::check_encodable(&r, id).map(|_| (r, id)));
                match valid {
                    Ok((r, id)) => {
                        let tags = genrun::features_of(&r, id);
                        index.push(json!({"name": name, "path": path, "valid": true, "shape": genrun::world_shape(&r, id, &tags),
                                          "interfaces": r.interfaces.len(), "types": r.types.len(), "packages": r.packages.len()}));
                    }
                    Err(e) => index.push(json!({"name": name, "path": path, "valid": false, "error": format!("{e:#}")})),
                }
            }
            std::fs::write(args.out(), serde_json::to_string(&json!({"worlds": index})).unwrap()).unwrap();
        }
        "validate" => {
            // exit 0 iff the file is a valid world in the sense of witgen::generate_valid
            let text = std::fs::read_to_string(args.free.get(1).expect("file")).expect("read");
            match witgen::parse(&text).and_then(|(r, id)| witgen::check_encodable(&r, id)) {
                Ok(()) => {}
                Err(e) => {
                    eprintln!("invalid: {e:#}");
                    std::process::exit(1);
                }
            }
        }
        _ => {
            eprintln!("usage: genrun-tool variants|worlds|validate ...");
            std::process::exit(2);
        }
    }
}
