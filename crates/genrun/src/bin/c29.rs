//! C29 — Markdown docs: valid links, verbatim doc text.  This binary runs the
//! Markdown generator in-process on random worlds with hostile doc comments and
//! dumps, per case, the generated files plus the doc comments the generator was
//! given (taken from the parsed `Resolve`, item by item in rendering order);
//! lib/checks/C29.py holds the oracles (html.parser based).
use genrun::{workload, Backend, Outcome};
use serde_json::{json, Value};
use vkit::{Args, Report, Rng};
use wit_parser::{Docs, Resolve, TypeDefKind, TypeId, WorldId, WorldItem};

fn push(out: &mut Vec<Value>, kind: &str, owner: &str, docs: &Docs) {
    if let Some(c) = &docs.contents {
        if !c.trim().is_empty() {
            out.push(json!({"kind": kind, "owner": owner, "text": c}));
        }
    }
}

fn type_docs(resolve: &Resolve, id: TypeId, name: &str, out: &mut Vec<Value>) {
    let def = &resolve.types[id];
    push(out, "type", name, &def.docs);
    match &def.kind {
        TypeDefKind::Record(r) => r.fields.iter().for_each(|f| push(out, "field", &format!("{name}.{}", f.name), &f.docs)),
        TypeDefKind::Variant(v) => v.cases.iter().for_each(|c| push(out, "case", &format!("{name}.{}", c.name), &c.docs)),
        TypeDefKind::Enum(e) => e.cases.iter().for_each(|c| push(out, "enum-case", &format!("{name}.{}", c.name), &c.docs)),
        TypeDefKind::Flags(f) => f.flags.iter().for_each(|c| push(out, "flag", &format!("{name}.{}", c.name), &c.docs)),
        _ => {}
    }
}

/// Every doc comment attached to an item the Markdown generator renders.
fn collect_docs(resolve: &Resolve, world: WorldId) -> Vec<Value> {
    let mut out = vec![];
    let w = &resolve.worlds[world];
    push(&mut out, "world", &w.name, &w.docs);
    let imported: Vec<_> = w.imports.values().filter_map(|i| if let WorldItem::Interface { id, .. } = i { Some(*id) } else { None }).collect();
    for (exported, items) in [(false, &w.imports), (true, &w.exports)] {
        for (key, item) in items.iter() {
            let kname = resolve.name_world_key(key);
            match item {
                WorldItem::Interface { id, .. } => {
                    let iface = &resolve.interfaces[*id];
                    if !exported {
                        push(&mut out, "import-interface", &kname, &iface.docs);
                    } else if !imported.contains(id) {
                        push(&mut out, "export-only-interface", &kname, &iface.docs);
                    }
                    for (tname, tid) in iface.types.iter() {
                        type_docs(resolve, *tid, tname, &mut out);
                    }
                    for (_, f) in iface.functions.iter() {
                        push(&mut out, "func", &f.name, &f.docs);
                    }
                }
                WorldItem::Function(f) => push(&mut out, "func", &f.name, &f.docs),
                WorldItem::Type { id, .. } => {
                    let name = resolve.types[*id].name.clone().unwrap_or_default();
                    type_docs(resolve, *id, &name, &mut out);
                }
            }
        }
    }
    out
}

fn snake(name: &str) -> String {
    // heck's to_snake_case on WIT kebab identifiers: words joined by `_`, lower-cased
    name.split('-').map(|w| w.to_lowercase()).collect::<Vec<_>>().join("_")
}

/// The same world with extra doc lines that mention REAL items of the world (types, functions) as code spans: bare,
/// inside inline / full-reference / collapsed / shortcut links (with their definition lines), next to autolinks and
/// inside emphasised link text.  Only `///` lines are added, so the world stays valid.
fn mention_variant(wit: &str, resolve: &Resolve, world: WorldId, rng: &mut Rng) -> Option<String> {
    let w = &resolve.worlds[world];
    let mut names: Vec<String> = vec![];
    for item in w.imports.values().chain(w.exports.values()) {
        match item {
            WorldItem::Interface { id, .. } => {
                let iface = &resolve.interfaces[*id];
                names.extend(iface.types.keys().cloned());
                names.extend(iface.functions.keys().filter(|f| !f.contains('[')).cloned());
            }
            WorldItem::Function(f) => {
                if !f.name.contains('[') {
                    names.push(f.name.clone());
                }
            }
            WorldItem::Type { id, .. } => names.extend(resolve.types[*id].name.clone()),
        }
    }
    names.sort();
    names.dedup();
    names.retain(|n| n.chars().all(|c| c.is_ascii_alphanumeric() || c == '-'));
    if names.is_empty() {
        return None;
    }
    let lines: Vec<&str> = wit.lines().collect();
    let mut out: Vec<String> = vec![];
    let mut lbl = 0;
    for (i, l) in lines.iter().enumerate() {
        out.push(l.to_string());
        let is_doc = l.trim_start().starts_with("///");
        let next_doc = lines.get(i + 1).map(|n| n.trim_start().starts_with("///")).unwrap_or(false);
        if is_doc && !next_doc && rng.chance(2, 3) {
            let ind: String = l.chars().take_while(|c| c.is_whitespace()).collect();
            let n = rng.pick(&names).clone();
            let a = snake(&n);
            let m = rng.pick(&names).clone();
            let am = snake(&m);
            lbl += 1;
            let (text, defs): (String, Vec<String>) = match rng.below(8) {
                0 => (format!("mentions `{n}` and `{m}` as code"), vec![]),
                1 => (format!("inline [`{n}`](#{a}) link"), vec![]),
                2 => (format!("full reference [`{n}`][lbl{lbl}] link"), vec![format!("[lbl{lbl}]: #{a}")]),
                3 => (format!("collapsed [`{n}`][] link"), vec![format!("[`{n}`]: #{a}")]),
                4 => (format!("shortcut [`{n}`] link and `{m}`"), vec![format!("[`{n}`]: #{a}")]),
                5 => (format!("autolink <https://example.com/{n}> then `{n}`"), vec![]),
                6 => (format!("emphasis in link text [*see `{n}`* and **`{m}`**](#{a})"), vec![]),
                _ => (format!("two kinds [`{n}`][L{lbl}] and [`{m}`]"), vec![format!("[L{lbl}]: #{a}"), format!("[`{m}`]: #{am}")]),
            };
            out.push(format!("{ind}/// {text}"));
            if !defs.is_empty() {
                out.push(format!("{ind}///"));
                for d in defs {
                    out.push(format!("{ind}/// {d}"));
                }
            }
        }
    }
    Some(out.join("\n") + "\n")
}

fn neutralise_fences(wit: &str) -> String {
    wit.lines().map(|l| if l.trim_start().starts_with("///") { l.replace("```", "'''") } else { l.to_string() }).collect::<Vec<_>>().join("\n")
}

/// Directed world: every link kind around code spans naming real items; runs at every seed.
const LINKS_WORLD: &str = "package d:links;\n\n/// See `rec` and `run`.\n/// Inline [`rec`](#rec), full [`rec`][lbl], collapsed [`run`][] and shortcut [`res`].\n/// Auto <https://example.com/rec> and [*emph `rec`* text **`run`**](#rec).\n///\n/// [lbl]: #rec\n/// [`run`]: #run\n/// [`res`]: #res\ninterface i {\n  /// A record mentioning [`res`] and itself [`rec`][].\n  ///\n  /// [`rec`]: #rec\n  record rec {\n    /// field doc with [`res`][lbl] and `rec`\n    a: u32,\n  }\n  /// resource doc [`rec`]\n  resource res {\n    constructor();\n  }\n  /// Function doc: [`rec`][lbl], `run`, [`run`]\n  run: func(a: rec) -> rec;\n}\n\n/// World doc [`rec`] and [`w`](#w)\nworld w {\n  import i;\n  export i;\n  /// world function [`rec`][] `go`\n  export go: func(a: u32);\n}\n";

fn main() {
    let args = Args::parse();
    let seed = args.seed();
    let thorough = args.thorough();
    let shard = args.u64("shard", 0) as usize;
    let shards = args.u64("shards", 1) as usize;
    let cases_path = args.str("cases", "");
    let mut rep = Report::new("case = (world with doc comments, Markdown variant) generated in-process; distinct = world shapes");
    let mut cases: Vec<Value> = vec![];
    let b = Backend::Markdown;

    let mut run = |rep: &mut Report, label: &str, wit: &str, neutralised: bool| {
        let Ok((resolve, world)) = witgen::parse(wit) else {
            rep.count("reparse_failed");
            return;
        };
        let tags = genrun::features_of(&resolve, world);
        rep.distinct(&genrun::world_shape(&resolve, world, &tags));
        let docs = collect_docs(&resolve, world);
        for var in b.variants() {
            match genrun::run_backend(b, var, &resolve, world) {
                Outcome::Ok(files) => {
                    rep.count(&format!("ok:{}", var.name));
                    let fs: serde_json::Map<String, Value> = files.iter().map(|(n, c)| (n.clone(), json!(String::from_utf8_lossy(c)))).collect();
                    cases.push(json!({"input": label, "variant": var.name, "wit": wit, "files": fs, "docs": docs, "fences_neutralised": neutralised,
                                      "world": resolve.worlds[world].name}));
                }
                Outcome::Err(_) => rep.count("err"),
                Outcome::Panic { .. } => rep.count("panic(C16's business)"),
            }
        }
    };

    if let Some(p) = args.get("replay-wit") {
        let wit = std::fs::read_to_string(p).expect("replay wit");
        run(&mut rep, "replay", &wit, false);
    } else {
        let n = args.u64("worlds", if thorough { 2000 } else { 300 }) as usize;
        let mut discarded = 0;
        for i in 0..n {
            if !workload::mine(i, shard, shards) {
                continue;
            }
            let mut rng = Rng::new(seed.wrapping_mul(0x9E3779B97F4A7C15) ^ (i as u64).wrapping_mul(0xD1B54A32D192ED03) ^ 0xC29);
            let d = witgen::Cfg::default();
            let cfg = witgen::Cfg {
                docs: true,
                names: if i % 3 == 2 { witgen::Names::Adversarial } else { witgen::Names::Simple },
                multi_pkg: i % 4 == 1,
                ifaces: 2 + i % 4,
                types: 5,
                funcs: 3,
                max_depth: 2,
                async_: i % 4 == 3,
                fixed_lists: i % 5 == 4,
                ..d
            };
            let Some((w, _, _, dis)) = witgen::generate_valid(&mut rng, &cfg) else {
                rep.count("gave_up");
                continue;
            };
            discarded += dis;
            rep.count("random_valid_worlds");
            rep.count_n("doc_comments_generated", w.docs.len() as u64);
            run(&mut rep, &format!("random:{i}"), &w.wit, false);
            // real item names as code spans in every link kind (no fences, so the HTML oracles apply)
            if let Ok((r2, w2)) = witgen::parse(&w.wit) {
                if let Some(m) = mention_variant(&neutralise_fences(&w.wit), &r2, w2, &mut rng) {
                    rep.count("mention_variants");
                    run(&mut rep, &format!("random:{i}:mentions"), &m, true);
                }
            }
            // the same world with code fences in doc comments neutralised: an unbalanced ``` in a doc comment swallows the
            // rest of the document (the user's markdown, not the generator's), which would hide the link oracles
            if w.wit.contains("```") {
                let neutral: String = w.wit.lines().map(|l| if l.trim_start().starts_with("///") { l.replace("```", "'''") } else { l.to_string() }).collect::<Vec<_>>().join("\n");
                run(&mut rep, &format!("random:{i}:nofence"), &neutral, true);
            }
        }
        rep.count_n("random_worlds_discarded_invalid", discarded as u64);
        if shard == 0 {
            rep.count("directed_worlds");
            run(&mut rep, "directed:links", LINKS_WORLD, false);
        }
        // corpus files carry real-world doc comments
        for (ci, c) in genrun::corpus(&genrun::repo_root()).iter().enumerate() {
            if !workload::mine(ci, shard, shards) || !c.path.is_file() {
                continue;
            }
            if let Ok(text) = std::fs::read_to_string(&c.path) {
                if text.contains("///") {
                    rep.count("corpus_inputs_with_docs");
                    run(&mut rep, &format!("corpus:{}", c.name), &text, false);
                }
            }
        }
    }
    if !cases_path.is_empty() {
        std::fs::write(&cases_path, serde_json::to_string(&cases).unwrap()).expect("write cases");
    }
    rep.count_n("cases_dumped", cases.len() as u64);
    rep.write(&args.out());
}
