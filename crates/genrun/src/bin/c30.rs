//! C30 — MoonBit output forms a consistent package graph.
//! MoonBit generator (sync + async variants) in-process on multi-package worlds
//! (kebab-case names, versions, equal last segments); the checker parses every
//! generated `moon.pkg.json`.
use genrun::{workload, Backend, Outcome};
use serde_json::{json, Value};
use std::collections::{BTreeMap, BTreeSet};
use vkit::{Args, Report, Rng};
use wit_parser::{Resolve, WorldId, WorldItem, WorldKey};

/// MoonBit source with comments, string / char literals and multi-line string lines removed.
fn strip_mbt(src: &str) -> String {
    let mut out = String::with_capacity(src.len());
    for line in src.lines() {
        let t = line.trim_start();
        if t.starts_with("#|") || t.starts_with("$|") {
            out.push('\n');
            continue;
        }
        let cs: Vec<char> = line.chars().collect();
        let mut i = 0;
        while i < cs.len() {
            let c = cs[i];
            if c == '/' && i + 1 < cs.len() && cs[i + 1] == '/' {
                break;
            }
            if c == '"' {
                i += 1;
                while i < cs.len() && cs[i] != '"' {
                    if cs[i] == '\\' {
                        i += 1;
                    }
                    i += 1;
                }
                i += 1;
                out.push_str("\"\"");
                continue;
            }
            if c == '\'' {
                // char literal: 'x' or '\n' or '\u{..}'
                let mut j = i + 1;
                if j < cs.len() && cs[j] == '\\' {
                    while j < cs.len() && cs[j] != '\'' {
                        j += 1;
                    }
                } else {
                    j += 1;
                }
                if j < cs.len() && cs[j] == '\'' && j - i <= 12 {
                    i = j + 1;
                    out.push_str("' '");
                    continue;
                }
            }
            out.push(c);
            i += 1;
        }
        out.push('\n');
    }
    out
}

/// `@alias.` occurrences (alias may be kebab-case or a path like `a/b`).
fn used_aliases(stripped: &str) -> BTreeSet<String> {
    let cs: Vec<char> = stripped.chars().collect();
    let mut out = BTreeSet::new();
    let mut i = 0;
    while i < cs.len() {
        if cs[i] == '@' {
            let mut j = i + 1;
            while j < cs.len() && (cs[j].is_alphanumeric() || cs[j] == '_' || cs[j] == '-' || cs[j] == '/') {
                j += 1;
            }
            if j > i + 1 && j < cs.len() && cs[j] == '.' {
                out.insert(cs[i + 1..j].iter().collect());
            }
            i = j.max(i + 1);
        } else {
            i += 1;
        }
    }
    out
}

/// packages of moonbitlang/core the generated code may name without declaring
const CORE_PKGS: &[&str] = &[
    "builtin", "buffer", "bytes", "string", "array", "utf8", "utf16", "encoding/utf8", "encoding/utf16", "json", "math", "int", "uint", "int64",
    "uint64", "double", "float", "char", "option", "result", "ref", "iter", "list", "map", "hashmap", "coverage", "test", "debug",
];

struct Problem {
    sig: String,
    what: String,
}

fn dirname(p: &str) -> &str {
    p.rsplit_once('/').map(|x| x.0).unwrap_or("")
}

fn check_output(files: &[(String, Vec<u8>)], resolve: &Resolve, world: WorldId, flags: &[String], stats: &mut BTreeMap<&'static str, u64>) -> Vec<Problem> {
    let mut probs = vec![];
    let get = |flag: &str| flags.iter().position(|f| f == flag).and_then(|i| flags.get(i + 1)).cloned();
    let gen_dir = get("--gen-dir").unwrap_or_else(|| "gen".to_string());
    let fmap: BTreeMap<&str, &[u8]> = files.iter().map(|(n, c)| (n.as_str(), c.as_slice())).collect();
    let pkg_dirs: BTreeSet<String> = fmap.keys().filter(|n| n.ends_with("moon.pkg.json")).map(|n| dirname(n).to_string()).collect();
    *stats.entry("packages").or_insert(0) += pkg_dirs.len() as u64;
    // project name
    let wpkg = resolve.worlds[world].package.map(|p| &resolve.packages[p].name);
    let mut project = get("--project-name").or_else(|| wpkg.map(|n| format!("{}/{}", n.namespace, n.name))).unwrap_or_default();
    if let Some(m) = fmap.get("moon.mod.json") {
        match serde_json::from_slice::<Value>(m) {
            Ok(v) => {
                if let Some(n) = v.get("name").and_then(|n| n.as_str()) {
                    project = n.to_string();
                }
            }
            Err(e) => probs.push(Problem { sig: "moonbit:mod-json-invalid".into(), what: format!("moon.mod.json does not parse: {e}") }),
        }
    }
    for dir in &pkg_dirs {
        let pj = if dir.is_empty() { "moon.pkg.json".to_string() } else { format!("{dir}/moon.pkg.json") };
        let v: Value = match serde_json::from_slice(fmap[pj.as_str()]) {
            Ok(v) => v,
            Err(e) => {
                probs.push(Problem { sig: "moonbit:pkg-json-invalid".into(), what: format!("{pj} does not parse as JSON: {e}") });
                continue;
            }
        };
        let mut aliases: BTreeMap<String, String> = BTreeMap::new(); // alias -> path
        let mut paths: BTreeMap<String, String> = BTreeMap::new(); // path -> alias
        if let Some(imports) = v.get("import").and_then(|i| i.as_array()) {
            for imp in imports {
                let (path, alias) = match imp {
                    Value::String(s) => (s.clone(), s.rsplit('/').next().unwrap_or(s).to_string()),
                    Value::Object(o) => {
                        let p = o.get("path").and_then(|p| p.as_str()).unwrap_or("").to_string();
                        let a = o.get("alias").and_then(|p| p.as_str()).map(|s| s.to_string()).unwrap_or_else(|| p.rsplit('/').next().unwrap_or("").to_string());
                        (p, a)
                    }
                    _ => continue,
                };
                *stats.entry("imports_declared").or_insert(0) += 1;
                if let Some(prev) = aliases.insert(alias.clone(), path.clone()) {
                    if prev != path {
                        probs.push(Problem { sig: "moonbit:alias-not-unique".into(), what: format!("{pj}: alias `{alias}` names both `{prev}` and `{path}`") });
                    } else {
                        probs.push(Problem { sig: "moonbit:import-declared-twice".into(), what: format!("{pj}: `{path}` as `{alias}` is declared twice") });
                    }
                }
                if let Some(prev) = paths.insert(path.clone(), alias.clone()) {
                    if prev != alias {
                        probs.push(Problem { sig: "moonbit:package-under-two-aliases".into(), what: format!("{pj}: `{path}` is imported as `{prev}` and as `{alias}`") });
                    }
                }
                // the path exists in the output tree
                let rel = path.strip_prefix(&format!("{project}/")).map(|s| s.to_string());
                match rel {
                    Some(rel) if pkg_dirs.contains(&rel) => {}
                    Some(rel) => probs.push(Problem {
                        sig: "moonbit:import-path-missing".into(),
                        what: format!("{pj} imports `{path}` but the output has no package directory `{rel}` (moon.pkg.json)"),
                    }),
                    None => {
                        if path.starts_with("moonbitlang/") {
                            *stats.entry("imports_external").or_insert(0) += 1;
                        } else {
                            probs.push(Problem {
                                sig: "moonbit:import-path-outside-project".into(),
                                what: format!("{pj} imports `{path}` which is not below the project `{project}`"),
                            });
                        }
                    }
                }
            }
        }
        // uses in this package's .mbt files
        let prefix = if dir.is_empty() { String::new() } else { format!("{dir}/") };
        for (name, content) in fmap.iter().filter(|(n, _)| n.ends_with(".mbt") && dirname(n) == dir.as_str()) {
            let _ = &prefix;
            let Ok(text) = std::str::from_utf8(content) else { continue };
            let used = used_aliases(&strip_mbt(text));
            *stats.entry("mbt_files_scanned").or_insert(0) += 1;
            for u in used {
                *stats.entry("alias_uses_distinct").or_insert(0) += 1;
                if aliases.contains_key(&u) {
                    continue;
                }
                if CORE_PKGS.contains(&u.as_str()) {
                    *stats.entry("core_alias_uses").or_insert(0) += 1;
                    continue;
                }
                probs.push(Problem { sig: "moonbit:alias-undeclared".into(), what: format!("{name} uses `@{u}.` but {pj} declares only {:?}", aliases.keys().collect::<Vec<_>>()) });
            }
        }
    }
    // kebab-case WIT names preserved in package paths
    let w = &resolve.worlds[world];
    let has_dir_mod_suffix = |base: &str| -> bool {
        pkg_dirs.iter().any(|d| d == base || (d.starts_with(base) && d[base.len()..].chars().all(|c| c.is_ascii_digit())))
    };
    for (exported, items) in [(false, &w.imports), (true, &w.exports)] {
        for (key, item) in items.iter() {
            if let WorldItem::Interface { id, .. } = item {
                let iname = match key {
                    WorldKey::Name(n) => n.clone(),
                    WorldKey::Interface(i) => resolve.interfaces[*i].name.clone().unwrap_or_default(),
                };
                let mut base = String::new();
                if exported {
                    base.push_str(&gen_dir);
                    base.push('/');
                }
                base.push_str("interface/");
                if let (WorldKey::Interface(_), Some(p)) = (key, resolve.interfaces[*id].package) {
                    let n = &resolve.packages[p].name;
                    base.push_str(&format!("{}/{}/", n.namespace, n.name));
                }
                base.push_str(&iname);
                *stats.entry("interface_paths_expected").or_insert(0) += 1;
                if !has_dir_mod_suffix(&base) {
                    probs.push(Problem {
                        sig: "moonbit:wit-name-not-preserved-in-path".into(),
                        what: format!("{} interface `{}` should live in package directory `{base}` (kebab-case kept); packages: {:?}",
                            if exported { "exported" } else { "imported" }, resolve.name_world_key(key), pkg_dirs.iter().take(12).collect::<Vec<_>>()),
                    });
                }
            }
        }
    }
    probs
}

fn main() {
    let args = Args::parse();
    let seed = args.seed();
    let thorough = args.thorough();
    let shard = args.u64("shard", 0) as usize;
    let shards = args.u64("shards", 1) as usize;
    let mut rep = Report::new("case = (multi-package world, MoonBit option variant) generated in-process, every moon.pkg.json + .mbt of the output checked; distinct = world shapes");
    rep.max_samples = 2;
    let mut stats: BTreeMap<&'static str, u64> = BTreeMap::new();
    let b = Backend::MoonBit;
    // `--ignore-stub` leaves the export packages (user-owned stubs) out on purpose: not a closed package graph
    let variants: Vec<&genrun::Variant> = b.variants().iter().filter(|v| !v.flags.contains(&"--ignore-stub")).collect();

    let run_world = |rep: &mut Report, stats: &mut BTreeMap<&'static str, u64>, label: &str, wit: Option<&str>, resolve: &Resolve, world: WorldId, vars: &[&genrun::Variant]| {
        let tags = genrun::features_of(resolve, world);
        rep.distinct(&genrun::world_shape(resolve, world, &tags));
        for var in vars {
            let flags = b.cli_args(var);
            match genrun::run_backend(b, var, resolve, world) {
                Outcome::Ok(files) => {
                    rep.eval();
                    rep.count(&format!("ok:{}", var.name));
                    rep.count_n("files_checked", files.len() as u64);
                    for p in check_output(&files, resolve, world, &flags, stats) {
                        let listing: Vec<&String> = files.iter().map(|f| &f.0).filter(|n| n.ends_with("moon.pkg.json")).take(40).collect();
                        rep.violation(&p.sig, &format!("moonbit/{} on {label}: {}", var.name, p.what), json!({"wit": wit, "input": label, "variant": var.name, "flags": flags, "packages": listing}));
                    }
                }
                Outcome::Err(_) => rep.count(&format!("err:{}", var.name)),
                Outcome::Panic { .. } => rep.count(&format!("panic(C16's business):{}", var.name)),
            }
        }
    };

    if let Some(p) = args.get("replay-wit") {
        let wit = std::fs::read_to_string(p).expect("replay wit");
        match witgen::parse(&wit) {
            Ok((resolve, world)) => {
                let vars: Vec<&genrun::Variant> = match args.get("variant") {
                    Some(v) => b.variant(v).into_iter().collect(),
                    None => variants.clone(),
                };
                run_world(&mut rep, &mut stats, "replay", Some(&wit), &resolve, world, &vars);
            }
            Err(e) => rep.inconclusive(&format!("replay wit does not parse: {e:#}")),
        }
        rep.extra.insert("checker".into(), json!(stats));
        rep.write(&args.out());
        return;
    }

    // corpus inputs with several packages / interfaces
    for (ci, c) in genrun::corpus(&genrun::repo_root()).iter().enumerate() {
        if !workload::mine(ci, shard, shards) {
            continue;
        }
        let Ok((resolve, world)) = c.load() else { continue };
        rep.count("corpus_inputs");
        run_world(&mut rep, &mut stats, &format!("corpus:{}", c.name), None, &resolve, world, &variants[..2]);
    }
    let n = args.u64("worlds", if thorough { 3000 } else { 280 }) as usize;
    let mut discarded = 0;
    for i in 0..n {
        if !workload::mine(i, shard, shards) {
            continue;
        }
        let mut rng = Rng::new(seed.wrapping_mul(0x9E3779B97F4A7C15) ^ (i as u64).wrapping_mul(0xD1B54A32D192ED03) ^ 0xC30);
        let d = witgen::Cfg::default();
        let cfg = witgen::Cfg {
            multi_pkg: i % 8 != 7,
            ifaces: 5 + (i % 4) * 3,
            types: 4,
            funcs: 3,
            max_depth: 2,
            async_: i % 3 == 1,
            names: if i % 5 == 3 { witgen::Names::Adversarial } else { witgen::Names::Simple },
            docs: i % 6 == 0,
            ..d
        };
        let Some((w, resolve, world, dis)) = witgen::generate_valid(&mut rng, &cfg) else {
            rep.count("gave_up");
            continue;
        };
        discarded += dis;
        rep.count("random_valid_worlds");
        for t in w.tags.iter().filter(|t| t.starts_with("same-") || t.as_str() == "foreign-use" || t.as_str() == "versioned") {
            rep.count(&format!("tag:{t}"));
        }
        if i < 1 {
            rep.sample(json!({"wit": w.wit, "tags": w.tags}));
        }
        // sync + async always; one more seed-chosen variant (all when thorough)
        let mut vars: Vec<&genrun::Variant> = vec![variants[0], variants[1]];
        if thorough {
            vars = variants.clone();
        } else {
            vars.push(variants[2 + rng.usize(variants.len() - 2)]);
        }
        run_world(&mut rep, &mut stats, &format!("random:{i}"), Some(&w.wit), &resolve, world, &vars);
    }
    rep.count_n("random_worlds_discarded_invalid", discarded as u64);
    rep.extra.insert("checker".into(), json!(stats));
    rep.write(&args.out());
}
