//! C24 harness, part 1: drives the REAL `wit_bindgen::rt::cabi_realloc` (directly
//! and through its versioned `extern "C"` wrapper) and `Cleanup::{new, forget,
//! drop}` with seeded random request histories.  Only meaningful as
//! `MIRI_NO_STD=1 cargo +nightly miri run --target wasm32-unknown-unknown`
//! (there `cfg(target_env = "")` holds and the function is compiled in); on any
//! other target this is an empty program so that the workspace builds natively.
#![cfg_attr(target_arch = "wasm32", no_std)]
#![cfg_attr(target_arch = "wasm32", no_main)]

#[cfg(not(target_arch = "wasm32"))]
fn main() {
    eprintln!("rt-alloc: run with `MIRI_NO_STD=1 cargo +nightly miri run --target wasm32-unknown-unknown -p rt-alloc --bin rt-alloc -- <seed> <shard_lo> <shard_hi> <ops> <trace>`");
}

#[cfg(target_arch = "wasm32")]
extern crate alloc;

#[cfg(target_arch = "wasm32")]
mod harness;
