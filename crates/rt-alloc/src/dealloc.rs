//! C24 harness, part 2: the `cabi_dealloc` runtime item exactly as the Rust
//! generator emits it (text extracted from bindings generated at check time and
//! handed in through RT_ALLOC_DEALLOC_SNIPPET), run under native Miri against
//! blocks of random (size, align) including size 0.
//!
//! Output: `RESULT {..}` / `FAIL {..}` / `NOSNIPPET` on stdout.

#[cfg(not(have_dealloc_snippet))]
fn main() {
    println!("NOSNIPPET");
}

#[cfg(have_dealloc_snippet)]
#[allow(dead_code, unused_imports)]
mod _rt {
    extern crate alloc as alloc_crate;
    pub use alloc_crate::alloc;
    include!(concat!(env!("OUT_DIR"), "/cabi_dealloc.rs"));
}

#[cfg(have_dealloc_snippet)]
mod run {
    use std::alloc::{GlobalAlloc, Layout, System};
    use std::ptr;

    #[derive(Clone, Copy)]
    struct Ent {
        ptr: usize,
        size: usize,
        align: usize,
    }
    const CAP: usize = 64;
    struct Ledger {
        on: bool,
        ents: [Ent; CAP],
        n: usize,
        allocs: u32,
        deallocs: u32,
        reallocs: u32,
        bad: Option<(&'static str, usize, usize, usize, usize, usize)>,
    }
    static mut LEDGER: Ledger = Ledger { on: false, ents: [Ent { ptr: 0, size: 0, align: 0 }; CAP], n: 0, allocs: 0, deallocs: 0, reallocs: 0, bad: None };
    fn ledger() -> &'static mut Ledger {
        unsafe { &mut *ptr::addr_of_mut!(LEDGER) }
    }
    struct Mon;
    #[global_allocator]
    static GLOBAL: Mon = Mon;
    // Only blocks allocated while `on` is set are tracked (std itself allocates too).
    unsafe impl GlobalAlloc for Mon {
        unsafe fn alloc(&self, layout: Layout) -> *mut u8 {
            let p = unsafe { System.alloc(layout) };
            let l = ledger();
            if l.on {
                l.allocs += 1;
                if l.n < CAP {
                    l.ents[l.n] = Ent { ptr: p as usize, size: layout.size(), align: layout.align() };
                    l.n += 1;
                }
            }
            p
        }
        unsafe fn dealloc(&self, p: *mut u8, layout: Layout) {
            let l = ledger();
            match l.ents[..l.n].iter().position(|e| e.ptr == p as usize) {
                Some(i) => {
                    l.deallocs += 1;
                    let e = l.ents[i];
                    if e.size != layout.size() || e.align != layout.align() {
                        if l.bad.is_none() {
                            l.bad = Some(("dealloc-wrong-layout", e.ptr, layout.size(), layout.align(), e.size, e.align));
                        }
                    }
                    l.n -= 1;
                    l.ents[i] = l.ents[l.n];
                    unsafe { System.dealloc(p, Layout::from_size_align_unchecked(e.size, e.align)) };
                }
                None => {
                    if l.on {
                        l.deallocs += 1;
                        if l.bad.is_none() {
                            l.bad = Some(("dealloc-of-non-live-pointer", p as usize, layout.size(), layout.align(), 0, 0));
                        }
                        // not forwarded: the pointer is not a block
                    } else {
                        unsafe { System.dealloc(p, layout) };
                    }
                }
            }
        }
    }

    struct Rng(u64);
    impl Rng {
        fn next(&mut self) -> u64 {
            self.0 = self.0.wrapping_add(0x9E3779B97F4A7C15);
            let mut z = self.0;
            z = (z ^ (z >> 30)).wrapping_mul(0xBF58476D1CE4E5B9);
            z = (z ^ (z >> 27)).wrapping_mul(0x94D049BB133111EB);
            z ^ (z >> 31)
        }
        fn below(&mut self, n: usize) -> usize {
            (self.next() % n as u64) as usize
        }
    }

    pub fn main() {
        let args: Vec<u64> = std::env::args().skip(1).map(|a| a.parse().unwrap_or(0)).collect();
        let seed = args.first().copied().unwrap_or(0);
        let ops = args.get(1).copied().unwrap_or(200) as usize;
        let mut rng = Rng(seed.wrapping_mul(0xD6E8FEB86659FD93) ^ 0x243F6A8885A308D3);
        let mut keys = std::collections::BTreeSet::new();
        let (mut nonzero, mut zero) = (0u32, 0u32);
        let mut fail: Option<String> = None;
        for i in 0..ops {
            let k = if rng.below(2) == 0 { rng.below(5) } else { rng.below(17) };
            let align = 1usize << k;
            let size = match rng.below(10) {
                0 | 1 => 0,
                2..=5 => 1 + rng.below(64),
                6 | 7 => 65 + rng.below(4032),
                8 => 4097 + rng.below(61440),
                _ => {
                    let b = 1usize << rng.below(21);
                    [b.saturating_sub(1).max(1), b, (b + 1).min(1 << 20), 1 << 20][rng.below(4)]
                }
            };
            let l = ledger();
            if size == 0 {
                // what lowered code holds for an empty list / zero-sized block: any pointer at all
                let p = match rng.below(3) {
                    0 => ptr::null_mut(),
                    1 => align as *mut u8,
                    _ => ptr::dangling_mut::<u8>(),
                };
                l.on = true;
                let before = (l.n, l.allocs, l.deallocs);
                unsafe { super::_rt::cabi_dealloc(p, 0, align) };
                l.on = false;
                zero += 1;
                if let Some(b) = l.bad.take() {
                    fail = Some(format!("{{\"oracle\":\"{}\",\"class\":\"zero-size\",\"call\":{i},\"size\":0,\"align\":{align},\"detail\":[{},{},{},{},{}]}}", b.0, b.1, b.2, b.3, b.4, b.5));
                    break;
                }
                if before != (l.n, l.allocs, l.deallocs) {
                    fail = Some(format!("{{\"oracle\":\"zero-size-call-touched-the-allocator\",\"class\":\"zero-size\",\"call\":{i},\"size\":0,\"align\":{align},\"detail\":[]}}"));
                    break;
                }
            } else {
                l.on = true;
                let p = unsafe { std::alloc::alloc(Layout::from_size_align(size, align).unwrap()) };
                unsafe { ptr::write_bytes(p, (i as u8) | 1, size) };
                let before = (l.n, l.allocs, l.deallocs);
                unsafe { super::_rt::cabi_dealloc(p, size, align) };
                l.on = false;
                nonzero += 1;
                if let Some(b) = l.bad.take() {
                    fail = Some(format!("{{\"oracle\":\"{}\",\"class\":\"non-zero-size\",\"call\":{i},\"size\":{size},\"align\":{align},\"detail\":[{},{},{},{},{}]}}", b.0, b.1, b.2, b.3, b.4, b.5));
                    break;
                }
                let still = l.ents[..l.n].iter().any(|e| e.ptr == p as usize);
                if still || l.deallocs != before.2 + 1 || l.n + 1 != before.0 || l.allocs != before.1 {
                    let o = if still || l.deallocs == before.2 { "block-not-freed" } else { "not-exactly-one-deallocation" };
                    fail = Some(format!("{{\"oracle\":\"{o}\",\"class\":\"non-zero-size\",\"call\":{i},\"size\":{size},\"align\":{align},\"detail\":[{},{},{}]}}", l.n, l.deallocs, before.2));
                    if still {
                        // release it so that the only report is ours
                        l.on = true;
                        unsafe { std::alloc::dealloc(p, Layout::from_size_align(size, align).unwrap()) };
                        l.on = false;
                        l.bad = None;
                    }
                    break;
                }
            }
            keys.insert((k, if size == 0 { 0 } else { usize::BITS - size.leading_zeros() }));
        }
        match fail {
            Some(f) => println!("FAIL {f}"),
            None => {
                let ks: Vec<String> = keys.iter().map(|(a, s)| format!("\"d:{a}:{s}\"")).collect();
                println!("RESULT {{\"calls\":{},\"nonzero\":{nonzero},\"zero\":{zero},\"keys\":[{}]}}", nonzero + zero, ks.join(","));
            }
        }
    }
}

#[cfg(have_dealloc_snippet)]
fn main() {
    run::main()
}
