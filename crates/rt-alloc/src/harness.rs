//! no_std Miri program (wasm32).  Output protocol (stdout, one record per line):
//!   HELLO {..}            once
//!   BEGIN <shard>         before a shard starts (so a Miri abort can be attributed)
//!   REQ {..}              traced requests (trace=1: first 8 of the process, trace=2: all)
//!   SHARD {..}            a shard finished, every oracle held
//!   FAIL {..}             an oracle failed (the process stops after the first one)
//!   PANIC {..}            a Rust panic (location tells whether repo code or harness)
//!   DONE                  all shards of this process finished
use core::alloc::{GlobalAlloc, Layout};
use core::fmt::{self, Write};
use core::ptr;
use wit_bindgen::rt::{cabi_realloc, Cleanup};

mod wrapper {
    include!(concat!(env!("OUT_DIR"), "/wrapper.rs"));
}

extern "Rust" {
    fn miri_alloc(size: usize, align: usize) -> *mut u8;
    fn miri_dealloc(ptr: *mut u8, size: usize, align: usize);
    fn miri_write_to_stdout(bytes: &[u8]);
}

// ---------------------------------------------------------------- output

struct Out {
    buf: [u8; 1024],
    n: usize,
}
static mut OUT: Out = Out { buf: [0; 1024], n: 0 };
fn out() -> &'static mut Out {
    unsafe { &mut *ptr::addr_of_mut!(OUT) }
}
impl Out {
    fn flush(&mut self) {
        if self.n > 0 {
            unsafe { miri_write_to_stdout(&self.buf[..self.n]) };
            self.n = 0;
        }
    }
}
impl Write for Out {
    fn write_str(&mut self, s: &str) -> fmt::Result {
        for chunk in s.as_bytes().chunks(512) {
            if self.n + chunk.len() > self.buf.len() {
                self.flush();
            }
            self.buf[self.n..self.n + chunk.len()].copy_from_slice(chunk);
            self.n += chunk.len();
        }
        Ok(())
    }
}
macro_rules! outf {
    ($($t:tt)*) => {{ let _ = write!(out(), $($t)*); }};
}
macro_rules! outln {
    ($($t:tt)*) => {{ let _ = write!(out(), $($t)*); let _ = out().write_str("\n"); out().flush(); }};
}

/// JSON string escaping for panic messages.
struct Esc<'a>(&'a str);
impl fmt::Display for Esc<'_> {
    fn fmt(&self, f: &mut fmt::Formatter<'_>) -> fmt::Result {
        for c in self.0.chars() {
            match c {
                '"' => f.write_str("\\\"")?,
                '\\' => f.write_str("\\\\")?,
                '\n' => f.write_str("\\n")?,
                c if (c as u32) < 0x20 => f.write_str(" ")?,
                c => f.write_char(c)?,
            }
        }
        Ok(())
    }
}
struct EscW<'a, 'b>(&'a mut fmt::Formatter<'b>);
impl Write for EscW<'_, '_> {
    fn write_str(&mut self, s: &str) -> fmt::Result {
        write!(self.0, "{}", Esc(s))
    }
}
struct EscArgs<'a>(fmt::Arguments<'a>);
impl fmt::Display for EscArgs<'_> {
    fn fmt(&self, f: &mut fmt::Formatter<'_>) -> fmt::Result {
        EscW(f).write_fmt(self.0)
    }
}

#[panic_handler]
fn panic(info: &core::panic::PanicInfo<'_>) -> ! {
    let (file, line) = match info.location() {
        Some(l) => (l.file(), l.line()),
        None => ("?", 0),
    };
    outln!(
        "\nPANIC {{\"file\":\"{}\",\"line\":{},\"msg\":\"{}\"}}",
        Esc(file),
        line,
        EscArgs(format_args!("{}", info.message()))
    );
    core::arch::wasm32::unreachable()
}

// ---------------------------------------------------------------- ledger allocator
//
// The global allocator sits on Miri's own allocation primitives (so Miri still
// sees every block: out-of-bounds, use-after-free, uninitialised reads, leaks)
// and keeps a ledger of live blocks with the layout they were allocated with.
// A request that disagrees with the ledger is recorded (`bad`) and then served
// with the *recorded* layout, so the execution stays defined and the harness
// can print a precise verdict instead of a Miri abort.

#[derive(Clone, Copy)]
struct Ent {
    ptr: usize,
    size: usize,
    align: usize,
}
#[derive(Clone, Copy)]
struct Bad {
    kind: &'static str,
    ptr: usize,
    got_size: usize,
    got_align: usize,
    rec_size: usize,
    rec_align: usize,
}
const CAP: usize = 256;
struct Ledger {
    ents: [Ent; CAP],
    n: usize,
    allocs: u32,
    deallocs: u32,
    reallocs: u32,
    bad: Option<Bad>,
}
static mut LEDGER: Ledger = Ledger {
    ents: [Ent { ptr: 0, size: 0, align: 0 }; CAP],
    n: 0,
    allocs: 0,
    deallocs: 0,
    reallocs: 0,
    bad: None,
};
fn ledger() -> &'static mut Ledger {
    unsafe { &mut *ptr::addr_of_mut!(LEDGER) }
}
impl Ledger {
    fn find(&self, p: usize) -> Option<usize> {
        self.ents[..self.n].iter().position(|e| e.ptr == p)
    }
    fn get(&self, p: usize) -> Option<Ent> {
        self.find(p).map(|i| self.ents[i])
    }
    fn insert(&mut self, e: Ent) {
        if self.n == CAP {
            self.flag("harness-ledger-full", e.ptr, e.size, e.align, 0, 0);
            return;
        }
        self.ents[self.n] = e;
        self.n += 1;
    }
    fn remove(&mut self, i: usize) {
        self.n -= 1;
        self.ents[i] = self.ents[self.n];
    }
    fn flag(&mut self, kind: &'static str, ptr: usize, gs: usize, ga: usize, rs: usize, ra: usize) {
        if self.bad.is_none() {
            self.bad = Some(Bad { kind, ptr, got_size: gs, got_align: ga, rec_size: rs, rec_align: ra });
        }
    }
}

struct Mon;
#[global_allocator]
static GLOBAL: Mon = Mon;

unsafe impl GlobalAlloc for Mon {
    unsafe fn alloc(&self, layout: Layout) -> *mut u8 {
        let l = ledger();
        l.allocs += 1;
        if layout.size() == 0 {
            // zero-sized request reaching the global allocator is a contract breach
            l.flag("alloc-zero-size", 0, 0, layout.align(), 0, 0);
            return layout.align() as *mut u8;
        }
        let p = unsafe { miri_alloc(layout.size(), layout.align()) };
        l.insert(Ent { ptr: p as usize, size: layout.size(), align: layout.align() });
        p
    }
    unsafe fn dealloc(&self, p: *mut u8, layout: Layout) {
        let l = ledger();
        l.deallocs += 1;
        match l.find(p as usize) {
            None => l.flag("dealloc-of-non-live-pointer", p as usize, layout.size(), layout.align(), 0, 0),
            Some(i) => {
                let e = l.ents[i];
                if e.size != layout.size() || e.align != layout.align() {
                    l.flag("dealloc-wrong-layout", e.ptr, layout.size(), layout.align(), e.size, e.align);
                }
                l.remove(i);
                unsafe { miri_dealloc(p, e.size, e.align) };
            }
        }
    }
    unsafe fn realloc(&self, p: *mut u8, layout: Layout, new_size: usize) -> *mut u8 {
        let l = ledger();
        l.reallocs += 1;
        let i = match l.find(p as usize) {
            None => {
                l.flag("realloc-of-non-live-pointer", p as usize, layout.size(), layout.align(), 0, 0);
                return ptr::null_mut();
            }
            Some(i) => i,
        };
        let e = l.ents[i];
        if e.size != layout.size() || e.align != layout.align() {
            l.flag("realloc-wrong-old-layout", e.ptr, layout.size(), layout.align(), e.size, e.align);
        }
        if new_size == 0 {
            l.flag("realloc-to-zero-size", e.ptr, layout.size(), layout.align(), e.size, e.align);
            return p;
        }
        // always move, so that stale uses of the old pointer are caught by Miri
        let q = unsafe { miri_alloc(new_size, e.align) };
        unsafe { ptr::copy_nonoverlapping(p, q, core::cmp::min(e.size, new_size)) };
        unsafe { miri_dealloc(p, e.size, e.align) };
        l.remove(i);
        l.insert(Ent { ptr: q as usize, size: new_size, align: e.align });
        q
    }
}

// ---------------------------------------------------------------- PRNG (same as vkit::Rng)

struct Rng {
    s: [u64; 4],
}
impl Rng {
    fn new(seed: u64) -> Rng {
        let mut s = seed;
        let mut st = [0u64; 4];
        for slot in st.iter_mut() {
            s = s.wrapping_add(0x9E3779B97F4A7C15);
            let mut z = s;
            z = (z ^ (z >> 30)).wrapping_mul(0xBF58476D1CE4E5B9);
            z = (z ^ (z >> 27)).wrapping_mul(0x94D049BB133111EB);
            *slot = z ^ (z >> 31);
        }
        Rng { s: st }
    }
    fn next(&mut self) -> u64 {
        let s = &mut self.s;
        let r = s[1].wrapping_mul(5).rotate_left(7).wrapping_mul(9);
        let t = s[1] << 17;
        s[2] ^= s[0];
        s[3] ^= s[1];
        s[1] ^= s[2];
        s[0] ^= s[3];
        s[2] ^= t;
        s[3] = s[3].rotate_left(45);
        r
    }
    fn below(&mut self, n: usize) -> usize {
        if n == 0 { 0 } else { (self.next() % n as u64) as usize }
    }
    fn range(&mut self, lo: usize, hi: usize) -> usize {
        lo + self.below(hi - lo + 1)
    }
    fn chance(&mut self, num: usize, den: usize) -> bool {
        self.below(den) < num
    }
}

// ---------------------------------------------------------------- block patterns

const P: usize = 97;
fn pbyte(pat: u32, j: usize) -> u8 {
    let x = pat.wrapping_mul(2654435761).rotate_left((j % 29) as u32) ^ (j as u32).wrapping_mul(0x01000193);
    (x ^ (x >> 8) ^ (x >> 16) ^ (x >> 24)) as u8
}
/// Fill the whole block with the P-periodic pattern of `pat`.
unsafe fn stamp(p: *mut u8, size: usize, pat: u32) {
    unsafe {
        let head = core::cmp::min(size, P);
        for j in 0..head {
            *p.add(j) = pbyte(pat, j);
        }
        let mut filled = head;
        while filled < size {
            let n = core::cmp::min(filled, size - filled);
            ptr::copy_nonoverlapping(p, p.add(filled), n);
            filled += n;
        }
    }
}
/// First index < upto whose byte is not the pattern's.
unsafe fn verify(p: *const u8, upto: usize, pat: u32) -> Option<usize> {
    unsafe {
        let head = core::cmp::min(upto, P);
        for j in 0..head {
            if *p.add(j) != pbyte(pat, j) {
                return Some(j);
            }
        }
        if upto > P {
            let a = core::slice::from_raw_parts(p, upto - P);
            let b = core::slice::from_raw_parts(p.add(P), upto - P);
            if a != b {
                for j in P..upto {
                    if *p.add(j) != pbyte(pat, j % P) {
                        return Some(j);
                    }
                }
            }
        }
        None
    }
}

// ---------------------------------------------------------------- model

#[derive(Clone, Copy)]
struct Blk {
    ptr: *mut u8,
    size: usize,
    align: usize,
    /// layout the ledger recorded (normally identical to size/align)
    rec_size: usize,
    rec_align: usize,
    pat: u32,
}
struct Pending {
    c: Cleanup,
    blk: Blk,
}
#[derive(Clone, Copy)]
struct Req {
    kind: &'static str,
    via_wrapper: bool,
    old_ptr: usize,
    old_len: usize,
    align: usize,
    new_len: usize,
    ret: usize,
}
const KINDS: [&str; 12] = [
    "alloc", "zero", "grow", "shrink", "same", "grow-from-zero", "free", "cleanup-drop", "cleanup-hold",
    "cleanup-forget", "cleanup-zero", "cleanup-drop-held",
];
fn kind_ix(k: &str) -> usize {
    KINDS.iter().position(|x| *x == k).unwrap_or(0)
}
const MAX_LIVE: usize = 24;
const MAX_PENDING: usize = 12;
const NKEYS: usize = 12 * 17 * 22;

struct Fail {
    sig_fn: &'static str,
    sig_class: &'static str,
    sig_oracle: &'static str,
    detail: [usize; 6],
}

struct St {
    rng: Rng,
    live: [Option<Blk>; MAX_LIVE],
    pending: [Option<Pending>; MAX_PENDING],
    recent: [Option<Req>; 12],
    nreq: usize,
    counts: [u32; 12],
    keys: [u64; (NKEYS + 63) / 64],
    via_wrapper: u32,
    bytes_verified: u64,
    bytes_stamped: u64,
    max_live: usize,
    oversized: u32,
    trace: usize,
    next_pat: u32,
}

fn log2(x: usize) -> usize {
    (usize::BITS - 1 - x.leading_zeros()) as usize
}
fn size_class(x: usize) -> usize {
    if x == 0 { 0 } else { log2(x) + 1 }
}

impl St {
    fn new(seed: u64, trace: usize) -> St {
        St {
            rng: Rng::new(seed),
            live: [None; MAX_LIVE],
            pending: [const { None }; MAX_PENDING],
            recent: [None; 12],
            nreq: 0,
            counts: [0; 12],
            keys: [0; (NKEYS + 63) / 64],
            via_wrapper: 0,
            bytes_verified: 0,
            bytes_stamped: 0,
            max_live: 0,
            oversized: 0,
            trace,
            next_pat: (seed as u32) | 1,
        }
    }
    fn pat(&mut self) -> u32 {
        self.next_pat = self.next_pat.wrapping_mul(1664525).wrapping_add(1013904223);
        self.next_pat
    }
    fn gen_align(&mut self) -> usize {
        let k = if self.rng.chance(1, 2) { self.rng.range(0, 4) } else { self.rng.range(0, 16) };
        1usize << k
    }
    /// non-zero size; `slow` = the callee touches every byte in interpreted code
    fn gen_size(&mut self, slow: bool) -> usize {
        let r = self.rng.below(100);
        let s = if r < 40 {
            self.rng.range(1, 64)
        } else if r < 70 {
            self.rng.range(65, 4096)
        } else if r < 88 {
            self.rng.range(4097, 65536)
        } else if r < 95 {
            self.rng.range(65537, 1 << 20)
        } else {
            // boundaries: 2^k - 1, 2^k, 2^k + 1, and the documented maximum
            let k = self.rng.range(0, 20);
            let b = 1usize << k;
            match self.rng.below(4) {
                0 => core::cmp::max(1, b - 1),
                1 => b,
                2 => core::cmp::min(1 << 20, b + 1),
                _ => 1 << 20,
            }
        };
        if slow {
            // Cleanup::drop poisons the block byte by byte in interpreted code: keep most of
            // those small, some up to 2^14 / 2^16, and only rarely the full range
            match self.rng.below(300) {
                0 => s,
                1..=6 => 1 + s % 65536,
                7..=30 => 1 + s % 16384,
                31..=120 => 1 + s % 2048,
                _ => 1 + s % 64,
            }
        } else {
            s
        }
    }
    fn key(&mut self, kind: &str, align: usize, size: usize) {
        let ix = (kind_ix(kind) * 17 + log2(align)) * 22 + size_class(size);
        self.keys[ix / 64] |= 1 << (ix % 64);
        self.counts[kind_ix(kind)] += 1;
    }
    fn record(&mut self, r: Req) {
        let n = self.recent.len();
        self.recent[self.nreq % n] = Some(r);
        self.nreq += 1;
        if self.trace >= 2 || (self.trace == 1 && self.nreq <= 8) {
            out_req("REQ ", &r);
            outln!("");
        }
    }
    fn live_count(&self) -> usize {
        self.live.iter().filter(|b| b.is_some()).count()
    }
    fn free_slot(&self) -> Option<usize> {
        self.live.iter().position(|b| b.is_none())
    }
    fn pick_live(&mut self) -> Option<usize> {
        let n = self.live_count();
        if n == 0 {
            return None;
        }
        let mut k = self.rng.below(n);
        for (i, b) in self.live.iter().enumerate() {
            if b.is_some() {
                if k == 0 {
                    return Some(i);
                }
                k -= 1;
            }
        }
        None
    }
    fn push_live(&mut self, b: Blk) {
        let i = self.free_slot().unwrap();
        self.live[i] = Some(b);
        let n = self.live_count() + self.pending.iter().filter(|p| p.is_some()).count();
        if n > self.max_live {
            self.max_live = n;
        }
    }
}

fn out_req(prefix: &str, r: &Req) {
    outf!(
        "{}{{\"kind\":\"{}\",\"via_wrapper\":{},\"old_ptr\":{},\"old_len\":{},\"align\":{},\"new_len\":{},\"ret\":{}}}",
        prefix, r.kind, r.via_wrapper, r.old_ptr, r.old_len, r.align, r.new_len, r.ret
    );
}

fn fail(f: &'static str, class: &'static str, oracle: &'static str, detail: [usize; 6]) -> Fail {
    Fail { sig_fn: f, sig_class: class, sig_oracle: oracle, detail }
}

/// Did the allocator ledger see something inconsistent during the last call?
fn take_bad(f: &'static str, class: &'static str) -> Result<(), Fail> {
    match ledger().bad.take() {
        None => Ok(()),
        Some(b) => Err(fail(f, class, b.kind, [b.ptr, b.got_size, b.got_align, b.rec_size, b.rec_align, 0])),
    }
}

/// The real entry point: half of the calls go through the versioned extern "C"
/// wrapper (what the C shim `cabi_realloc` forwards to), half call the
/// function directly.
unsafe fn call_realloc(st: &mut St, kind: &'static str, old_ptr: *mut u8, old_len: usize, align: usize, new_len: usize) -> *mut u8 {
    let via = !wrapper::WRAPPER_SYMBOL.is_empty() && st.rng.chance(1, 2);
    let r = unsafe {
        if via {
            st.via_wrapper += 1;
            wrapper::wrapper(old_ptr, old_len, align, new_len)
        } else {
            cabi_realloc(old_ptr, old_len, align, new_len)
        }
    };
    st.record(Req { kind, via_wrapper: via, old_ptr: old_ptr as usize, old_len, align, new_len, ret: r as usize });
    st.key(kind, align, new_len);
    r
}

/// Post-conditions of a call that must have produced a fresh block.
fn check_fresh(f: &'static str, class: &'static str, r: *mut u8, size: usize, align: usize) -> Result<Ent, Fail> {
    let d = [r as usize, size, align, 0, 0, 0];
    if r.is_null() {
        return Err(fail(f, class, "null-pointer", d));
    }
    if (r as usize) % align != 0 {
        return Err(fail(f, class, "misaligned-pointer", d));
    }
    let e = match ledger().get(r as usize) {
        Some(e) => e,
        None => return Err(fail(f, class, "pointer-is-not-a-live-block", d)),
    };
    let d = [r as usize, size, align, e.size, e.align, 0];
    if e.size < size {
        return Err(fail(f, class, "block-too-small", d));
    }
    if e.align < align {
        return Err(fail(f, class, "block-layout-under-aligned", d));
    }
    Ok(e)
}

unsafe fn verify_blk(st: &mut St, b: &Blk, upto: usize, f: &'static str, class: &'static str, p: *const u8) -> Result<(), Fail> {
    if let Some(j) = unsafe { verify(p, upto, b.pat) } {
        return Err(fail(f, class, "contents-not-preserved", [p as usize, upto, j, b.size, b.align, 0]));
    }
    st.bytes_verified += upto as u64;
    Ok(())
}

unsafe fn op_alloc(st: &mut St, from_zero: bool) -> Result<(), Fail> {
    let class = if from_zero { "grow-from-zero" } else { "alloc" };
    let align = st.gen_align();
    let size = st.gen_size(false);
    let l0 = (ledger().n, ledger().allocs, ledger().deallocs, ledger().reallocs);
    let old_ptr = if from_zero {
        // the pointer a previous zero-sized request returned
        let z = unsafe { call_realloc(st, "zero", ptr::null_mut(), 0, align, 0) };
        take_bad("cabi_realloc", "zero")?;
        if z as usize != align {
            return Err(fail("cabi_realloc", "zero", "zero-size-result-is-not-align", [z as usize, align, 0, 0, 0, 0]));
        }
        z
    } else {
        ptr::null_mut()
    };
    let r = unsafe { call_realloc(st, class, old_ptr, 0, align, size) };
    take_bad("cabi_realloc", class)?;
    let e = check_fresh("cabi_realloc", class, r, size, align)?;
    if ledger().n != l0.0 + 1 {
        return Err(fail("cabi_realloc", class, "live-block-count-changed-unexpectedly", [r as usize, size, align, l0.0, ledger().n, 0]));
    }
    if e.size != size || e.align != align {
        st.oversized += 1;
    }
    let pat = st.pat();
    unsafe { stamp(r, size, pat) };
    st.bytes_stamped += size as u64;
    st.push_live(Blk { ptr: r, size, align, rec_size: e.size, rec_align: e.align, pat });
    Ok(())
}

unsafe fn op_zero(st: &mut St) -> Result<(), Fail> {
    let align = st.gen_align();
    let l0 = (ledger().n, ledger().allocs, ledger().deallocs, ledger().reallocs);
    // the host passes 0 for the old pointer; a guest-internal caller may pass anything
    let old = if st.rng.chance(1, 4) { align as *mut u8 } else { ptr::null_mut() };
    let r = unsafe { call_realloc(st, "zero", old, 0, align, 0) };
    take_bad("cabi_realloc", "zero")?;
    if r as usize != align {
        return Err(fail("cabi_realloc", "zero", "zero-size-result-is-not-align", [r as usize, align, 0, 0, 0, 0]));
    }
    let l1 = (ledger().n, ledger().allocs, ledger().deallocs, ledger().reallocs);
    if l0 != l1 {
        return Err(fail("cabi_realloc", "zero", "zero-size-request-touched-the-allocator", [r as usize, align, l1.0, l1.1 as usize, l1.2 as usize, l1.3 as usize]));
    }
    Ok(())
}

unsafe fn op_realloc(st: &mut St, mode: usize) -> Result<(), Fail> {
    let Some(i) = st.pick_live() else { return Ok(()) };
    let b = st.live[i].unwrap();
    if b.rec_size != b.size || b.rec_align != b.align {
        return Ok(()); // over-allocated block: the host's (old_len, align) would not be the layout; leave it
    }
    let (class, new): (&'static str, usize) = match mode {
        0 => {
            if b.size >= 1 << 20 {
                return Ok(());
            }
            let hi = core::cmp::min(1 << 20, core::cmp::max(b.size * 4, 64));
            let n = if st.rng.chance(1, 8) { b.size + 1 } else if st.rng.chance(1, 12) { 1 << 20 } else { st.rng.range(b.size + 1, hi) };
            ("grow", n)
        }
        1 => {
            if b.size <= 1 {
                return Ok(());
            }
            let n = if st.rng.chance(1, 8) { b.size - 1 } else if st.rng.chance(1, 8) { 1 } else { st.rng.range(1, b.size - 1) };
            ("shrink", n)
        }
        _ => ("same", b.size),
    };
    unsafe { verify_blk(st, &b, b.size, "harness", class, b.ptr)? };
    let n0 = ledger().n;
    let r = unsafe { call_realloc(st, class, b.ptr, b.size, b.align, new) };
    take_bad("cabi_realloc", class)?;
    let e = check_fresh("cabi_realloc", class, r, new, b.align)?;
    if ledger().n != n0 {
        return Err(fail("cabi_realloc", class, "live-block-count-changed-unexpectedly", [r as usize, new, b.align, n0, ledger().n, 0]));
    }
    if r != b.ptr && ledger().get(b.ptr as usize).is_some() {
        return Err(fail("cabi_realloc", class, "old-block-still-live-after-move", [r as usize, new, b.align, b.ptr as usize, b.size, 0]));
    }
    let keep = core::cmp::min(b.size, new);
    unsafe { verify_blk(st, &b, keep, "cabi_realloc", class, r)? };
    if e.size != new || e.align != b.align {
        st.oversized += 1;
    }
    unsafe { stamp(r, new, b.pat) };
    st.bytes_stamped += new as u64;
    st.live[i] = Some(Blk { ptr: r, size: new, align: b.align, rec_size: e.size, rec_align: e.align, pat: b.pat });
    Ok(())
}

/// The harness itself releases a block the way the owner of a returned block
/// would (dealloc with the layout the block is known by).
unsafe fn op_free(st: &mut St, i: usize) -> Result<(), Fail> {
    let b = st.live[i].take().unwrap();
    unsafe { verify_blk(st, &b, b.size, "harness", "free", b.ptr)? };
    st.counts[kind_ix("free")] += 1;
    unsafe { alloc::alloc::dealloc(b.ptr, Layout::from_size_align(b.rec_size, b.rec_align).unwrap()) };
    take_bad("harness", "free")?;
    Ok(())
}

unsafe fn op_cleanup(st: &mut St, mode: usize) -> Result<(), Fail> {
    let align = st.gen_align();
    if mode == 3 {
        // zero-sized scratch allocation: null pointer, nothing to clean up, allocator untouched
        let l0 = (ledger().n, ledger().allocs, ledger().deallocs, ledger().reallocs);
        let (p, c) = Cleanup::new(Layout::from_size_align(0, align).unwrap());
        st.record(Req { kind: "cleanup-zero", via_wrapper: false, old_ptr: 0, old_len: 0, align, new_len: 0, ret: p as usize });
        st.key("cleanup-zero", align, 0);
        take_bad("Cleanup::new", "zero-size")?;
        let some = c.is_some();
        core::mem::forget(c);
        if !p.is_null() || some {
            return Err(fail("Cleanup::new", "zero-size", "null-iff-zero-size", [p as usize, 0, align, some as usize, 0, 0]));
        }
        let l1 = (ledger().n, ledger().allocs, ledger().deallocs, ledger().reallocs);
        if l0 != l1 {
            return Err(fail("Cleanup::new", "zero-size", "zero-size-request-touched-the-allocator", [p as usize, align, l1.0, l1.1 as usize, l1.2 as usize, l1.3 as usize]));
        }
        return Ok(());
    }
    let kind: &'static str = ["cleanup-drop", "cleanup-hold", "cleanup-forget"][mode];
    let size = st.gen_size(mode != 2);
    let n0 = ledger().n;
    let (p, c) = Cleanup::new(Layout::from_size_align(size, align).unwrap());
    st.record(Req { kind, via_wrapper: false, old_ptr: 0, old_len: 0, align, new_len: size, ret: p as usize });
    st.key(kind, align, size);
    take_bad("Cleanup::new", "non-zero-size")?;
    let Some(c) = c else {
        return Err(fail("Cleanup::new", "non-zero-size", "null-iff-zero-size", [p as usize, size, align, 0, 0, 0]));
    };
    let e = match check_fresh("Cleanup::new", "non-zero-size", p, size, align) {
        Ok(e) => e,
        Err(f) => {
            core::mem::forget(c);
            return Err(f);
        }
    };
    if ledger().n != n0 + 1 {
        core::mem::forget(c);
        return Err(fail("Cleanup::new", "non-zero-size", "live-block-count-changed-unexpectedly", [p as usize, size, align, n0, ledger().n, 0]));
    }
    let pat = st.pat();
    unsafe { stamp(p, size, pat) };
    st.bytes_stamped += size as u64;
    let blk = Blk { ptr: p, size, align, rec_size: e.size, rec_align: e.align, pat };
    match mode {
        0 => unsafe { drop_cleanup(st, c, blk, "immediate") },
        1 => {
            let slot = st.pending.iter().position(|p| p.is_none());
            match slot {
                Some(s) => {
                    st.pending[s] = Some(Pending { c, blk });
                    let n = st.live_count() + st.pending.iter().filter(|p| p.is_some()).count();
                    if n > st.max_live {
                        st.max_live = n;
                    }
                    Ok(())
                }
                None => unsafe { drop_cleanup(st, c, blk, "immediate") },
            }
        }
        _ => {
            let l0 = (ledger().n, ledger().allocs, ledger().deallocs, ledger().reallocs);
            c.forget();
            take_bad("Cleanup::forget", "non-zero-size")?;
            let l1 = (ledger().n, ledger().allocs, ledger().deallocs, ledger().reallocs);
            if l0 != l1 || ledger().get(p as usize).is_none() {
                return Err(fail("Cleanup::forget", "non-zero-size", "forget-touched-the-allocator", [p as usize, size, align, l1.0, l1.2 as usize, 0]));
            }
            // ownership moved to the harness: keep using the block, free it by hand later
            if st.free_slot().is_some() {
                st.push_live(blk);
                Ok(())
            } else {
                unsafe { verify_blk(st, &blk, blk.size, "harness", "free", blk.ptr)? };
                unsafe { alloc::alloc::dealloc(blk.ptr, Layout::from_size_align(blk.rec_size, blk.rec_align).unwrap()) };
                take_bad("harness", "free")
            }
        }
    }
}

unsafe fn drop_cleanup(st: &mut St, c: Cleanup, blk: Blk, class: &'static str) -> Result<(), Fail> {
    unsafe { verify_blk(st, &blk, blk.size, "harness", class, blk.ptr)? };
    let (n0, d0, a0, r0) = (ledger().n, ledger().deallocs, ledger().allocs, ledger().reallocs);
    drop(c);
    take_bad("Cleanup::drop", class)?;
    let d = [blk.ptr as usize, blk.size, blk.align, ledger().n, ledger().deallocs as usize, d0 as usize];
    if ledger().get(blk.ptr as usize).is_some() || ledger().deallocs == d0 {
        return Err(fail("Cleanup::drop", class, "block-not-freed", d));
    }
    if ledger().deallocs != d0 + 1 || ledger().n + 1 != n0 || ledger().allocs != a0 || ledger().reallocs != r0 {
        return Err(fail("Cleanup::drop", class, "not-exactly-one-deallocation", d));
    }
    Ok(())
}

unsafe fn step(st: &mut St) -> Result<(), Fail> {
    let r = st.rng.below(100);
    let live = st.live_count();
    unsafe {
        match r {
            0..=21 => {
                if live < MAX_LIVE - 2 { op_alloc(st, false) } else { op_realloc(st, 1) }
            }
            22..=27 => op_zero(st),
            28..=43 => op_realloc(st, 0),
            44..=55 => op_realloc(st, 1),
            56..=57 => op_realloc(st, 2),
            58..=61 => {
                if live < MAX_LIVE - 2 { op_alloc(st, true) } else { op_zero(st) }
            }
            62..=73 => match st.pick_live() {
                Some(i) => op_free(st, i),
                None => op_alloc(st, false),
            },
            74..=81 => op_cleanup(st, 0),
            82..=86 => op_cleanup(st, 1),
            87..=90 => {
                if live < MAX_LIVE - 2 { op_cleanup(st, 2) } else { op_cleanup(st, 0) }
            }
            91..=94 => op_cleanup(st, 3),
            _ => {
                let n = st.pending.iter().filter(|p| p.is_some()).count();
                if n == 0 {
                    return op_cleanup(st, 1);
                }
                let mut k = st.rng.below(n);
                for i in 0..MAX_PENDING {
                    if st.pending[i].is_some() {
                        if k == 0 {
                            let p = st.pending[i].take().unwrap();
                            st.counts[kind_ix("cleanup-drop-held")] += 1;
                            return drop_cleanup(st, p.c, p.blk, "held");
                        }
                        k -= 1;
                    }
                }
                Ok(())
            }
        }
    }
}

unsafe fn run_shard(seed: u64, shard: u64, ops: usize, trace: usize) -> bool {
    let mix = Rng::new(seed.wrapping_mul(0x9E3779B97F4A7C15) ^ shard.wrapping_mul(0xD6E8FEB86659FD93).wrapping_add(0x632BE59BD9B4E019)).next();
    let mut st = St::new(mix, trace);
    outln!("BEGIN {}", shard);
    let l = ledger();
    let base = (l.n, l.allocs, l.deallocs, l.reallocs);
    let mut res = Ok(());
    while st.nreq < ops && res.is_ok() {
        res = unsafe { step(&mut st) };
    }
    // wind down: every held cleanup is dropped, every live block verified and released
    if res.is_ok() {
        for i in 0..MAX_PENDING {
            if let Some(p) = st.pending[i].take() {
                st.counts[kind_ix("cleanup-drop-held")] += 1;
                res = unsafe { drop_cleanup(&mut st, p.c, p.blk, "held") };
                if res.is_err() {
                    break;
                }
            }
        }
    }
    if res.is_ok() {
        for i in 0..MAX_LIVE {
            if st.live[i].is_some() {
                res = unsafe { op_free(&mut st, i) };
                if res.is_err() {
                    break;
                }
            }
        }
    }
    if res.is_ok() && ledger().n != base.0 {
        res = Err(fail("harness", "end", "blocks-left-live-at-end-of-history", [ledger().n, base.0, 0, 0, 0, 0]));
    }
    match res {
        Ok(()) => {
            let l = ledger();
            outf!("SHARD {{\"shard\":{},\"requests\":{},\"counts\":{{", shard, st.nreq);
            for (i, k) in KINDS.iter().enumerate() {
                outf!("{}\"{}\":{}", if i == 0 { "" } else { "," }, k, st.counts[i]);
            }
            outf!("}},\"via_wrapper\":{},\"bytes_verified\":{},\"bytes_stamped\":{},\"max_live\":{},\"oversized\":{},", st.via_wrapper, st.bytes_verified, st.bytes_stamped, st.max_live, st.oversized);
            outf!("\"allocator\":{{\"alloc\":{},\"dealloc\":{},\"realloc\":{}}},\"keys\":[", l.allocs - base.1, l.deallocs - base.2, l.reallocs - base.3);
            let mut first = true;
            for ix in 0..NKEYS {
                if st.keys[ix / 64] >> (ix % 64) & 1 == 1 {
                    outf!("{}{}", if first { "" } else { "," }, ix);
                    first = false;
                }
            }
            outln!("]}}");
            true
        }
        Err(f) => {
            outf!(
                "FAIL {{\"shard\":{},\"request\":{},\"fn\":\"{}\",\"class\":\"{}\",\"oracle\":\"{}\",\"detail\":[{},{},{},{},{},{}],\"recent\":[",
                shard, st.nreq, f.sig_fn, f.sig_class, f.sig_oracle, f.detail[0], f.detail[1], f.detail[2], f.detail[3], f.detail[4], f.detail[5]
            );
            let n = st.recent.len();
            let lo = st.nreq.saturating_sub(n);
            for k in lo..st.nreq {
                if let Some(r) = st.recent[k % n] {
                    out_req(if k == lo { "" } else { "," }, &r);
                }
            }
            outln!("]}}");
            // held cleanups are intentionally leaked here; the process stops
            for p in st.pending.iter_mut() {
                if let Some(p) = p.take() {
                    core::mem::forget(p.c);
                }
            }
            false
        }
    }
}

unsafe fn parse_arg(argv: *const *const u8, i: isize, argc: isize, default: u64) -> u64 {
    if i >= argc {
        return default;
    }
    unsafe {
        let mut p = *argv.offset(i);
        let mut v: u64 = 0;
        let mut any = false;
        while !p.is_null() && *p != 0 {
            let c = *p;
            if !(b'0'..=b'9').contains(&c) {
                return default;
            }
            v = v.wrapping_mul(10).wrapping_add((c - b'0') as u64);
            any = true;
            p = p.add(1);
        }
        if any { v } else { default }
    }
}

#[no_mangle]
fn miri_start(argc: isize, argv: *const *const u8) -> isize {
    unsafe {
        let seed = parse_arg(argv, 1, argc, 0);
        let lo = parse_arg(argv, 2, argc, 0);
        let hi = parse_arg(argv, 3, argc, lo + 1);
        let ops = parse_arg(argv, 4, argc, 300) as usize;
        let trace = parse_arg(argv, 5, argc, 0) as usize;
        outln!(
            "HELLO {{\"seed\":{},\"shard_lo\":{},\"shard_hi\":{},\"ops\":{},\"wrapper\":\"{}\",\"pointer_width\":{},\"debug_assertions\":{}}}",
            seed, lo, hi, ops, wrapper::WRAPPER_SYMBOL, usize::BITS, cfg!(debug_assertions)
        );
        for shard in lo..hi {
            if !run_shard(seed, shard, ops, trace) {
                return 0;
            }
        }
        outln!("DONE");
    }
    0
}
