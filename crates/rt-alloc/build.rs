// Build script of rt-alloc.
//  * finds the name of the versioned `extern "C"` wrapper around
//    `rt::cabi_realloc` in the working tree (VERIF_REPO) so that the harness can
//    call the real entry point the C shim forwards to;
//  * copies the generated `cabi_dealloc` runtime item (if the check handed one
//    in through RT_ALLOC_DEALLOC_SNIPPET) into OUT_DIR for `rt-dealloc`.
use std::{env, fs, path::PathBuf};

fn main() {
    let out = PathBuf::from(env::var_os("OUT_DIR").unwrap());
    println!("cargo:rerun-if-env-changed=VERIF_REPO");
    println!("cargo:rerun-if-env-changed=RT_ALLOC_DEALLOC_SNIPPET");
    println!("cargo:rustc-check-cfg=cfg(have_dealloc_snippet)");

    let repo = env::var("VERIF_REPO").unwrap_or_else(|_| "/repo".to_string());
    let src = format!("{repo}/crates/guest-rust/src/rt/wit_bindgen_cabi_realloc.rs");
    println!("cargo:rerun-if-changed={src}");
    let mut sym = None;
    if let Ok(text) = fs::read_to_string(&src) {
        if let Some(i) = text.find("fn cabi_realloc_wit_bindgen_") {
            let rest = &text[i + 3..];
            let end = rest
                .find(|c: char| !(c.is_ascii_alphanumeric() || c == '_'))
                .unwrap_or(rest.len());
            sym = Some(rest[..end].to_string());
        }
    }
    let wrapper = match sym {
        Some(s) => format!(
            "unsafe extern \"C\" {{ fn {s}(old_ptr: *mut u8, old_len: usize, align: usize, new_len: usize) -> *mut u8; }}\n\
             pub const WRAPPER_SYMBOL: &str = \"{s}\";\n\
             pub unsafe fn wrapper(p: *mut u8, o: usize, a: usize, n: usize) -> *mut u8 {{ unsafe {{ {s}(p, o, a, n) }} }}\n"
        ),
        None => "pub const WRAPPER_SYMBOL: &str = \"\";\n\
                 pub unsafe fn wrapper(p: *mut u8, o: usize, a: usize, n: usize) -> *mut u8 { unsafe { wit_bindgen::rt::cabi_realloc(p, o, a, n) } }\n"
            .to_string(),
    };
    fs::write(out.join("wrapper.rs"), wrapper).unwrap();

    let mut snippet = String::new();
    if let Ok(p) = env::var("RT_ALLOC_DEALLOC_SNIPPET") {
        println!("cargo:rerun-if-changed={p}");
        if let Ok(t) = fs::read_to_string(&p) {
            if t.contains("fn cabi_dealloc") {
                snippet = t;
                println!("cargo:rustc-cfg=have_dealloc_snippet");
            }
        }
    }
    fs::write(out.join("cabi_dealloc.rs"), snippet).unwrap();
}
