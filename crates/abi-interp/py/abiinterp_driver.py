"""Shared driver for the abi-interp harness binaries (C01..C04)."""
import json
import os
import vcommon


def run_bin(rep, bin_name, tier, seed, replay, timeout, miri_shard=False, extra_args=None):
    bindir = vcommon.cargo_build("abi-interp", bins=[bin_name])
    scratch = vcommon.scratch_dir(bin_name)
    try:
        out = os.path.join(scratch, "r.json")
        cmd = [os.path.join(bindir, bin_name), "--seed", str(seed), "--tier", tier, "--out", out]
        if replay is not None:
            rp = os.path.join(scratch, "replay.json")
            with open(rp, "w") as f:
                json.dump(replay, f)
            cmd += ["--replay", rp]
        if extra_args:
            cmd += extra_args
        vcommon.run_harness(rep, cmd, timeout=timeout, env=vcommon.base_env(), out_json=out, what="%s harness" % bin_name)
        if miri_shard and replay is None:
            miri(rep, bin_name, seed, scratch)
    finally:
        vcommon.rm_scratch(scratch)


def miri(rep, bin_name, seed, scratch):
    """A small shard of the harness itself under Miri (UB in the checker would
    make its verdicts worthless).  Any failure is inconclusive, never a verdict."""
    out = os.path.join(scratch, "miri.json")
    env = vcommon.base_env({"MIRIFLAGS": "-Zmiri-disable-isolation"})
    env["CARGO_TARGET_DIR"] = os.path.join(vcommon.TARGET, "miri")
    cmd = ["cargo", "+nightly", "miri", "run", "--offline", "-p", "abi-interp", "--bin", bin_name, "--",
           "--seed", str(seed), "--tier", "miri", "--out", out]
    rc, o, e = vcommon.sh(cmd, timeout=1500, env=env, cwd=vcommon.CRATES)
    if rc is None:
        rep.inconc("miri shard of %s: watchdog fired" % bin_name)
        return
    if rc != 0:
        rep.inconc("miri shard of %s failed rc=%s: %s" % (bin_name, rc, (e or o)[-400:].replace("\n", " | ")))
        return
    try:
        with open(out) as f:
            d = json.load(f)
    except Exception:
        rep.inconc("miri shard of %s wrote no report" % bin_name)
        return
    rep.extra["miri_shard_evaluations"] = int(d.get("evaluations", 0))
    rep.extra["miri_shard_violations"] = len(d.get("violations", []))
    native = set(v.get("signature") for v in rep.violations)
    extra = [v.get("signature", "?") for v in d.get("violations", []) if v.get("signature") not in native]
    if extra:
        # the shard's cases are a subset of what runs natively: a violation seen only
        # under Miri means the harness behaves differently there
        rep.inconc("miri shard of %s reports violations the native run does not (%s)" % (bin_name, ", ".join(extra[:3])))
    for i in d.get("inconclusive", []):
        rep.inconc("miri shard of %s: %s" % (bin_name, i.get("why")), i.get("count", 1))
