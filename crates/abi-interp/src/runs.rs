//! Recording the public entry points of `wit_bindgen_core::abi` into IR.
use crate::corpus::{catch, panic_class, panic_site};
use crate::ir::*;
use std::panic::AssertUnwindSafe;
use wit_bindgen_core::abi::{self, AbiVariant, LiftLower};
use wit_bindgen_core::wit_parser::{Function, Resolve, Type};

#[derive(Clone, Debug)]
pub struct Panicked {
    pub msg: String,
    pub loc: String,
}

impl Panicked {
    pub fn site(&self) -> String {
        panic_site(&self.loc)
    }
    pub fn class(&self) -> String {
        panic_class(&self.msg)
    }
    /// explicit "not supported" markers
    pub fn is_explicit_unsupported(&self) -> bool {
        self.msg.starts_with("not yet implemented")
            || self.msg.starts_with("not implemented")
            || self.msg.starts_with("internal error: entered unreachable code")
    }
    pub fn sig(&self) -> String {
        format!("panic:{}:{}", self.site(), self.class())
    }
}

pub enum RecErr {
    Panic(Panicked),
    /// push_block / finish_block / emit protocol broken
    Protocol(String),
}

impl RecErr {
    pub fn sig(&self) -> String {
        match self {
            RecErr::Panic(p) => p.sig(),
            RecErr::Protocol(_) => "recorder-protocol".into(),
        }
    }
    pub fn text(&self) -> String {
        match self {
            RecErr::Panic(p) => format!("panic at {} ({}): {}", p.site(), p.loc, p.msg),
            RecErr::Protocol(s) => format!("block protocol: {s}"),
        }
    }
}

fn guarded<T>(resolve: &Resolve, policy: CanonPolicy, f: impl FnOnce(&mut Recorder) -> T) -> Result<(Program, T), RecErr> {
    let mut rec = Recorder::new(resolve, policy);
    let r = catch(AssertUnwindSafe(|| f(&mut rec)));
    match r {
        Ok(t) => match rec.finish() {
            Ok(p) => Ok((p, t)),
            Err(e) => Err(RecErr::Protocol(e)),
        },
        Err((msg, loc)) => Err(RecErr::Panic(Panicked { msg, loc })),
    }
}

pub struct LowerFlat {
    pub prog: Program,
    pub value: Op,
    pub results: Vec<Op>,
}

pub fn record_lower_flat(resolve: &Resolve, ty: &Type, policy: CanonPolicy) -> Result<LowerFlat, RecErr> {
    let (prog, (value, results)) = guarded(resolve, policy, |rec| {
        let value = rec.input();
        let results = abi::lower_flat(resolve, rec, value, ty);
        (value, results)
    })?;
    Ok(LowerFlat { prog, value, results })
}

pub struct LowerMem {
    pub prog: Program,
    pub addr: Op,
    pub value: Op,
}

pub fn record_lower_to_memory(resolve: &Resolve, ty: &Type, policy: CanonPolicy) -> Result<LowerMem, RecErr> {
    let (prog, (addr, value)) = guarded(resolve, policy, |rec| {
        let addr = rec.input();
        let value = rec.input();
        abi::lower_to_memory(resolve, rec, addr, value, ty);
        (addr, value)
    })?;
    Ok(LowerMem { prog, addr, value })
}

pub struct LiftMem {
    pub prog: Program,
    pub addr: Op,
    pub result: Op,
}

pub fn record_lift_from_memory(resolve: &Resolve, ty: &Type, policy: CanonPolicy) -> Result<LiftMem, RecErr> {
    let (prog, (addr, result)) = guarded(resolve, policy, |rec| {
        let addr = rec.input();
        let result = abi::lift_from_memory(resolve, rec, addr, ty);
        (addr, result)
    })?;
    Ok(LiftMem { prog, addr, result })
}

pub fn record_call(resolve: &Resolve, variant: AbiVariant, ll: LiftLower, func: &Function, async_: bool, policy: CanonPolicy) -> Result<Program, RecErr> {
    let (prog, ()) = guarded(resolve, policy, |rec| abi::call(resolve, variant, ll, func, rec, async_))?;
    Ok(prog)
}

pub fn record_post_return(resolve: &Resolve, func: &Function, policy: CanonPolicy) -> Result<Program, RecErr> {
    let (prog, ()) = guarded(resolve, policy, |rec| abi::post_return(resolve, func, rec))?;
    Ok(prog)
}

pub struct Dealloc {
    pub prog: Program,
    pub operands: Vec<Op>,
}

pub fn record_dealloc(resolve: &Resolve, types: &[Type], noperands: usize, indirect: bool, own: bool, policy: CanonPolicy) -> Result<Dealloc, RecErr> {
    let (prog, operands) = guarded(resolve, policy, |rec| {
        let operands: Vec<Op> = (0..noperands).map(|_| rec.input()).collect();
        if own {
            abi::deallocate_lists_and_own_in_types(resolve, types, &operands, indirect, rec);
        } else {
            abi::deallocate_lists_in_types(resolve, types, &operands, indirect, rec);
        }
        operands
    })?;
    Ok(Dealloc { prog, operands })
}

pub fn variant_name(v: AbiVariant) -> &'static str {
    match v {
        AbiVariant::GuestImport => "GuestImport",
        AbiVariant::GuestExport => "GuestExport",
        AbiVariant::GuestImportAsync => "GuestImportAsync",
        AbiVariant::GuestExportAsync => "GuestExportAsync",
        AbiVariant::GuestExportAsyncStackful => "GuestExportAsyncStackful",
    }
}

pub const VARIANTS: [AbiVariant; 5] = [
    AbiVariant::GuestImport,
    AbiVariant::GuestExport,
    AbiVariant::GuestImportAsync,
    AbiVariant::GuestExportAsync,
    AbiVariant::GuestExportAsyncStackful,
];

pub fn ll_name(l: LiftLower) -> &'static str {
    match l {
        LiftLower::LiftArgsLowerResults => "lift",
        LiftLower::LowerArgsLiftResults => "lower",
    }
}
