//! Shared harness plumbing: report merging across worker threads, replay files,
//! signature helpers.
use cabi_ref::{Abi, Shape, VariantKind};
use serde_json::Value;
use vkit::Report;
use wit_bindgen_core::wit_parser::Type;

pub fn merge(into: &mut Report, from: Report) {
    into.evaluations += from.evaluations;
    for d in from.distinct {
        if into.distinct.len() < 200_000 {
            into.distinct.insert(d);
        }
    }
    for s in from.samples {
        if into.samples.len() < into.max_samples {
            into.samples.push(s);
        }
    }
    for v in from.violations {
        let sig = v["signature"].as_str().unwrap_or("?").to_string();
        let what = v["what"].as_str().unwrap_or("").to_string();
        into.violation(&sig, &what, v["replay"].clone());
    }
    for (k, n) in from.inconclusive {
        *into.inconclusive.entry(k).or_insert(0) += n;
    }
    for (k, n) in from.counters {
        *into.counters.entry(k).or_insert(0) += n;
    }
    for (k, v) in from.extra {
        match (into.extra.get_mut(&k), v) {
            (Some(Value::Array(a)), Value::Array(b)) => {
                for x in b {
                    if a.len() < 40 && !a.contains(&x) {
                        a.push(x);
                    }
                }
            }
            (Some(Value::Number(a)), Value::Number(b)) => {
                let s = a.as_u64().unwrap_or(0) + b.as_u64().unwrap_or(0);
                *into.extra.get_mut(&k).unwrap() = Value::from(s);
            }
            (None, v) => {
                into.extra.insert(k, v);
            }
            _ => {}
        }
    }
    for a in from.assumptions {
        into.assume(&a);
    }
}

/// push a value onto a bounded list in `extra`
pub fn extra_push(rep: &mut Report, key: &str, v: Value, max: usize) {
    let e = rep.extra.entry(key.to_string()).or_insert_with(|| Value::Array(vec![]));
    if let Value::Array(a) = e {
        if a.len() < max && !a.contains(&v) {
            a.push(v);
        }
    }
}

/// coarse, stable name of the top-level shape of a type (for signatures)
pub fn top_kind(abi: &Abi, ty: &Type) -> String {
    match abi.shape(ty) {
        Shape::Bool => "bool".into(),
        Shape::U8 => "u8".into(),
        Shape::U16 => "u16".into(),
        Shape::U32 => "u32".into(),
        Shape::U64 => "u64".into(),
        Shape::S8 => "s8".into(),
        Shape::S16 => "s16".into(),
        Shape::S32 => "s32".into(),
        Shape::S64 => "s64".into(),
        Shape::F32 => "f32".into(),
        Shape::F64 => "f64".into(),
        Shape::Char => "char".into(),
        Shape::String => "string".into(),
        Shape::Handle(k) => format!("handle-{k:?}").to_lowercase(),
        Shape::List(_) => "list".into(),
        Shape::FixedList(..) => "fixed-list".into(),
        Shape::Map(..) => "map".into(),
        Shape::Record(_) => "record".into(),
        Shape::Variant(_, k) => match k {
            VariantKind::Variant => "variant".into(),
            VariantKind::Enum => "enum".into(),
            VariantKind::Option => "option".into(),
            VariantKind::Result => "result".into(),
        },
        Shape::Flags(n) => {
            if n == 0 || n > 32 {
                format!("flags{n}")
            } else {
                "flags".into()
            }
        }
        Shape::_P(_) => unreachable!(),
    }
}

/// Load the `replay` object out of a replay file written by `vcommon.finish`
/// (or a bare replay object).
pub fn load_replay(path: &str) -> Option<Value> {
    let s = std::fs::read_to_string(path).ok()?;
    let v: Value = serde_json::from_str(&s).ok()?;
    match v.get("replay") {
        Some(r) if r.is_object() && !r.as_object().unwrap().is_empty() => Some(r.clone()),
        _ => Some(v),
    }
}

/// Run `f(worker_index)` on `n` threads and collect the results.
pub fn parallel<T: Send>(n: usize, f: impl Fn(usize) -> T + Sync) -> Vec<T> {
    std::thread::scope(|s| {
        let hs: Vec<_> = (0..n)
            .map(|i| {
                let f = &f;
                std::thread::Builder::new().stack_size(64 << 20).spawn_scoped(s, move || f(i)).unwrap()
            })
            .collect();
        hs.into_iter().map(|h| h.join().expect("worker thread panicked")).collect()
    })
}

pub fn nthreads(tier: &str) -> usize {
    if tier == "miri" {
        1
    } else {
        std::thread::available_parallelism().map(|n| n.get()).unwrap_or(4).min(16)
    }
}

pub fn shorten(s: &str, n: usize) -> String {
    if s.len() <= n {
        s.to_string()
    } else {
        let mut e = n;
        while !s.is_char_boundary(e) {
            e -= 1;
        }
        format!("{}…", &s[..e])
    }
}
