//! abi-interp: an interpreting `Bindgen` (records the instruction stream of
//! `wit_bindgen_core::abi` as a small IR) plus an abstract machine executing that
//! IR on concrete values, a checked linear memory / allocator ledger, and the
//! comparison helpers used by the C01..C04 harness binaries.
pub mod cmp;
pub mod corpus;
pub mod harness;
pub mod ir;
pub mod machine;
pub mod mem;
pub mod runs;
