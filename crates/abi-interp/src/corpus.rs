//! Inputs: boundary corpus, random valid worlds, synthetic type enumerations.
use serde_json::{json, Value};
use vkit::Rng;
use wit_bindgen_core::wit_parser::{
    Docs, Flag, Flags, Function, FunctionKind, Param, Resolve, Stability, Tuple, Type, TypeDef, TypeDefKind, TypeOwner, WorldItem,
};

pub struct Unit {
    pub label: String,
    /// WIT text (None for programmatically built types)
    pub wit: Option<String>,
    /// how to rebuild a synthetic unit
    pub synthetic: Option<Value>,
    pub resolve: Resolve,
    /// extra (path, type) pairs that are not reachable from any function
    pub extra_types: Vec<(String, Type)>,
    pub tags: Vec<String>,
}

pub struct FuncRef {
    pub path: String,
    pub func: Function,
}

impl Unit {
    pub fn from_wit(label: &str, wit: &str) -> Result<Unit, String> {
        let mut resolve = Resolve::default();
        resolve.all_features = true;
        resolve.push_str("unit.wit", wit).map_err(|e| format!("{e:#}"))?;
        Ok(Unit { label: label.to_string(), wit: Some(wit.to_string()), synthetic: None, resolve, extra_types: vec![], tags: vec![] })
    }

    pub fn describe(&self) -> Value {
        json!({"unit": self.label, "wit": self.wit, "synthetic": self.synthetic})
    }

    /// every function of every interface and world
    pub fn funcs(&self) -> Vec<FuncRef> {
        let mut out = vec![];
        for (_, iface) in self.resolve.interfaces.iter() {
            let iname = iface.name.clone().unwrap_or_else(|| "anon".into());
            for (fname, f) in iface.functions.iter() {
                out.push(FuncRef { path: format!("{iname}#{fname}"), func: f.clone() });
            }
        }
        for (_, w) in self.resolve.worlds.iter() {
            for (dir, items) in [("import", &w.imports), ("export", &w.exports)] {
                for (_, item) in items.iter() {
                    if let WorldItem::Function(f) = item {
                        out.push(FuncRef { path: format!("{}:{dir}#{}", w.name, f.name), func: f.clone() });
                    }
                }
            }
        }
        out
    }

    /// value types to exercise: params/results of every function, every type
    /// definition, and the unit's extra types
    pub fn value_types(&self) -> Vec<(String, Type)> {
        let mut out: Vec<(String, Type)> = vec![];
        let mut seen = std::collections::BTreeSet::new();
        let mut push = |path: String, t: Type, out: &mut Vec<(String, Type)>| {
            if !crate::cmp::is_value_type(&self.resolve, &t) {
                return;
            }
            let key = format!("{t:?}");
            if seen.insert(key) {
                out.push((path, t));
            }
        };
        for f in self.funcs() {
            for (i, p) in f.func.params.iter().enumerate() {
                push(format!("{}/param{i}", f.path), p.ty, &mut out);
            }
            if let Some(r) = f.func.result {
                push(format!("{}/result", f.path), r, &mut out);
            }
        }
        for (id, td) in self.resolve.types.iter() {
            push(format!("type{}:{}", id.index(), td.name.clone().unwrap_or_default()), Type::Id(id), &mut out);
        }
        for (p, t) in &self.extra_types {
            push(p.clone(), *t, &mut out);
        }
        out
    }

    pub fn find_type(&self, path: &str) -> Option<Type> {
        if let Some(p) = prim_by_name(path) {
            return Some(p);
        }
        self.value_types().into_iter().find(|(p, _)| p == path).map(|(_, t)| t)
    }

    pub fn find_func(&self, path: &str) -> Option<Function> {
        self.funcs().into_iter().find(|f| f.path == path).map(|f| f.func)
    }
}

pub const PRIMS: &[(&str, Type)] = &[
    ("bool", Type::Bool),
    ("u8", Type::U8),
    ("s8", Type::S8),
    ("u16", Type::U16),
    ("s16", Type::S16),
    ("u32", Type::U32),
    ("s32", Type::S32),
    ("u64", Type::U64),
    ("s64", Type::S64),
    ("f32", Type::F32),
    ("f64", Type::F64),
    ("char", Type::Char),
    ("string", Type::String),
    ("error-context", Type::ErrorContext),
];

pub fn prim_by_name(n: &str) -> Option<Type> {
    PRIMS.iter().find(|(k, _)| *k == n.strip_prefix("prim:").unwrap_or("\0")).map(|(_, t)| *t)
}

pub fn mk_func(name: &str, params: &[Type], result: Option<Type>, async_: bool) -> Function {
    Function {
        name: name.to_string(),
        kind: if async_ { FunctionKind::AsyncFreestanding } else { FunctionKind::Freestanding },
        params: params.iter().enumerate().map(|(i, t)| Param { name: format!("p{i}"), ty: *t, span: Default::default() }).collect(),
        result,
        docs: Docs::default(),
        stability: Stability::Unknown,
        span: Default::default(),
        external_id: None,
    }
}

fn mk_typedef(name: Option<String>, kind: TypeDefKind) -> TypeDef {
    TypeDef { name, kind, owner: TypeOwner::None, docs: Docs::default(), stability: Stability::Unknown, span: Default::default(), external_id: None }
}

pub fn add_type(resolve: &mut Resolve, name: Option<&str>, kind: TypeDefKind) -> Type {
    Type::Id(resolve.types.alloc(mk_typedef(name.map(|s| s.to_string()), kind)))
}

/// flags with 0..=65 members (built programmatically: 0 and >32 are outside the
/// component-encodable domain), alone and wrapped in tuple / list / option.
pub fn flags_unit() -> Unit {
    let mut u = Unit::from_wit("synthetic-flags", "package v:s;\ninterface i { f: func(); }\nworld w { import i; }\n").unwrap();
    u.wit = None;
    u.synthetic = Some(json!({"kind": "flags-0-65"}));
    for n in 0..=65usize {
        let flags = Flags { flags: (0..n).map(|i| Flag { name: format!("b{i}"), docs: Docs::default(), span: Default::default() }).collect() };
        let f = add_type(&mut u.resolve, Some(&format!("fl{n}")), TypeDefKind::Flags(flags));
        u.extra_types.push((format!("flags{n}"), f));
        let t = add_type(&mut u.resolve, None, TypeDefKind::Tuple(Tuple { types: vec![Type::U8, f, Type::U8] }));
        u.extra_types.push((format!("flags{n}/tuple"), t));
        if [0, 1, 8, 9, 16, 17, 32, 33, 64, 65].contains(&n) {
            let l = add_type(&mut u.resolve, None, TypeDefKind::List(f));
            u.extra_types.push((format!("flags{n}/list"), l));
            let o = add_type(&mut u.resolve, None, TypeDefKind::Option(f));
            u.extra_types.push((format!("flags{n}/option"), o));
            let r = add_type(&mut u.resolve, None, TypeDefKind::Tuple(Tuple { types: vec![f, Type::U64, f] }));
            u.extra_types.push((format!("flags{n}/tuple64"), r));
        }
    }
    u
}

pub const JOIN_PAYLOADS: &[(&str, &str)] = &[
    ("n", ""),
    ("u32", "u32"),
    ("f32", "f32"),
    ("u64", "u64"),
    ("f64", "f64"),
    ("str", "string"),
    ("t-u32-u32", "tuple<u32, u32>"),
    ("t-u8-f32", "tuple<u8, f32>"),
    ("t-f32-f32", "tuple<f32, f32>"),
    ("t-u64-u64", "tuple<u64, u64>"),
    ("t-f64-f64", "tuple<f64, f64>"),
    ("t-u8-str", "tuple<u8, string>"),
];

/// every 2-case and 3-case variant over `JOIN_PAYLOADS`: all joinable ordered
/// pairs of flat types arise
pub fn joins_unit() -> Unit {
    let mut s = String::from("package v:j;\ninterface i {\n");
    let case = |name: &str, (_, ty): &(&str, &str)| if ty.is_empty() { name.to_string() } else { format!("{name}({ty})") };
    for a in JOIN_PAYLOADS {
        for b in JOIN_PAYLOADS {
            s.push_str(&format!("  variant j2-{}-{} {{ {}, {} }}\n", a.0, b.0, case("a", a), case("b", b)));
            for c in JOIN_PAYLOADS {
                if c.0 == "n" {
                    continue;
                }
                s.push_str(&format!("  variant j3-{}-{}-{} {{ {}, {}, {} }}\n", a.0, b.0, c.0, case("a", a), case("b", b), case("c", c)));
            }
        }
    }
    // nested: a joined variant as payload of another variant (PointerOrI64 as a source type)
    s.push_str("  variant inner-p64 { a(string), b(u64) }\n");
    s.push_str("  variant inner-i64 { a(f32), b(u64) }\n");
    s.push_str("  variant nest-p64-a { a(inner-p64), b(tuple<u8, f64, f32>) }\n");
    s.push_str("  variant nest-p64-b { a(tuple<u32, u32, u32>), b(inner-p64), c(tuple<f32, string>) }\n");
    s.push_str("  variant nest-i64 { a(inner-i64), b(tuple<u8, string>), c(option<inner-i64>) }\n");
    s.push_str("  f: func();\n}\nworld w { import i; }\n");
    let mut u = Unit::from_wit("synthetic-joins", &s).expect("joins unit parses");
    u.synthetic = Some(json!({"kind": "joins"}));
    u.wit = None;
    u
}

pub fn rebuild_synthetic(desc: &Value) -> Option<Unit> {
    match desc.get("kind")?.as_str()? {
        "flags-0-65" => Some(flags_unit()),
        "joins" => Some(joins_unit()),
        "limits" => Some(limits_unit()),
        "dealloc" => Some(dealloc_unit()),
        "miri" => Some(miri_unit()),
        _ => None,
    }
}

/// signatures built to land on 15/16/17 flat params, 3/4/5 async params and
/// 0/1/2 flat results, with mixed types
pub fn limits_unit() -> Unit {
    let mut s = String::from("package v:l;\ninterface i {\n  record r3 { a: u8, b: u64, c: f32 }\n  variant v2 { a(u32), b(f64) }\n  resource res { constructor(a: u32); m: func(a: u32) -> u32; big: func(a: u64, b: u64, c: u64, d: u64, e: u64, f: u64, g: u64, h: u64, i: u64, j: u64, k: u64, l: u64, m: u64, n: u64, o: u64) -> u64; big16: func(a: u64, b: u64, c: u64, d: u64, e: u64, f: u64, g: u64, h: u64, i: u64, j: u64, k: u64, l: u64, m: u64, n: u64, o: u64, p: u64) -> string; }\n");
    let results = ["", " -> u32", " -> f64", " -> tuple<u32, u32>", " -> string", " -> r3", " -> option<u8>", " -> result<u64, string>", " -> list<r3>"];
    let mut k = 0;
    for n in [0usize, 1, 2, 3, 4, 5, 8, 14, 15, 16, 17, 18, 20] {
        for shape in 0..4 {
            // build a param list with exactly n flat values out of mixed types
            let mut parts: Vec<String> = vec![];
            let mut left = n;
            let mut i = 0;
            while left > 0 {
                let (t, c) = match (shape, left) {
                    (1, l) if l >= 2 && i % 2 == 0 => ("string", 2),
                    (2, l) if l >= 3 && i % 3 == 0 => ("r3", 3),
                    (2, l) if l >= 2 => ("v2", 2),
                    (3, l) if l >= 2 && i % 2 == 1 => ("option<f32>", 2),
                    (3, _) => (["u8", "s64", "f32", "char", "bool", "f64"][i % 6], 1),
                    _ => ("u32", 1),
                };
                parts.push(format!("p{i}: {t}"));
                left -= c;
                i += 1;
            }
            let ps = parts.join(", ");
            for (ri, r) in results.iter().enumerate() {
                if shape > 0 && ri % 3 != (k % 3) {
                    continue;
                }
                k += 1;
                s.push_str(&format!("  f{k}-n{n}-s{shape}-r{ri}: func({ps}){r};\n"));
                s.push_str(&format!("  a{k}-n{n}-s{shape}-r{ri}: async func({ps}){r};\n"));
            }
        }
    }
    for n in [1usize, 15, 16, 17] {
        let t = (0..n).map(|_| "u32").collect::<Vec<_>>().join(", ");
        s.push_str(&format!("  r{n}: func() -> tuple<{t}>;\n  ar{n}: async func() -> tuple<{t}>;\n"));
        s.push_str(&format!("  rp{n}: func(a: string) -> tuple<{t}>;\n  arp{n}: async func(a: list<string>) -> tuple<{t}>;\n"));
    }
    s.push_str("  own-res: func(a: res, b: borrow<res>) -> res;\n");
    s.push_str("}\nworld w { import i; export i; }\n");
    let mut u = Unit::from_wit("synthetic-limits", &s).expect("limits unit parses");
    u.synthetic = Some(json!({"kind": "limits"}));
    u.wit = None;
    u
}

/// result / payload / parameter shapes for the cleanup checks (C03)
pub fn dealloc_unit() -> Unit {
    let s = r#"package v:d;
interface i {
  resource res { constructor(a: u32); }
  record rs { a: string, b: u32, c: list<string> }
  variant vs { a(string), b(u32), c(list<list<u8>>), d }
  variant vh { a(res), b(string), c(tuple<res, list<res>>) }
  record deep { a: option<list<option<string>>>, b: result<list<u8>, string>, c: tuple<u8, list<rs>> }
  flags fl { a, b, c }
  enum en { a, b }
  d1: func() -> string;
  d2: func() -> list<string>;
  d3: func() -> list<list<list<u8>>>;
  d4: func() -> rs;
  d5: func() -> vs;
  d6: func() -> option<string>;
  d7: func() -> result<list<u16>, string>;
  d8: func() -> deep;
  d9: func() -> map<string, list<u8>>;
  d10: func() -> map<u8, map<u16, string>>;
  d11: func() -> tuple<u8, u64>;
  d12: func() -> u32;
  d13: func() -> list<u8>;
  d14: func() -> tuple<string, string, u8>;
  d15: func() -> list<rs>;
  d16: func() -> list<vs>;
  d17: func() -> option<option<list<u64>>>;
  d18: func() -> result<_, string>;
  d19: func() -> result<string>;
  d20: func() -> tuple<fl, en, string>;
  d21: func() -> list<tuple<string, u8, string>>;
  h1: func() -> res;
  h2: func() -> list<res>;
  h3: func() -> vh;
  h4: func() -> tuple<res, string, option<res>>;
  h5: func() -> future<string>;
  h6: func() -> tuple<stream<u8>, list<future<u8>>, string>;
  h7: func() -> result<res, string>;
  e1: func() -> error-context;
  e2: func() -> result<u8, error-context>;
  e3: func() -> tuple<error-context, string>;
  e4: func() -> option<error-context>;
  x1: func() -> list<string, 2>;
  x2: func() -> list<list<u8>, 3>;
  x3: func() -> tuple<u8, list<string, 2>>;
  x4: func() -> list<u32, 4>;
  x5: func() -> list<list<string, 2>>;
  x6: func() -> option<list<string, 1>>;
  x7: func() -> tuple<list<u8, 2>, string>;
  p1: func(a: string, b: list<u8>);
  p2: func(a: rs, b: vs);
  p3: func(a: list<string>, b: u8, c: u8);
  p4: func(a: res, b: borrow<res>, c: string);
  p5: func(a: string, b: string, c: string);
  p6: func(a: list<res>, b: future<u8>);
  p7: func(a: list<u8, 2>, b: string);
  p8: func(a: list<string, 2>);
  p9: func(a: u8, b: u16, c: u32, d: u64);
  p10: func(a: vh, b: u8);
  p11: func(a: option<string>, b: u8);
  p12: func(a: list<borrow<res>>);
  p13: func(a: error-context, b: string);
}
world w { import i; export i; }
"#;
    let mut u = Unit::from_wit("synthetic-dealloc", s).expect("dealloc unit parses");
    u.synthetic = Some(json!({"kind": "dealloc"}));
    u.wit = None;
    u
}

/// a deliberately tiny unit for the Miri shard of the harness (WIT parsing under
/// Miri is slow)
pub fn miri_unit() -> Unit {
    let s = r#"package v:m;
interface i {
  variant v { a(u8), b(u64), c(string), d(f32), e }
  record r { a: u8, b: u64, c: list<u16>, d: option<f64> }
  flags fl { a, b, c, d, e, f, g, h, i }
  m1: func(a: v, b: r) -> result<list<string>, v>;
  m2: func(a: map<u8, string>, b: list<u8, 2>, c: fl) -> tuple<s16, char, bool>;
  m3: func(a: u64, b: u64, c: u64, d: u64, e: u64, f: u64, g: u64, h: u64, i: u64, j: u64, k: u64, l: u64, m: u64, n: u64, o: u64, p: u64, q: string) -> string;
  m4: async func(a: string, b: u32, c: u32, d: u32, e: f32) -> tuple<u32, string>;
}
world w { import i; export i; }
"#;
    let mut u = Unit::from_wit("synthetic-miri", s).expect("miri unit parses");
    u.synthetic = Some(json!({"kind": "miri"}));
    u.wit = None;
    u
}

pub fn boundary_units() -> Vec<Unit> {
    let mut out = vec![];
    for (name, wit) in witgen::boundary_corpus() {
        match Unit::from_wit(&format!("boundary-{name}"), &wit) {
            Ok(u) => out.push(u),
            Err(e) => eprintln!("boundary corpus {name} does not parse: {e}"),
        }
    }
    out
}

/// `n` random valid worlds (all features on), generated on `threads` threads
/// (each world has its own forked generator, so the result does not depend on
/// the thread count)
pub fn random_units(rng: &mut Rng, n: usize, stats: &mut (u64, u64)) -> Vec<Unit> {
    let forks: Vec<Rng> = (0..n).map(|i| rng.fork(i as u64)).collect();
    let threads = std::thread::available_parallelism().map(|x| x.get()).unwrap_or(4).min(16).min(n.max(1));
    let one = |i: usize, mut r: Rng| -> (Option<Unit>, u64) {
        let cfg = witgen::Cfg {
            resources: true,
            async_: true,
            error_context: true,
            fixed_lists: true,
            maps: true,
            max_depth: if i % 3 == 0 { 4 } else { 3 },
            ifaces: 3,
            funcs: 5,
            types: 6,
            max_params: 6,
            ..Default::default()
        };
        match witgen::generate_valid(&mut r, &cfg) {
            Some((w, _resolve, _id, discarded)) => match Unit::from_wit(&format!("random-{i}"), &w.wit) {
                Ok(mut u) => {
                    u.tags = w.tags.iter().cloned().collect();
                    (Some(u), discarded as u64)
                }
                Err(_) => (None, discarded as u64 + 1),
            },
            None => (None, 40),
        }
    };
    let results: Vec<Vec<(usize, Option<Unit>, u64)>> = if threads <= 1 {
        vec![forks.into_iter().enumerate().map(|(i, r)| { let (u, d) = one(i, r); (i, u, d) }).collect()]
    } else {
        crate::harness::parallel(threads, |t| {
            forks.iter().enumerate().filter(|(i, _)| i % threads == t).map(|(i, r)| { let (u, d) = one(i, r.clone()); (i, u, d) }).collect()
        })
    };
    let mut all: Vec<(usize, Option<Unit>, u64)> = results.into_iter().flatten().collect();
    all.sort_by_key(|x| x.0);
    let mut out = vec![];
    for (_, u, d) in all {
        stats.1 += d;
        if let Some(u) = u {
            stats.0 += 1;
            out.push(u);
        }
    }
    out
}

pub fn unit_from_replay(r: &Value) -> Option<Unit> {
    if let Some(w) = r.get("wit").and_then(|w| w.as_str()) {
        return Unit::from_wit(r.get("unit").and_then(|u| u.as_str()).unwrap_or("replay"), w).ok();
    }
    r.get("synthetic").and_then(rebuild_synthetic)
}

// ------------------------------------------------------------------ panics

thread_local! {
    static LAST_PANIC: std::cell::RefCell<Option<(String, String)>> = const { std::cell::RefCell::new(None) };
}

/// Run `f`, capturing a panic as (message, file:line).  Thread-safe.
pub fn catch<F: FnOnce() -> R + std::panic::UnwindSafe, R>(f: F) -> Result<R, (String, String)> {
    static INIT: std::sync::Once = std::sync::Once::new();
    INIT.call_once(|| {
        std::panic::set_hook(Box::new(|info| {
            let msg = if let Some(s) = info.payload().downcast_ref::<&str>() {
                s.to_string()
            } else if let Some(s) = info.payload().downcast_ref::<String>() {
                s.clone()
            } else {
                "<non-string panic>".to_string()
            };
            let loc = info.location().map(|l| format!("{}:{}", l.file(), l.line())).unwrap_or_default();
            LAST_PANIC.with(|p| *p.borrow_mut() = Some((msg, loc)));
        }));
    });
    match std::panic::catch_unwind(f) {
        Ok(r) => Ok(r),
        Err(_) => Err(LAST_PANIC.with(|p| p.borrow_mut().take()).unwrap_or_default()),
    }
}

/// Map a panic location to `<file>:<enclosing fn>` (never a line number) by
/// reading the source file.
pub fn panic_site(loc: &str) -> String {
    thread_local! {
        static CACHE: std::cell::RefCell<std::collections::HashMap<String, String>> = std::cell::RefCell::new(Default::default());
    }
    if let Some(hit) = CACHE.with(|c| c.borrow().get(loc).cloned()) {
        return hit;
    }
    let out = panic_site_uncached(loc);
    CACHE.with(|c| c.borrow_mut().insert(loc.to_string(), out.clone()));
    out
}

fn panic_site_uncached(loc: &str) -> String {
    let Some((file, line)) = loc.rsplit_once(':') else { return "unknown".into() };
    let line: usize = line.parse().unwrap_or(0);
    let short = file.rsplit('/').next().unwrap_or(file).to_string();
    let krate = if file.contains("wit-parser") {
        "wit-parser/"
    } else if file.contains("crates/core") {
        "core/"
    } else if file.contains("abi-interp") {
        "abi-interp/"
    } else if file.contains("cabi-ref") {
        "cabi-ref/"
    } else {
        ""
    };
    let mut func = "?".to_string();
    if let Ok(src) = std::fs::read_to_string(file) {
        let lines: Vec<&str> = src.lines().collect();
        let mut i = line.min(lines.len());
        while i > 0 {
            i -= 1;
            let l = lines[i].trim_start();
            let l = l.strip_prefix("pub ").unwrap_or(l);
            let l = l.strip_prefix("pub(crate) ").unwrap_or(l);
            let l = l.strip_prefix("pub(super) ").unwrap_or(l);
            if let Some(rest) = l.strip_prefix("fn ") {
                func = rest.chars().take_while(|c| c.is_alphanumeric() || *c == '_').collect();
                break;
            }
        }
    }
    format!("{krate}{short}:{func}")
}

/// Stable class of a panic message: digits and quoted/bracketed detail removed.
pub fn panic_class(msg: &str) -> String {
    let first = msg.lines().next().unwrap_or("");
    let mut out = String::new();
    let mut prev_digit = false;
    for c in first.chars() {
        if c.is_ascii_digit() {
            if !prev_digit {
                out.push('N');
            }
            prev_digit = true;
        } else {
            prev_digit = false;
            out.push(c);
        }
    }
    let cut = [out.find(": ["), out.find(" for "), out.find('('), out.find(" {")].into_iter().flatten().min().unwrap_or(out.len());
    let out: String = out[..cut].chars().take(70).collect();
    out.trim().replace(' ', "-").replace(['`', '\'', '"'], "")
}
