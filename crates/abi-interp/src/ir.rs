//! The recording `Bindgen`: every `Instruction` handed to `emit` becomes a node
//! of a small SSA IR (operands/results are SSA ids, nested blocks are attached
//! to the instruction that pops them), which `machine.rs` then executes.
use wit_bindgen_core::abi::{Bindgen, Bitcast, Instruction, WasmSignature, WasmType};
use wit_bindgen_core::wit_parser::{Alignment, ArchitectureSize, Resolve, SizeAlign, Type, TypeDefKind, TypeId};

pub type Op = u32;

#[derive(Clone, Copy, Debug, PartialEq, Eq)]
pub enum LoadKind {
    I32,
    I32_8U,
    I32_8S,
    I32_16U,
    I32_16S,
    I64,
    F32,
    F64,
    Pointer,
    Length,
}

#[derive(Clone, Copy, Debug, PartialEq, Eq)]
pub enum StoreKind {
    I32,
    I32_8,
    I32_16,
    I64,
    F32,
    F64,
    Pointer,
    Length,
}

#[derive(Clone, Copy, Debug, PartialEq, Eq)]
pub enum Scalar {
    Bool,
    U8,
    S8,
    U16,
    S16,
    U32,
    S32,
    U64,
    S64,
    F32,
    F64,
    Char,
}

#[derive(Clone, Copy, Debug, PartialEq, Eq)]
pub enum HandleOp {
    Handle,
    Future,
    Stream,
    ErrorContext,
}

#[derive(Clone, Copy, Debug, PartialEq, Eq)]
pub enum VarKind {
    Variant,
    Option,
    Result,
}

/// Owned mirror of `Bitcast` (which is neither `Clone` nor `Copy`).
#[derive(Clone, Debug, PartialEq, Eq)]
pub enum Cast {
    F32ToI32,
    F64ToI64,
    I32ToI64,
    F32ToI64,
    I32ToF32,
    I64ToF64,
    I64ToI32,
    I64ToF32,
    P64ToI64,
    I64ToP64,
    P64ToP,
    PToP64,
    I32ToP,
    PToI32,
    PToL,
    LToP,
    I32ToL,
    LToI32,
    I64ToL,
    LToI64,
    Sequence(Box<[Cast; 2]>),
    None,
}

impl Cast {
    pub fn from_bitcast(b: &Bitcast) -> Cast {
        match b {
            Bitcast::F32ToI32 => Cast::F32ToI32,
            Bitcast::F64ToI64 => Cast::F64ToI64,
            Bitcast::I32ToI64 => Cast::I32ToI64,
            Bitcast::F32ToI64 => Cast::F32ToI64,
            Bitcast::I32ToF32 => Cast::I32ToF32,
            Bitcast::I64ToF64 => Cast::I64ToF64,
            Bitcast::I64ToI32 => Cast::I64ToI32,
            Bitcast::I64ToF32 => Cast::I64ToF32,
            Bitcast::P64ToI64 => Cast::P64ToI64,
            Bitcast::I64ToP64 => Cast::I64ToP64,
            Bitcast::P64ToP => Cast::P64ToP,
            Bitcast::PToP64 => Cast::PToP64,
            Bitcast::I32ToP => Cast::I32ToP,
            Bitcast::PToI32 => Cast::PToI32,
            Bitcast::PToL => Cast::PToL,
            Bitcast::LToP => Cast::LToP,
            Bitcast::I32ToL => Cast::I32ToL,
            Bitcast::LToI32 => Cast::LToI32,
            Bitcast::I64ToL => Cast::I64ToL,
            Bitcast::LToI64 => Cast::LToI64,
            Bitcast::Sequence(s) => Cast::Sequence(Box::new([Cast::from_bitcast(&s[0]), Cast::from_bitcast(&s[1])])),
            Bitcast::None => Cast::None,
        }
    }

    /// (source, destination) wasm types this cast is declared to connect.
    /// `None` for `Cast::None` (identity on anything).
    pub fn endpoints(&self) -> Option<(WasmType, WasmType)> {
        use WasmType::*;
        Some(match self {
            Cast::F32ToI32 => (F32, I32),
            Cast::F64ToI64 => (F64, I64),
            Cast::I32ToI64 => (I32, I64),
            Cast::F32ToI64 => (F32, I64),
            Cast::I32ToF32 => (I32, F32),
            Cast::I64ToF64 => (I64, F64),
            Cast::I64ToI32 => (I64, I32),
            Cast::I64ToF32 => (I64, F32),
            Cast::P64ToI64 => (PointerOrI64, I64),
            Cast::I64ToP64 => (I64, PointerOrI64),
            Cast::P64ToP => (PointerOrI64, Pointer),
            Cast::PToP64 => (Pointer, PointerOrI64),
            Cast::I32ToP => (I32, Pointer),
            Cast::PToI32 => (Pointer, I32),
            Cast::PToL => (Pointer, Length),
            Cast::LToP => (Length, Pointer),
            Cast::I32ToL => (I32, Length),
            Cast::LToI32 => (Length, I32),
            Cast::I64ToL => (I64, Length),
            Cast::LToI64 => (Length, I64),
            Cast::Sequence(s) => {
                let a = s[0].endpoints();
                let b = s[1].endpoints();
                match (a, b) {
                    (Some(a), Some(b)) => (a.0, b.1),
                    (Some(a), None) => a,
                    (None, Some(b)) => b,
                    (None, None) => return None,
                }
            }
            Cast::None => return None,
        })
    }
}

/// Owned instruction.  One arm per `Instruction` family; the conversion in
/// `Inst::from` is an exhaustive match, so a new upstream instruction breaks the
/// build (= inconclusive) instead of being silently mis-executed.
#[derive(Clone, Debug)]
pub enum Inst {
    GetArg(usize),
    I32Const(i32),
    Bitcasts(Vec<Cast>),
    ConstZero(Vec<WasmType>),
    Load(LoadKind, ArchitectureSize),
    Store(StoreKind, ArchitectureSize),
    /// interface scalar -> core
    ScalarLower(Scalar),
    /// core -> interface scalar
    ScalarLift(Scalar),
    ListCanonLower { element: Type, realloc: bool },
    StringLower { realloc: bool },
    ListLower { element: Type, realloc: bool },
    ListCanonLift { element: Type },
    StringLift,
    ListLift { element: Type },
    MapLower { key: Type, value: Type, realloc: bool },
    MapLift { key: Type, value: Type },
    FixedLift { size: u32 },
    FixedLower { size: u32 },
    FixedLowerToMemory { element: Type, size: u32 },
    FixedLiftFromMemory { element: Type, size: u32 },
    IterElem,
    IterMapKey,
    IterMapValue,
    IterBasePointer,
    /// record or tuple with n fields
    RecordLower(usize),
    RecordLift(usize),
    HandleLower(HandleOp),
    HandleLift(HandleOp),
    FlagsLower { nflags: usize, words: usize },
    FlagsLift { nflags: usize, words: usize },
    VariantPayloadName,
    VariantLower { kind: VarKind, ncases: usize, results: Vec<WasmType> },
    VariantLift { kind: VarKind, ncases: usize },
    EnumLower { ncases: usize },
    EnumLift { ncases: usize },
    CallWasm { name: String, sig: WasmSignature },
    CallInterface { name: String, nparams: usize, has_result: bool, async_: bool },
    Return { amt: usize },
    Malloc { size: ArchitectureSize, align: Alignment },
    GuestDeallocate { size: ArchitectureSize, align: Alignment },
    GuestDeallocateString,
    GuestDeallocateList { element: Type },
    GuestDeallocateMap { key: Type, value: Type },
    GuestDeallocateVariant { blocks: usize },
    DropHandle { ty: Type },
    AsyncTaskReturn { name: String, params: Vec<WasmType> },
    Flush { amt: usize },
    /// pseudo instruction: `Bindgen::return_pointer(size, align)`
    ReturnPointer { size: ArchitectureSize, align: Alignment },
}

impl Inst {
    /// number of finished blocks the instruction pops
    pub fn blocks(&self) -> usize {
        match self {
            Inst::ListLower { .. }
            | Inst::ListLift { .. }
            | Inst::MapLower { .. }
            | Inst::MapLift { .. }
            | Inst::FixedLowerToMemory { .. }
            | Inst::FixedLiftFromMemory { .. }
            | Inst::GuestDeallocateList { .. }
            | Inst::GuestDeallocateMap { .. } => 1,
            Inst::VariantLower { ncases, .. } | Inst::VariantLift { ncases, .. } => *ncases,
            Inst::GuestDeallocateVariant { blocks } => *blocks,
            _ => 0,
        }
    }

    pub fn mnemonic(&self) -> &'static str {
        match self {
            Inst::GetArg(_) => "GetArg",
            Inst::I32Const(_) => "I32Const",
            Inst::Bitcasts(_) => "Bitcasts",
            Inst::ConstZero(_) => "ConstZero",
            Inst::Load(..) => "Load",
            Inst::Store(..) => "Store",
            Inst::ScalarLower(_) => "ScalarLower",
            Inst::ScalarLift(_) => "ScalarLift",
            Inst::ListCanonLower { .. } => "ListCanonLower",
            Inst::StringLower { .. } => "StringLower",
            Inst::ListLower { .. } => "ListLower",
            Inst::ListCanonLift { .. } => "ListCanonLift",
            Inst::StringLift => "StringLift",
            Inst::ListLift { .. } => "ListLift",
            Inst::MapLower { .. } => "MapLower",
            Inst::MapLift { .. } => "MapLift",
            Inst::FixedLift { .. } => "FixedLengthListLift",
            Inst::FixedLower { .. } => "FixedLengthListLower",
            Inst::FixedLowerToMemory { .. } => "FixedLengthListLowerToMemory",
            Inst::FixedLiftFromMemory { .. } => "FixedLengthListLiftFromMemory",
            Inst::IterElem => "IterElem",
            Inst::IterMapKey => "IterMapKey",
            Inst::IterMapValue => "IterMapValue",
            Inst::IterBasePointer => "IterBasePointer",
            Inst::RecordLower(_) => "RecordLower",
            Inst::RecordLift(_) => "RecordLift",
            Inst::HandleLower(_) => "HandleLower",
            Inst::HandleLift(_) => "HandleLift",
            Inst::FlagsLower { .. } => "FlagsLower",
            Inst::FlagsLift { .. } => "FlagsLift",
            Inst::VariantPayloadName => "VariantPayloadName",
            Inst::VariantLower { .. } => "VariantLower",
            Inst::VariantLift { .. } => "VariantLift",
            Inst::EnumLower { .. } => "EnumLower",
            Inst::EnumLift { .. } => "EnumLift",
            Inst::CallWasm { .. } => "CallWasm",
            Inst::CallInterface { .. } => "CallInterface",
            Inst::Return { .. } => "Return",
            Inst::Malloc { .. } => "Malloc",
            Inst::GuestDeallocate { .. } => "GuestDeallocate",
            Inst::GuestDeallocateString => "GuestDeallocateString",
            Inst::GuestDeallocateList { .. } => "GuestDeallocateList",
            Inst::GuestDeallocateMap { .. } => "GuestDeallocateMap",
            Inst::GuestDeallocateVariant { .. } => "GuestDeallocateVariant",
            Inst::DropHandle { .. } => "DropHandle",
            Inst::AsyncTaskReturn { .. } => "AsyncTaskReturn",
            Inst::Flush { .. } => "Flush",
            Inst::ReturnPointer { .. } => "ReturnPointer",
        }
    }

    pub fn from(inst: &Instruction<'_>) -> Inst {
        use Instruction as I;
        match inst {
            I::GetArg { nth } => Inst::GetArg(*nth),
            I::I32Const { val } => Inst::I32Const(*val),
            I::Bitcasts { casts } => Inst::Bitcasts(casts.iter().map(Cast::from_bitcast).collect()),
            I::ConstZero { tys } => Inst::ConstZero(tys.to_vec()),
            I::I32Load { offset } => Inst::Load(LoadKind::I32, *offset),
            I::I32Load8U { offset } => Inst::Load(LoadKind::I32_8U, *offset),
            I::I32Load8S { offset } => Inst::Load(LoadKind::I32_8S, *offset),
            I::I32Load16U { offset } => Inst::Load(LoadKind::I32_16U, *offset),
            I::I32Load16S { offset } => Inst::Load(LoadKind::I32_16S, *offset),
            I::I64Load { offset } => Inst::Load(LoadKind::I64, *offset),
            I::F32Load { offset } => Inst::Load(LoadKind::F32, *offset),
            I::F64Load { offset } => Inst::Load(LoadKind::F64, *offset),
            I::PointerLoad { offset } => Inst::Load(LoadKind::Pointer, *offset),
            I::LengthLoad { offset } => Inst::Load(LoadKind::Length, *offset),
            I::I32Store { offset } => Inst::Store(StoreKind::I32, *offset),
            I::I32Store8 { offset } => Inst::Store(StoreKind::I32_8, *offset),
            I::I32Store16 { offset } => Inst::Store(StoreKind::I32_16, *offset),
            I::I64Store { offset } => Inst::Store(StoreKind::I64, *offset),
            I::F32Store { offset } => Inst::Store(StoreKind::F32, *offset),
            I::F64Store { offset } => Inst::Store(StoreKind::F64, *offset),
            I::PointerStore { offset } => Inst::Store(StoreKind::Pointer, *offset),
            I::LengthStore { offset } => Inst::Store(StoreKind::Length, *offset),
            I::I32FromChar => Inst::ScalarLower(Scalar::Char),
            I::I64FromU64 => Inst::ScalarLower(Scalar::U64),
            I::I64FromS64 => Inst::ScalarLower(Scalar::S64),
            I::I32FromU32 => Inst::ScalarLower(Scalar::U32),
            I::I32FromS32 => Inst::ScalarLower(Scalar::S32),
            I::I32FromU16 => Inst::ScalarLower(Scalar::U16),
            I::I32FromS16 => Inst::ScalarLower(Scalar::S16),
            I::I32FromU8 => Inst::ScalarLower(Scalar::U8),
            I::I32FromS8 => Inst::ScalarLower(Scalar::S8),
            I::CoreF32FromF32 => Inst::ScalarLower(Scalar::F32),
            I::CoreF64FromF64 => Inst::ScalarLower(Scalar::F64),
            I::I32FromBool => Inst::ScalarLower(Scalar::Bool),
            I::S8FromI32 => Inst::ScalarLift(Scalar::S8),
            I::U8FromI32 => Inst::ScalarLift(Scalar::U8),
            I::S16FromI32 => Inst::ScalarLift(Scalar::S16),
            I::U16FromI32 => Inst::ScalarLift(Scalar::U16),
            I::S32FromI32 => Inst::ScalarLift(Scalar::S32),
            I::U32FromI32 => Inst::ScalarLift(Scalar::U32),
            I::S64FromI64 => Inst::ScalarLift(Scalar::S64),
            I::U64FromI64 => Inst::ScalarLift(Scalar::U64),
            I::CharFromI32 => Inst::ScalarLift(Scalar::Char),
            I::F32FromCoreF32 => Inst::ScalarLift(Scalar::F32),
            I::F64FromCoreF64 => Inst::ScalarLift(Scalar::F64),
            I::BoolFromI32 => Inst::ScalarLift(Scalar::Bool),
            I::ListCanonLower { element, realloc } => Inst::ListCanonLower { element: **element, realloc: realloc.is_some() },
            I::StringLower { realloc } => Inst::StringLower { realloc: realloc.is_some() },
            I::ListLower { element, realloc } => Inst::ListLower { element: **element, realloc: realloc.is_some() },
            I::ListCanonLift { element, ty: _ } => Inst::ListCanonLift { element: **element },
            I::StringLift => Inst::StringLift,
            I::ListLift { element, ty: _ } => Inst::ListLift { element: **element },
            I::MapLower { key, value, realloc } => Inst::MapLower { key: **key, value: **value, realloc: realloc.is_some() },
            I::MapLift { key, value, ty: _ } => Inst::MapLift { key: **key, value: **value },
            I::FixedLengthListLift { element: _, size, id: _ } => Inst::FixedLift { size: *size },
            I::FixedLengthListLower { element: _, size, id: _ } => Inst::FixedLower { size: *size },
            I::FixedLengthListLowerToMemory { element, size, id: _ } => Inst::FixedLowerToMemory { element: **element, size: *size },
            I::FixedLengthListLiftFromMemory { element, size, id: _ } => Inst::FixedLiftFromMemory { element: **element, size: *size },
            I::IterElem { element: _ } => Inst::IterElem,
            I::IterMapKey { key: _ } => Inst::IterMapKey,
            I::IterMapValue { value: _ } => Inst::IterMapValue,
            I::IterBasePointer => Inst::IterBasePointer,
            I::RecordLower { record, name: _, ty: _ } => Inst::RecordLower(record.fields.len()),
            I::RecordLift { record, name: _, ty: _ } => Inst::RecordLift(record.fields.len()),
            I::HandleLower { handle: _, name: _, ty: _ } => Inst::HandleLower(HandleOp::Handle),
            I::HandleLift { handle: _, name: _, ty: _ } => Inst::HandleLift(HandleOp::Handle),
            I::FutureLower { payload: _, ty: _ } => Inst::HandleLower(HandleOp::Future),
            I::FutureLift { payload: _, ty: _ } => Inst::HandleLift(HandleOp::Future),
            I::StreamLower { payload: _, ty: _ } => Inst::HandleLower(HandleOp::Stream),
            I::StreamLift { payload: _, ty: _ } => Inst::HandleLift(HandleOp::Stream),
            I::ErrorContextLower => Inst::HandleLower(HandleOp::ErrorContext),
            I::ErrorContextLift => Inst::HandleLift(HandleOp::ErrorContext),
            I::TupleLower { tuple, ty: _ } => Inst::RecordLower(tuple.types.len()),
            I::TupleLift { tuple, ty: _ } => Inst::RecordLift(tuple.types.len()),
            I::FlagsLower { flags, name: _, ty: _ } => Inst::FlagsLower { nflags: flags.flags.len(), words: flags.repr().count() },
            I::FlagsLift { flags, name: _, ty: _ } => Inst::FlagsLift { nflags: flags.flags.len(), words: flags.repr().count() },
            I::VariantPayloadName => Inst::VariantPayloadName,
            I::VariantLower { variant, name: _, ty: _, results } => {
                Inst::VariantLower { kind: VarKind::Variant, ncases: variant.cases.len(), results: results.to_vec() }
            }
            I::VariantLift { variant, name: _, ty: _ } => Inst::VariantLift { kind: VarKind::Variant, ncases: variant.cases.len() },
            I::EnumLower { enum_, name: _, ty: _ } => Inst::EnumLower { ncases: enum_.cases.len() },
            I::EnumLift { enum_, name: _, ty: _ } => Inst::EnumLift { ncases: enum_.cases.len() },
            I::OptionLower { payload: _, ty: _, results } => Inst::VariantLower { kind: VarKind::Option, ncases: 2, results: results.to_vec() },
            I::OptionLift { payload: _, ty: _ } => Inst::VariantLift { kind: VarKind::Option, ncases: 2 },
            I::ResultLower { result: _, ty: _, results } => Inst::VariantLower { kind: VarKind::Result, ncases: 2, results: results.to_vec() },
            I::ResultLift { result: _, ty: _ } => Inst::VariantLift { kind: VarKind::Result, ncases: 2 },
            I::CallWasm { name, sig } => Inst::CallWasm { name: name.to_string(), sig: (*sig).clone() },
            I::CallInterface { func, async_ } => {
                Inst::CallInterface { name: func.name.clone(), nparams: func.params.len(), has_result: func.result.is_some(), async_: *async_ }
            }
            I::Return { amt, func: _ } => Inst::Return { amt: *amt },
            I::Malloc { realloc: _, size, align } => Inst::Malloc { size: *size, align: *align },
            I::GuestDeallocate { size, align } => Inst::GuestDeallocate { size: *size, align: *align },
            I::GuestDeallocateString => Inst::GuestDeallocateString,
            I::GuestDeallocateList { element } => Inst::GuestDeallocateList { element: **element },
            I::GuestDeallocateMap { key, value } => Inst::GuestDeallocateMap { key: **key, value: **value },
            I::GuestDeallocateVariant { blocks } => Inst::GuestDeallocateVariant { blocks: *blocks },
            I::DropHandle { ty } => Inst::DropHandle { ty: **ty },
            I::AsyncTaskReturn { name, params } => Inst::AsyncTaskReturn { name: name.to_string(), params: params.to_vec() },
            I::Flush { amt } => Inst::Flush { amt: *amt },
        }
    }
}

#[derive(Clone, Debug)]
pub struct Node {
    pub inst: Inst,
    pub operands: Vec<Op>,
    pub results: Vec<Op>,
    /// blocks popped by this instruction, in the order they were finished
    pub blocks: Vec<Block>,
}

#[derive(Clone, Debug, Default)]
pub struct Block {
    pub nodes: Vec<Node>,
    /// operands handed to `finish_block`
    pub results: Vec<Op>,
}

impl Block {
    pub fn count_nodes(&self) -> usize {
        self.nodes.iter().map(|n| 1 + n.blocks.iter().map(|b| b.count_nodes()).sum::<usize>()).sum()
    }
    pub fn visit<'a>(&'a self, f: &mut dyn FnMut(&'a Node)) {
        for n in &self.nodes {
            f(n);
            for b in &n.blocks {
                b.visit(f);
            }
        }
    }
    pub fn dump(&self, indent: usize, out: &mut String) {
        for n in &self.nodes {
            out.push_str(&" ".repeat(indent));
            out.push_str(&format!("{:?} <- {:?} {:?}\n", n.results, n.inst, n.operands));
            for (i, b) in n.blocks.iter().enumerate() {
                out.push_str(&" ".repeat(indent + 2));
                out.push_str(&format!("block {i} -> {:?}\n", b.results));
                b.dump(indent + 4, out);
            }
        }
    }
}

/// How `is_list_canonical` answers.
#[derive(Clone, Copy, Debug, PartialEq, Eq)]
pub enum CanonPolicy {
    Never,
    /// integers and floats only (not bool / char)
    Scalars,
    /// what the Rust backend does: all bit patterns valid, no tuples, no handles
    RustLike,
}

impl CanonPolicy {
    pub const ALL: [CanonPolicy; 3] = [CanonPolicy::Never, CanonPolicy::Scalars, CanonPolicy::RustLike];
    pub fn name(&self) -> &'static str {
        match self {
            CanonPolicy::Never => "never",
            CanonPolicy::Scalars => "scalars",
            CanonPolicy::RustLike => "rustlike",
        }
    }
    pub fn parse(s: &str) -> Option<CanonPolicy> {
        CanonPolicy::ALL.into_iter().find(|p| p.name() == s)
    }
}

fn has_tuple_or_handle(resolve: &Resolve, ty: &Type) -> bool {
    match ty {
        Type::Id(id) => match &resolve.types[*id].kind {
            TypeDefKind::Tuple(_) | TypeDefKind::Handle(_) => true,
            TypeDefKind::Type(t) | TypeDefKind::FixedLengthList(t, _) => has_tuple_or_handle(resolve, t),
            TypeDefKind::Record(r) => r.fields.iter().any(|f| has_tuple_or_handle(resolve, &f.ty)),
            _ => false,
        },
        _ => false,
    }
}

pub fn is_canonical(policy: CanonPolicy, resolve: &Resolve, element: &Type) -> bool {
    match policy {
        CanonPolicy::Never => false,
        CanonPolicy::Scalars => {
            let mut t = *element;
            loop {
                match t {
                    Type::Id(id) => match &resolve.types[id].kind {
                        TypeDefKind::Type(inner) => t = *inner,
                        _ => return false,
                    },
                    Type::U8 | Type::S8 | Type::U16 | Type::S16 | Type::U32 | Type::S32 | Type::U64 | Type::S64 | Type::F32 | Type::F64 => {
                        return true
                    }
                    _ => return false,
                }
            }
        }
        CanonPolicy::RustLike => resolve.all_bits_valid(element) && !has_tuple_or_handle(resolve, element),
    }
}

/// The interpreting `Bindgen`.
pub struct Recorder {
    pub sizes: SizeAlign,
    pub policy: CanonPolicy,
    next: Op,
    /// blocks under construction; index 0 is the function body
    open: Vec<Block>,
    /// finished blocks waiting for the instruction that pops them
    finished: Vec<Block>,
    /// protocol errors (block stack misuse); reported by the harness
    pub errors: Vec<String>,
    /// (mnemonic -> count) of everything emitted
    pub emitted: usize,
}

impl Recorder {
    pub fn new(resolve: &Resolve, policy: CanonPolicy) -> Recorder {
        let mut sizes = SizeAlign::default();
        sizes.fill(resolve);
        Recorder { sizes, policy, next: 0, open: vec![Block::default()], finished: vec![], errors: vec![], emitted: 0 }
    }

    /// a fresh SSA id standing for a value the harness provides (e.g. the
    /// `value` / `address` operands of `lower_flat` / `lower_to_memory`)
    pub fn input(&mut self) -> Op {
        let id = self.next;
        self.next += 1;
        id
    }

    /// finish recording; returns the function body
    pub fn finish(mut self) -> Result<Program, String> {
        if self.open.len() != 1 {
            self.errors.push(format!("{} blocks still open at the end", self.open.len() - 1));
        }
        if !self.finished.is_empty() {
            self.errors.push(format!("{} finished blocks never consumed", self.finished.len()));
        }
        if !self.errors.is_empty() {
            return Err(self.errors.join("; "));
        }
        Ok(Program { body: self.open.pop().unwrap(), nvalues: self.next as usize })
    }
}

pub struct Program {
    pub body: Block,
    pub nvalues: usize,
}

impl Program {
    pub fn dump(&self) -> String {
        let mut s = String::new();
        self.body.dump(0, &mut s);
        s
    }
    pub fn count(&self, pred: &dyn Fn(&Inst) -> bool) -> usize {
        let mut n = 0;
        self.body.visit(&mut |node| {
            if pred(&node.inst) {
                n += 1
            }
        });
        n
    }
}

impl Bindgen for Recorder {
    type Operand = Op;

    fn emit(&mut self, _resolve: &Resolve, inst: &Instruction<'_>, operands: &mut Vec<Op>, results: &mut Vec<Op>) {
        let owned = Inst::from(inst);
        self.emitted += 1;
        let nblocks = owned.blocks();
        let mut blocks = vec![];
        if nblocks > 0 {
            if self.finished.len() < nblocks {
                self.errors.push(format!("{} needs {nblocks} finished blocks, have {}", owned.mnemonic(), self.finished.len()));
                blocks = self.finished.drain(..).collect();
                while blocks.len() < nblocks {
                    blocks.push(Block::default());
                }
            } else {
                blocks = self.finished.drain(self.finished.len() - nblocks..).collect();
            }
        }
        let mut res = vec![];
        for _ in 0..inst.results_len() {
            res.push(self.next);
            self.next += 1;
        }
        results.extend(res.iter().copied());
        let node = Node { inst: owned, operands: operands.clone(), results: res, blocks };
        self.open.last_mut().unwrap().nodes.push(node);
    }

    fn return_pointer(&mut self, size: ArchitectureSize, align: Alignment) -> Op {
        let id = self.next;
        self.next += 1;
        // hoisted to where it is requested: evaluation order is the same as a
        // function-scope area because the node has no operands
        let node = Node { inst: Inst::ReturnPointer { size, align }, operands: vec![], results: vec![id], blocks: vec![] };
        self.open.last_mut().unwrap().nodes.push(node);
        id
    }

    fn push_block(&mut self) {
        self.open.push(Block::default());
    }

    fn finish_block(&mut self, operand: &mut Vec<Op>) {
        if self.open.len() <= 1 {
            self.errors.push("finish_block without push_block".into());
            return;
        }
        let mut b = self.open.pop().unwrap();
        b.results = operand.clone();
        self.finished.push(b);
    }

    fn sizes(&self) -> &SizeAlign {
        &self.sizes
    }

    fn is_list_canonical(&self, resolve: &Resolve, element: &Type) -> bool {
        is_canonical(self.policy, resolve, element)
    }
}

pub fn type_id(ty: &Type) -> Option<TypeId> {
    match ty {
        Type::Id(id) => Some(*id),
        _ => None,
    }
}
