fn main() {}
