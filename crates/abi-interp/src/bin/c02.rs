//! C02 — call glue follows the canonical calling convention.
//! `abi::call` for every (variant, direction, async flag) under the interpreting
//! Bindgen, executed with a scripted callee; judged against the reference
//! signature / parameter passing / result passing of `cabi-ref`.
use abi_interp::cmp::*;
use abi_interp::corpus::*;
use abi_interp::harness::*;
use abi_interp::ir::*;
use abi_interp::machine::*;
use abi_interp::mem::*;
use abi_interp::runs::*;
use cabi_ref::{Abi, CoreSig, CoreTy, CoreVal, GenCfg, SigKind, Val};
use serde_json::json;
use vkit::{hash64, Args, Report, Rng};
use wit_bindgen_core::abi::{AbiVariant, LiftLower, WasmSignature, WasmType};
use wit_bindgen_core::wit_parser::{Function, FunctionKind, Type};

#[derive(Clone, Copy, PartialEq, Eq, Debug)]
enum Tier {
    /// a calling convention is defined: fully judged
    Judged,
    /// host-side / unimplemented but coherent: parameter side judged, only
    /// whitelisted explicit `todo!()`s tolerated
    ParamsOnly,
    /// the async flag contradicts the variant (or async lowering through
    /// `abi::call`, which no backend uses): no convention exists; any panic is
    /// counted as unsupported, successful runs get the parameter-side checks
    Incoherent,
}

fn tier(v: AbiVariant, ll: LiftLower, a: bool) -> Tier {
    use AbiVariant::*;
    use LiftLower::*;
    match (v, ll, a) {
        (GuestImport, LowerArgsLiftResults, false) => Tier::Judged,
        (GuestImport, LiftArgsLowerResults, false) => Tier::Judged,
        (GuestExport, LowerArgsLiftResults, false) => Tier::Judged,
        (GuestExport, LiftArgsLowerResults, false) => Tier::Judged,
        // the C# backend generates async exports with the sync variant + async flag
        (GuestExport, LiftArgsLowerResults, true) => Tier::Judged,
        (GuestExportAsync, LiftArgsLowerResults, true) => Tier::Judged,
        (GuestExportAsyncStackful, LiftArgsLowerResults, true) => Tier::Judged,
        // host side of an async import: wit-bindgen's own convention (results flat
        // when they fit MAX_FLAT_ASYNC_PARAMS, else through the return pointer)
        (GuestImportAsync, LiftArgsLowerResults, true) => Tier::Judged,
        (GuestExportAsync, LowerArgsLiftResults, true) => Tier::ParamsOnly,
        (GuestExportAsyncStackful, LowerArgsLiftResults, true) => Tier::ParamsOnly,
        _ => Tier::Incoherent,
    }
}

fn sig_kind(v: AbiVariant) -> SigKind {
    match v {
        AbiVariant::GuestImport => SigKind::SyncLower,
        AbiVariant::GuestExport => SigKind::SyncLift,
        AbiVariant::GuestImportAsync => SigKind::AsyncLower,
        AbiVariant::GuestExportAsync => SigKind::AsyncLiftCallback,
        AbiVariant::GuestExportAsyncStackful => SigKind::AsyncLiftStackful,
    }
}

fn is_export(v: AbiVariant) -> bool {
    matches!(v, AbiVariant::GuestExport | AbiVariant::GuestExportAsync | AbiVariant::GuestExportAsyncStackful)
}

/// Fixed whitelist of unsupported-by-design combinations with an explicit
/// `todo!()` / `unreachable!()` in `abi.rs`: (variant, direction, async, condition, panic-signature prefix, what)
const EXPLICIT: &[(&str, &str, &str, &str, &str, &str)] = &[
    ("GuestImportAsync", "lower", "*", "indirect-params", "panic:core/abi.rs:call:not-yet-implemented:-direct-param-lowering", "todo!(\"direct param lowering for async guest import not implemented\")"),
    ("GuestExportAsync", "lower", "*", "indirect-params", "panic:core/abi.rs:call:not-yet-implemented:-direct-param-lowering", "todo!(\"direct param lowering for async not implemented\")"),
    ("GuestExportAsyncStackful", "lower", "*", "indirect-params", "panic:core/abi.rs:call:not-yet-implemented:-direct-param-lowering", "todo!(\"direct param lowering for async not implemented\")"),
    ("GuestExportAsyncStackful", "lift", "true", "result-flat>16", "panic:core/abi.rs:call:not-yet-implemented:-stackful-exports", "todo!(\"stackful exports are not yet supported\")"),
    ("GuestImportAsync", "lower", "*", "retptr", "panic:core/abi.rs:call:internal-error:-entered-unreachable-code", "unreachable!() reading results of an async variant through a return pointer"),
    ("GuestExportAsync", "lower", "*", "retptr", "panic:core/abi.rs:call:internal-error:-entered-unreachable-code", "unreachable!() reading results of an async variant through a return pointer"),
    ("GuestExportAsyncStackful", "lower", "*", "retptr", "panic:core/abi.rs:call:internal-error:-entered-unreachable-code", "unreachable!() reading results of an async variant through a return pointer"),
    ("GuestImport", "lift", "*", "result-to-memory-without-retptr", "panic:core/abi.rs:call:internal-error:-entered-unreachable-code", "unreachable!(\"lowering to memory cannot be performed without a return pointer\")"),
    ("GuestImportAsync", "lift", "*", "result-to-memory-without-retptr", "panic:core/abi.rs:call:internal-error:-entered-unreachable-code", "unreachable!(\"lowering to memory cannot be performed without a return pointer\")"),
];

struct Combo {
    v: AbiVariant,
    ll: LiftLower,
    a: bool,
}

impl Combo {
    fn name(&self) -> String {
        format!("{}:{}:{}", variant_name(self.v), ll_name(self.ll), if self.a { "async" } else { "sync" })
    }
}

struct CallHost<'a> {
    abi: Abi<'a>,
    func: &'a Function,
    ptys: Vec<Type>,
    variant: AbiVariant,
    refsig: CoreSig,
    result_val: Option<Val>,
    got_params: Option<Vec<Val>>,
    problems: Vec<(String, String)>,
    task_return: Vec<Result<Option<Val>, String>>,
    task_return_types: Vec<Vec<CoreTy>>,
    callee_result_block: Option<u64>,
    self_ptr: bool,
}

impl<'a> CallHost<'a> {
    fn problem(&mut self, class: &str, detail: String) {
        self.problems.push((class.to_string(), detail));
    }
}

impl<'a> Host for CallHost<'a> {
    fn call_wasm(&mut self, mem: &mut Mem, _name: &str, sig: &WasmSignature, args: &[CoreVal]) -> Result<Vec<CoreVal>, String> {
        let w = self.abi.ptr;
        let mut sp: Vec<CoreTy> = sig.params.iter().map(|t| core_of(*t, w)).collect();
        let sr: Vec<CoreTy> = sig.results.iter().map(|t| core_of(*t, w)).collect();
        if self.self_ptr && !sp.is_empty() && !self.refsig.indirect_params {
            sp[0] = CoreTy::I32; // exported method `self`: wit-parser models the rep as a pointer
        }
        if sp != self.refsig.params || sr != self.refsig.results || sig.indirect_params != self.refsig.indirect_params || sig.retptr != self.refsig.retptr {
            self.problem(
                "core-signature",
                format!(
                    "CallWasm signature params {:?} results {:?} indirect={} retptr={}; reference params {:?} results {:?} indirect={} retptr={}",
                    sig.params, sig.results, sig.indirect_params, sig.retptr, self.refsig.params, self.refsig.results, self.refsig.indirect_params, self.refsig.retptr
                ),
            );
            return Err("core signature differs from the reference".into());
        }
        // lift the parameters the way a spec-conforming callee would
        let mut got = vec![];
        if self.refsig.indirect_params {
            let p = args[0].bits();
            let offs = self.abi.field_offsets(&self.ptys);
            for (t, o) in self.ptys.iter().zip(offs) {
                got.push(self.abi.load(mem, t, p + o as u64)?);
            }
        } else {
            let n: usize = self.ptys.iter().map(|t| self.abi.flatten(t).len()).sum();
            let mut flat = args[..n].to_vec();
            if self.self_ptr && !flat.is_empty() {
                flat[0] = CoreVal::I32(flat[0].bits() as u32);
            }
            let mut it = flat.iter();
            for t in &self.ptys {
                got.push(self.abi.lift_flat(mem, &mut it, t)?);
            }
        }
        self.got_params = Some(got);
        mem.trait_kind = BlockKind::Harness;
        let rty = self.func.result;
        let mut out = vec![];
        match self.variant {
            AbiVariant::GuestImport | AbiVariant::GuestImportAsync => {
                if self.refsig.retptr {
                    let p = args[args.len() - 1].bits();
                    if let (Some(t), Some(v)) = (&rty, &self.result_val) {
                        self.abi.store(mem, v, t, p)?;
                    }
                } else if let (Some(t), Some(v)) = (&rty, &self.result_val) {
                    if self.variant == AbiVariant::GuestImport {
                        out = self.abi.lower_flat(mem, v, t)?;
                    }
                }
                if self.variant == AbiVariant::GuestImportAsync {
                    out = vec![CoreVal::I32(2)];
                }
            }
            AbiVariant::GuestExport => {
                if let (Some(t), Some(v)) = (&rty, &self.result_val) {
                    if self.refsig.retptr {
                        let (s, a) = self.abi.record_layout(&[*t]);
                        let p = mem.alloc(s.max(1), a, BlockKind::Harness, "callee-result").map_err(|e| e.text())?;
                        self.abi.store(mem, v, t, p)?;
                        self.callee_result_block = Some(p);
                        out = vec![CoreVal::from_bits(core_of(WasmType::Pointer, w), p)];
                    } else {
                        out = self.abi.lower_flat(mem, v, t)?;
                    }
                }
            }
            AbiVariant::GuestExportAsync => out = vec![CoreVal::I32(0)],
            AbiVariant::GuestExportAsyncStackful => {}
        }
        Ok(out)
    }

    fn call_interface(&mut self, _name: &str, args: Vec<Val>, _has_result: bool, _async_: bool) -> Result<Option<Val>, String> {
        self.got_params = Some(args);
        Ok(self.result_val.clone())
    }

    fn task_return(&mut self, mem: &mut Mem, _name: &str, params: &[WasmType], args: &[CoreVal]) -> Result<(), String> {
        let w = self.abi.ptr;
        self.task_return_types.push(params.iter().map(|t| core_of(*t, w)).collect());
        let r = match &self.func.result {
            None => Ok(None),
            Some(t) => {
                let flat = self.abi.flatten(t);
                if flat.len() > cabi_ref::MAX_FLAT_PARAMS {
                    match args.first() {
                        Some(p) => self.abi.load(mem, t, p.bits()).map(Some),
                        None => Err("no pointer argument".to_string()),
                    }
                } else {
                    self.abi.lift_flat(mem, &mut args.iter(), t).map(Some)
                }
            }
        };
        self.task_return.push(r);
        Ok(())
    }
}

struct Ctxt<'a> {
    unit: &'a Unit,
    ctx: &'a Ctx<'a>,
    path: &'a str,
    func: &'a Function,
}

fn replay_of(c: &Ctxt, combo: &Combo, width: usize, policy: CanonPolicy, vals: Option<(&[Val], &Option<Val>)>) -> serde_json::Value {
    json!({
        "unit": c.unit.label, "wit": c.unit.wit, "synthetic": c.unit.synthetic, "path": c.path, "width": width, "policy": policy.name(),
        "mode": combo.name(),
        "value": vals.map(|(p, r)| json!({"params": p.iter().map(|v| v.text()).collect::<Vec<_>>(), "result": r.as_ref().map(|v| v.text())})),
    })
}

fn violation(rep: &mut Report, c: &Ctxt, combo: &Combo, width: usize, policy: CanonPolicy, class: &str, detail: &str, vals: Option<(&[Val], &Option<Val>)>) {
    let sig = format!("call:{}:{class}", combo.name());
    rep.count("failures");
    if rep.has_violation(&sig) {
        return;
    }
    let abi = Abi::new(c.ctx.resolve, width);
    let tys: Vec<Type> = c.func.params.iter().map(|p| p.ty).chain(c.func.result).collect();
    if tys.iter().any(|t| outside_encodable_domain(&abi, t)) {
        rep.inconclusive("outside encodable domain (flags with 0 or >32 members) in a call signature");
        return;
    }
    if let Some(d) = tys.iter().find_map(|t| layout_disagreement(c.ctx, &abi, t)) {
        rep.inconclusive(&format!("reference or wit-parser suspect — triage first: {}", shorten(&d, 200)));
        return;
    }
    let fsig = format!(
        "({}){}",
        c.func.params.iter().map(|p| shorten(&abi.shape_key(&p.ty), 40)).collect::<Vec<_>>().join(","),
        c.func.result.map(|t| format!("->{}", shorten(&abi.shape_key(&t), 60))).unwrap_or_default()
    );
    rep.violation(&sig, &format!("{detail} [func {} {} width {width} policy {}]", c.path, shorten(&fsig, 400), policy.name()), replay_of(c, combo, width, policy, vals));
}

fn conditions(refsig: &CoreSig, abi: &Abi, func: &Function, combo: &Combo) -> Vec<&'static str> {
    let mut out = vec![];
    if refsig.indirect_params {
        out.push("indirect-params");
    }
    if refsig.retptr {
        out.push("retptr");
    }
    let nr = func.result.map(|t| abi.flatten(&t).len()).unwrap_or(0);
    if nr > 16 {
        out.push("result-flat>16");
    }
    if func.result.is_some() && !refsig.retptr && matches!(combo.v, AbiVariant::GuestImport | AbiVariant::GuestImportAsync) {
        out.push("result-to-memory-without-retptr");
    }
    out
}

fn check_func(rep: &mut Report, c: &Ctxt, seed: u64, nsets: usize, only: Option<&serde_json::Value>, miri: bool) {
    let resolve = c.ctx.resolve;
    let abi4 = Abi::new(resolve, 4);
    let ptys: Vec<Type> = c.func.params.iter().map(|p| p.ty).collect();
    let key = format!(
        "{}->{}",
        ptys.iter().map(|t| abi4.shape_key(t)).collect::<Vec<_>>().join(","),
        c.func.result.map(|t| abi4.shape_key(&t)).unwrap_or_default()
    );
    rep.distinct(&key);
    let nparams_flat: usize = ptys.iter().map(|t| abi4.flatten(t).len()).sum();
    let nres_flat = c.func.result.map(|t| abi4.flatten(&t).len()).unwrap_or(0);
    rep.count(&format!("flat-params:{}", match nparams_flat { 0..=3 => "0-3", 4 => "4", 5 => "5", 6..=14 => "6-14", 15 => "15", 16 => "16", 17 => "17", _ => "18+" }));
    rep.count(&format!("flat-results:{}", match nres_flat { 0 => "0", 1 => "1", 2 => "2", 3..=15 => "3-15", 16 => "16", 17 => "17", _ => "18+" }));
    let h = hash64(format!("{}/{}", c.unit.label, c.path).as_bytes());
    let mut rng = Rng::new(seed ^ h);
    let policy = match only.and_then(|o| o["policy"].as_str()).and_then(CanonPolicy::parse) {
        Some(p) => p,
        None => CanonPolicy::ALL[(h % 3) as usize],
    };
    let self_method = matches!(c.func.kind, FunctionKind::Method(_) | FunctionKind::AsyncMethod(_));
    let gcfg = GenCfg { max_list: 3, ..Default::default() };

    for v in VARIANTS {
        for ll in [LiftLower::LowerArgsLiftResults, LiftLower::LiftArgsLowerResults] {
            for a in [false, true] {
                let combo = Combo { v, ll, a };
                if let Some(o) = only {
                    if o["mode"].as_str().map(|m| m != combo.name()).unwrap_or(false) {
                        continue;
                    }
                }
                let t = tier(v, ll, a);
                if miri && t != Tier::Judged {
                    continue; // panics are very slow under Miri
                }
                let kind = sig_kind(v);
                let ref4 = abi4.signature(&ptys, c.func.result.as_ref(), kind);
                let prog = match record_call(resolve, v, ll, c.func, a, policy) {
                    Ok(p) => p,
                    Err(e) => {
                        rep.eval();
                        let sig = e.sig();
                        let conds = conditions(&ref4, &abi4, c.func, &combo);
                        let explicit = EXPLICIT.iter().find(|w| {
                            w.0 == variant_name(v) && w.1 == ll_name(ll) && (w.2 == "*" || w.2 == a.to_string()) && conds.contains(&w.3) && sig.starts_with(w.4)
                        });
                        match (explicit, t) {
                            (Some(w), _) => rep.count(&format!("unsupported-by-design:{}:{}:{}:{}", w.0, w.1, if a { "async" } else { "sync" }, w.3)),
                            (None, Tier::Incoherent) => rep.count(&format!("unsupported-undefined:{}:{}", combo.name(), sig)),
                            (None, _) => violation(rep, c, &combo, 4, policy, &sig, &e.text(), None),
                        }
                        continue;
                    }
                };
                rep.count(&format!("recorded:{}", combo.name()));
                // structural counts on the IR (every path)
                let ncw = prog.count(&|i| matches!(i, Inst::CallWasm { .. }));
                let nci = prog.count(&|i| matches!(i, Inst::CallInterface { .. }));
                if ncw + nci != 1 {
                    violation(rep, c, &combo, 4, policy, "call-count", &format!("{ncw} CallWasm + {nci} CallInterface instructions emitted"), None);
                }
                for width in [4usize, 8] {
                    if let Some(o) = only {
                        if o["width"].as_u64().map(|w| w as usize != width).unwrap_or(false) {
                            continue;
                        }
                    }
                    if width == 8 && self_method && is_export(v) {
                        rep.count("skipped:exported-method-self-pointer-at-width8");
                        continue;
                    }
                    let abi = Abi::new(resolve, width);
                    let refsig = abi.signature(&ptys, c.func.result.as_ref(), kind);
                    for set in 0..nsets {
                        let mut vr = rng.fork((set * 16 + width) as u64);
                        let (params_in, result_val): (Vec<Val>, Option<Val>) = match only.and_then(|o| o.get("value")).filter(|v| v.is_object()) {
                            Some(val) => {
                                let ps: Option<Vec<Val>> = val["params"].as_array().map(|a| a.iter().zip(&ptys).filter_map(|(s, t)| parse_val_typed(&abi, t, s.as_str().unwrap_or("")).ok()).collect());
                                let r = c.func.result.and_then(|t| val["result"].as_str().and_then(|s| parse_val_typed(&abi, &t, s).ok()));
                                match ps {
                                    Some(ps) if ps.len() == ptys.len() => (ps, r),
                                    _ => {
                                        rep.inconclusive("replay values do not parse");
                                        return;
                                    }
                                }
                            }
                            None => (ptys.iter().map(|t| abi.gen_val(&mut vr, t, &gcfg, 0)).collect(), c.func.result.map(|t| abi.gen_val(&mut vr, &t, &gcfg, 0))),
                        };
                        rep.eval();
                        run_one(rep, c, &combo, t, &prog, &abi, &refsig, policy, &ptys, &params_in, &result_val, self_method && is_export(v));
                    }
                }
                if rep.samples.len() < rep.max_samples && t == Tier::Judged && (nparams_flat > 16 || nres_flat > 1 || h % 7 == 0) {
                    rep.sample(json!({"func": c.path, "combo": combo.name(), "flat_params": nparams_flat, "flat_results": nres_flat, "ir": shorten(&prog.dump(), 500)}));
                }
            }
        }
    }
}

#[allow(clippy::too_many_arguments)]
fn run_one(
    rep: &mut Report,
    c: &Ctxt,
    combo: &Combo,
    t: Tier,
    prog: &Program,
    abi: &Abi,
    refsig: &CoreSig,
    policy: CanonPolicy,
    ptys: &[Type],
    params_in: &[Val],
    result_val: &Option<Val>,
    self_ptr: bool,
) {
    let width = abi.ptr;
    let vals = Some((params_in, result_val));
    let mut bad = |rep: &mut Report, class: &str, detail: &str| violation(rep, c, combo, width, policy, class, detail, vals);
    let mut host = CallHost {
        abi: *abi,
        func: c.func,
        ptys: ptys.to_vec(),
        variant: combo.v,
        refsig: refsig.clone(),
        result_val: result_val.clone(),
        got_params: None,
        problems: vec![],
        task_return: vec![],
        task_return_types: vec![],
        callee_result_block: None,
        self_ptr,
    };
    let mut mem = Mem::new(width);
    let lift_dir = combo.ll == LiftLower::LiftArgsLowerResults;
    let mut args: Vec<MV> = vec![];
    let mut param_record: Option<(u64, usize, usize)> = None;
    let mut retptr_block: Option<u64> = None;
    if lift_dir {
        // the harness is the caller: build the core arguments per the reference
        mem.trait_kind = BlockKind::Harness;
        if refsig.indirect_params {
            let (s, al) = abi.record_layout(ptys);
            let kind = if is_export(combo.v) { BlockKind::Realloc } else { BlockKind::Harness };
            let p = mem.alloc(s.max(1), al, kind, "param-record").unwrap();
            for ((ty, v), o) in ptys.iter().zip(params_in).zip(abi.field_offsets(ptys)) {
                if let Err(e) = abi.store(&mut mem, v, ty, p + o as u64) {
                    rep.inconclusive(&format!("reference store failed: {}", shorten(&e, 80)));
                    return;
                }
            }
            param_record = Some((p, s.max(1), al));
            args.push(MV::Core(CoreVal::from_bits(core_of(WasmType::Pointer, width), p)));
        } else {
            for (ty, v) in ptys.iter().zip(params_in) {
                match abi.lower_flat(&mut mem, v, ty) {
                    Ok(f) => args.extend(f.into_iter().map(MV::Core)),
                    Err(e) => {
                        rep.inconclusive(&format!("reference lower_flat failed: {}", shorten(&e, 80)));
                        return;
                    }
                }
            }
            if self_ptr {
                if let Some(MV::Core(c0)) = args.first().cloned() {
                    args[0] = MV::Core(CoreVal::from_bits(core_of(WasmType::Pointer, width), c0.bits()));
                }
            }
        }
        if !is_export(combo.v) && refsig.retptr {
            let (s, al) = abi.record_layout(&[c.func.result.unwrap()]);
            let p = mem.alloc(s.max(1), al, BlockKind::Harness, "caller-retptr").unwrap();
            retptr_block = Some(p);
            args.push(MV::Core(CoreVal::from_bits(core_of(WasmType::Pointer, width), p)));
        }
        if args.len() != refsig.params.len() {
            rep.inconclusive("harness: built argument count differs from the reference signature");
            return;
        }
    } else {
        args = params_in.iter().map(|v| MV::Iface(v.clone())).collect();
    }

    let (res, ev, mem) = {
        let mut m = Machine::new(c.ctx, width, mem, &mut host);
        m.args = args;
        let r = m.run(&prog.body);
        rep.count_n("machine_steps", m.ev.steps);
        (r, m.ev.clone(), m.mem)
    };
    if let (Err(e), Tier::Incoherent) = (&res, t) {
        rep.count(&format!("unsupported-undefined:{}:machine:{}", combo.name(), e.class));
        return;
    }
    for (class, detail) in std::mem::take(&mut host.problems) {
        bad(rep, &class, &detail);
    }
    if let Err(e) = res {
        if e.class != "callee" || host.got_params.is_none() {
            bad(rep, &e.class, &e.detail);
        } else {
            bad(rep, "callee-cannot-decode", &e.detail);
        }
        return;
    }
    // ---- (c) exactly one call
    let calls = ev.call_wasm + ev.call_interface;
    if calls != 1 || (lift_dir && ev.call_interface != 1) || (!lift_dir && ev.call_wasm != 1) {
        bad(rep, "call-count", &format!("{} CallWasm and {} CallInterface executed", ev.call_wasm, ev.call_interface));
    }
    // ---- (f) values delivered to the callee
    match &host.got_params {
        Some(g) if g.as_slice() == params_in => {}
        Some(g) => bad(rep, "params-delivered-differ", &format!("callee received ({}) but the caller passed ({})", shorten(&g.iter().map(|v| v.text()).collect::<Vec<_>>().join(", "), 300), shorten(&params_in.iter().map(|v| v.text()).collect::<Vec<_>>().join(", "), 300))),
        None => bad(rep, "params-not-delivered", "callee never ran"),
    }
    if let Some(le) = mem.ledger_errors.first() {
        bad(rep, &format!("ledger:{}", le.class), &le.detail);
    }
    if ev.after_return > 0 {
        bad(rep, "instructions-after-return", &format!("{} instructions executed after Return", ev.after_return));
    }
    rep.count(&format!("ran:{}", combo.name()));
    if t != Tier::Judged {
        return;
    }

    // ---- result passing
    let sync = !combo.a;
    let rty = c.func.result;
    if sync {
        if ev.task_return != 0 || ev.returns.len() != 1 {
            bad(rep, "return-count", &format!("{} Return and {} AsyncTaskReturn executed in a sync function", ev.returns.len(), ev.task_return));
            return;
        }
        let ret = &ev.returns[0];
        if !lift_dir {
            // glue returns the lifted interface result
            match (ret.as_slice(), result_val) {
                ([], None) => {}
                ([MV::Iface(v)], Some(w)) if v == w => {}
                (got, want) => bad(rep, "result-delivered-differs", &format!("caller received {:?}, callee returned {:?}", got.iter().map(|g| match g { MV::Iface(v) => shorten(&v.text(), 150), o => o.kind() }).collect::<Vec<_>>(), want.as_ref().map(|v| shorten(&v.text(), 150)))),
            }
            // (b') ownership: lowering for a wasm import must not allocate through realloc
            if combo.v == AbiVariant::GuestImport && mem.count(BlockKind::Realloc) != 0 {
                bad(rep, "import-lowering-used-realloc", "parameters of a guest import call were lowered with realloc (ownership is not transferred)");
            }
            if combo.v == AbiVariant::GuestExport && refsig.indirect_params {
                let (s, al) = abi.record_layout(ptys);
                match ev.mallocs.as_slice() {
                    [(_, ms, ma)] if (*ms, *ma) == (s, al) => {}
                    other => bad(rep, "param-record-malloc", &format!("indirect parameter record: Malloc {other:?}, reference layout size {s} align {al}")),
                }
            }
        } else {
            let want_ret = |rep: &mut Report, bad: &mut dyn FnMut(&mut Report, &str, &str), flat: &[MV]| {
                // flat result (<= 1 value)
                let (Some(t), Some(v)) = (&rty, result_val) else {
                    if !flat.is_empty() {
                        bad(rep, "return-arity", &format!("Return with {} values for a function without result", flat.len()));
                    }
                    return;
                };
                let got: Option<Vec<CoreVal>> = flat.iter().map(|m| if let MV::Core(c) = m { Some(*c) } else { None }).collect();
                let Some(got) = got else {
                    bad(rep, "return-kind", "Return operand is not a core value");
                    return;
                };
                let mut rmem = Mem::new(width);
                match abi.lower_flat(&mut rmem, v, t) {
                    Ok(rf) => {
                        if got.len() != rf.len() {
                            bad(rep, "return-arity", &format!("Return with {} values, reference flat result has {}", got.len(), rf.len()));
                        } else if let Err(d) = cmp_flat(abi, t, v, &got, &mem, &rf, &rmem) {
                            bad(rep, &format!("result:{}", d.class), &d.detail);
                        }
                    }
                    Err(e) => rep.inconclusive(&format!("reference lower_flat failed: {}", shorten(&e, 80))),
                }
            };
            let check_mem_result = |rep: &mut Report, bad: &mut dyn FnMut(&mut Report, &str, &str), p: u64| {
                let (Some(t), Some(v)) = (&rty, result_val) else { return };
                let mut rmem = Mem::new(width);
                let (s, al) = abi.record_layout(&[*t]);
                let rp = rmem.alloc(s.max(1), al, BlockKind::Harness, "ref").unwrap();
                if abi.store(&mut rmem, v, t, rp).is_err() {
                    return;
                }
                match cmp_mem(abi, t, v, &mem, p, &rmem, rp) {
                    Err(d) => bad(rep, &format!("result:{}", d.class), &d.detail),
                    Ok(_) => match abi.load(&mem, t, p) {
                        Ok(b) if b == *v => {}
                        Ok(b) => bad(rep, "result:reference-load-differs", &shorten(&b.text(), 200)),
                        Err(e) => bad(rep, "result:reference-load-fails", &e),
                    },
                }
            };
            if refsig.retptr {
                if is_export(combo.v) {
                    // export: returns a pointer to a return area holding the result
                    match ret.as_slice() {
                        [MV::Core(p)] if p.ty() == core_of(WasmType::Pointer, width) => {
                            let (s, al) = abi.record_layout(&[rty.unwrap()]);
                            match ev.ret_areas.iter().find(|(a, _, _)| *a == p.bits()) {
                                Some((_, rs, ra)) if (*rs, *ra) == (s, al) => {}
                                Some((_, rs, ra)) => bad(rep, "return-area-layout", &format!("return area size {rs} align {ra}, reference {s}/{al}")),
                                None => bad(rep, "return-pointer", "returned pointer is not the return area"),
                            }
                            check_mem_result(rep, &mut bad, p.bits());
                        }
                        other => bad(rep, "return-arity", &format!("export with indirect result returned {} values", other.len())),
                    }
                } else {
                    if !ret.is_empty() {
                        bad(rep, "return-arity", &format!("import with return pointer returned {} values", ret.len()));
                    }
                    check_mem_result(rep, &mut bad, retptr_block.unwrap());
                }
            } else {
                want_ret(rep, &mut bad, ret);
            }
            // (d) caller-allocated parameter record of a sync export
            if let (Some((p, s, al)), true) = (param_record, is_export(combo.v)) {
                let blk = mem.allocs.iter().find(|b| b.addr == p).unwrap();
                if blk.freed != 1 {
                    bad(rep, "param-record-not-freed", &format!("parameter record ({s} bytes, align {al}) allocated by the caller was freed {} times", blk.freed));
                }
            }
        }
    } else {
        // async lift: results go through task.return exactly once
        if ev.task_return != 1 || !ev.returns.is_empty() {
            bad(rep, "task-return-count", &format!("{} AsyncTaskReturn and {} Return executed in an async lift", ev.task_return, ev.returns.len()));
            return;
        }
        if combo.v == AbiVariant::GuestImportAsync {
            // host implementing an async import: result flat iff it fits the async flat limit,
            // otherwise stored through the caller's return pointer and task.return takes nothing
            let flat = rty.map(|t| abi.flatten(&t)).unwrap_or_default();
            let want: Vec<CoreTy> = if flat.len() <= cabi_ref::MAX_FLAT_ASYNC_PARAMS { flat.clone() } else { vec![] };
            if host.task_return_types[0] != want {
                bad(rep, "task-return-signature", &format!("async import: task.return params {:?}, expected {:?} (flat limit {})", host.task_return_types[0], want, cabi_ref::MAX_FLAT_ASYNC_PARAMS));
                return;
            }
            if flat.len() > cabi_ref::MAX_FLAT_ASYNC_PARAMS {
                let (t, v) = (rty.unwrap(), result_val.as_ref().unwrap());
                match abi.load(&mem, &t, retptr_block.unwrap()) {
                    Ok(b) if b == *v => {}
                    Ok(b) => bad(rep, "result:reference-load-differs", &shorten(&b.text(), 200)),
                    Err(e) => bad(rep, "result:reference-load-fails", &e),
                }
                return;
            }
        } else {
            let reftr = abi.signature(ptys, rty.as_ref(), SigKind::TaskReturn);
            if host.task_return_types[0] != reftr.params {
                bad(rep, "task-return-signature", &format!("task.return params {:?}, reference {:?}", host.task_return_types[0], reftr.params));
            }
        }
        match (&host.task_return[0], result_val) {
            (Ok(None), None) => {}
            (Ok(Some(v)), Some(w)) if v == w => {}
            (Ok(g), w) => bad(rep, "task-return-value-differs", &format!("task.return carried {:?}, callee returned {:?}", g.as_ref().map(|v| shorten(&v.text(), 150)), w.as_ref().map(|v| shorten(&v.text(), 150)))),
            (Err(e), _) => bad(rep, "task-return-undecodable", e),
        }
        // results of an async lift are not handed over: no realloc allocations
        let reallocs = mem.allocs.iter().filter(|b| b.kind == BlockKind::Realloc && Some(b.addr) != param_record.map(|p| p.0)).count();
        if reallocs != 0 && is_export(combo.v) {
            bad(rep, "async-result-lowered-with-realloc", &format!("{reallocs} blocks allocated through realloc while lowering task.return arguments (nobody frees them)"));
        }
        if let (Some((p, s, al)), true) = (param_record, is_export(combo.v)) {
            let blk = mem.allocs.iter().find(|b| b.addr == p).unwrap();
            if blk.freed == 0 {
                // spec: canon lift lowers >16 flat params through realloc for async lifts too
                rep.count("async-export-param-record-never-freed");
                let sig = "call:async-export:indirect-param-record-never-freed";
                if !rep.has_violation(sig) {
                    rep.violation(
                        sig,
                        &format!(
                            "async-lifted export with more than 16 flat parameters: the caller allocates the parameter record ({s} bytes, align {al}) through cabi_realloc exactly as for a sync export (canon lift: lower_flat_values with MAX_FLAT_PARAMS), but the glue emitted by abi::call never frees it (GuestDeallocate is emitted only when !async_) [func {} combo {} width {width}]",
                            c.path,
                            combo.name()
                        ),
                        replay_of(c, combo, width, policy, vals),
                    );
                }
            }
        }
    }
}

fn main() {
    let args = Args::parse();
    let tier_name = args.str("tier", "quick");
    let seed = args.seed();
    let mut rep = Report::new("case = (function signature, ABI variant, direction, async flag, pointer width, value set); distinct = (flattened parameter shapes -> result shape) keys");
    rep.max_samples = 4;
    rep.assume("cabi-ref::signature is the canonical core signature (MAX_FLAT_PARAMS=16, async lower 4, MAX_FLAT_RESULTS=1, task.return flat<=16)");
    rep.assume("combinations whose async flag contradicts the variant, and async-variant lowering through abi::call, have no defined convention: panics there are counted, successful runs get the parameter-side checks only");
    rep.extra.insert("whitelist_explicit".into(), json!(EXPLICIT.iter().map(|w| json!({"variant": w.0, "direction": w.1, "async": w.2, "condition": w.3, "marker": w.5})).collect::<Vec<_>>()));
    rep.extra.insert(
        "combinations_used_by_backends_in_this_repository".into(),
        json!({
            "by": "source inspection of every abi::call call site (crates/*/src)",
            "GuestImport:lower:sync": ["rust", "c", "cpp", "csharp", "go", "moonbit", "d"],
            "GuestExport:lift:sync": ["rust", "c", "cpp", "csharp", "go", "moonbit", "d"],
            "GuestExportAsync:lift:async": ["rust", "c", "go", "moonbit"],
            "GuestExport:lift:async": ["csharp"],
            "other entry points": "lower_flat / lower_to_memory / lift_from_memory (rust, go, csharp, moonbit: async imports, stream/future payloads), post_return (rust, c, cpp, csharp, moonbit, d), deallocate_lists_in_types / deallocate_lists_and_own_in_types (rust, moonbit)",
        }),
    );
    let (nrandom, nsets) = match tier_name.as_str() {
        "thorough" => (3000, 10),
        "miri" => (0, 1),
        _ => (50, 3),
    };
    let mut units = vec![];
    let mut only: Option<serde_json::Value> = None;
    if let Some(path) = args.get("replay") {
        let Some(r) = load_replay(path) else {
            rep.inconclusive("replay file unreadable");
            rep.write(&args.out());
            return;
        };
        match unit_from_replay(&r) {
            Some(u) => units.push(u),
            None => {
                rep.inconclusive("replay unit cannot be rebuilt");
                rep.write(&args.out());
                return;
            }
        }
        only = Some(r);
    } else {
        if tier_name == "miri" {
            units.push(miri_unit());
        } else {
            units.push(limits_unit());
            units.extend(boundary_units());
            units.push(dealloc_unit());
        }
        let mut stats = (0, 0);
        let mut rng = Rng::new(seed.wrapping_mul(0x9E37_79B9).wrapping_add(2));
        units.extend(random_units(&mut rng, nrandom, &mut stats));
        rep.extra.insert("random_worlds".into(), json!(stats.0));
    }
    let mut work = vec![];
    for (ui, u) in units.iter().enumerate() {
        for f in u.funcs() {
            if let Some(o) = &only {
                if o["path"].as_str() != Some(&f.path) {
                    continue;
                }
            }
            work.push((ui, f));
        }
    }
    if tier_name == "miri" {
        work.truncate(25);
    }
    rep.extra.insert("functions_scheduled".into(), json!(work.len()));
    let ctxs: Vec<Ctx> = units.iter().map(|u| Ctx::new(&u.resolve)).collect();
    let nt = nthreads(&tier_name);
    let parts = parallel(nt, |wi| {
        let mut r = Report::new("");
        r.max_samples = 1;
        for (k, (ui, f)) in work.iter().enumerate() {
            if k % nt != wi {
                continue;
            }
            let c = Ctxt { unit: &units[*ui], ctx: &ctxs[*ui], path: &f.path, func: &f.func };
            let res = catch(std::panic::AssertUnwindSafe(|| check_func(&mut r, &c, seed, nsets, only.as_ref(), tier_name == "miri")));
            if let Err((msg, loc)) = res {
                r.inconclusive(&format!("harness panicked at {}: {}", panic_site(&loc), shorten(&msg, 120)));
            }
        }
        r
    });
    for p in parts {
        merge(&mut rep, p);
    }
    if rep.samples.is_empty() && !work.is_empty() {
        rep.sample(json!({"fallback": "first scheduled function", "unit": units[work[0].0].label, "path": work[0].1.path}));
    }
    rep.write(&args.out());
}
