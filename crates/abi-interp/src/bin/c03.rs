//! C03 — cleanup code frees exactly the heap data the lowering allocated.
//! Lower with realloc (export result / payload / async-import parameters), then
//! run post_return / deallocate_lists_in_types / deallocate_lists_and_own_in_types
//! in the abstract machine and judge the allocator ledger + DropHandle multiset.
use abi_interp::cmp::*;
use abi_interp::corpus::*;
use abi_interp::harness::*;
use abi_interp::ir::*;
use abi_interp::machine::*;
use abi_interp::mem::*;
use abi_interp::runs::*;
use cabi_ref::{Abi, CoreVal, GenCfg, Shape, Val};
use serde_json::json;
use vkit::{hash64, Args, Report, Rng};
use wit_bindgen_core::abi::{self, AbiVariant, LiftLower, WasmType};
use wit_bindgen_core::wit_parser::{Function, Type};

// stable signatures of the genuine defects this check is known to exhibit
const SIG_FIXED_LEAK: &str = "dealloc-indirect:fixed-length-list-contents-not-released";
const SIG_FIXED_TODO: &str = "dealloc-direct:fixed-length-list:todo-panic";
const SIG_ERRCTX_NEEDS: &str = "needs-post-return:error-context-result-without-heap-buffer";
const SIG_ERRCTX_ASSERT: &str = "post_return:error-context-result:assert-retptr";

struct RetHost {
    result: Option<Val>,
}
impl Host for RetHost {
    fn call_interface(&mut self, _n: &str, _a: Vec<Val>, _h: bool, _async: bool) -> Result<Option<Val>, String> {
        Ok(self.result.clone())
    }
}

struct C<'a> {
    unit: &'a Unit,
    ctx: &'a Ctx<'a>,
}

fn contains_fixed(abi: &Abi, ty: &Type) -> bool {
    match abi.shape(ty) {
        Shape::FixedList(..) => true,
        Shape::List(t) => contains_fixed(abi, &t),
        Shape::Map(k, v) => contains_fixed(abi, &k) || contains_fixed(abi, &v),
        Shape::Record(fs) => fs.iter().any(|f| contains_fixed(abi, f)),
        Shape::Variant(cs, _) => cs.iter().flatten().any(|t| contains_fixed(abi, t)),
        _ => false,
    }
}

fn contains_error_context(abi: &Abi, ty: &Type) -> bool {
    match abi.shape(ty) {
        Shape::Handle(cabi_ref::HandleKind::ErrorContext) => true,
        Shape::List(t) | Shape::FixedList(t, _) => contains_error_context(abi, &t),
        Shape::Map(k, v) => contains_error_context(abi, &k) || contains_error_context(abi, &v),
        Shape::Record(fs) => fs.iter().any(|f| contains_error_context(abi, f)),
        Shape::Variant(cs, _) => cs.iter().flatten().any(|t| contains_error_context(abi, t)),
        _ => false,
    }
}

/// heap blocks and owned handles of a value that sit inside a fixed-length list
#[derive(Default)]
struct InFixed {
    blocks: usize,
    owned: Vec<u32>,
}

fn walk_fixed(abi: &Abi, ty: &Type, val: &Val, inside: bool, acc: &mut InFixed) {
    use cabi_ref::HandleKind;
    match (abi.shape(ty), val) {
        (Shape::String, Val::Str(s)) => {
            if inside && !s.is_empty() {
                acc.blocks += 1
            }
        }
        (Shape::List(t), Val::List(es)) => {
            if inside && !es.is_empty() && abi.elem_size(&t) > 0 {
                acc.blocks += 1;
            }
            es.iter().for_each(|e| walk_fixed(abi, &t, e, inside, acc));
        }
        (Shape::Map(k, v), Val::Map(es)) => {
            if inside && !es.is_empty() {
                acc.blocks += 1;
            }
            es.iter().for_each(|(a, b)| {
                walk_fixed(abi, &k, a, inside, acc);
                walk_fixed(abi, &v, b, inside, acc);
            });
        }
        (Shape::FixedList(t, _), Val::List(es)) => es.iter().for_each(|e| walk_fixed(abi, &t, e, true, acc)),
        (Shape::Record(fs), Val::Record(vs)) => fs.iter().zip(vs).for_each(|(f, v)| walk_fixed(abi, f, v, inside, acc)),
        (Shape::Variant(cs, _), Val::Variant(c, Some(p))) => {
            if let Some(t) = &cs[*c as usize] {
                walk_fixed(abi, t, p, inside, acc)
            }
        }
        (Shape::Handle(HandleKind::Own | HandleKind::Future | HandleKind::Stream), Val::Handle(h)) => {
            if inside {
                acc.owned.push(*h)
            }
        }
        _ => {}
    }
}

struct Scenario<'s> {
    /// e.g. "post_return", "payload-indirect", "params-direct"
    entry: &'s str,
    own: bool,
    path: &'s str,
    width: usize,
    policy: CanonPolicy,
    tys: &'s [Type],
    vals: &'s [Val],
}

fn witness(c: &C, s: &Scenario) -> serde_json::Value {
    json!({"unit": c.unit.label, "wit": c.unit.wit, "synthetic": c.unit.synthetic, "path": s.path, "width": s.width, "policy": s.policy.name(),
           "mode": format!("{}:{}", s.entry, if s.own { "lists-and-own" } else { "lists" }),
           "value": s.vals.iter().map(|v| v.text()).collect::<Vec<_>>()})
}

fn violation(rep: &mut Report, c: &C, s: &Scenario, sig: &str, detail: &str) {
    rep.count("failures");
    if rep.has_violation(sig) {
        return;
    }
    let abi = Abi::new(c.ctx.resolve, s.width);
    if s.tys.iter().any(|t| outside_encodable_domain(&abi, t)) {
        rep.inconclusive("outside encodable domain (flags with 0 or >32 members)");
        return;
    }
    if let Some(d) = s.tys.iter().find_map(|t| layout_disagreement(c.ctx, &abi, t)) {
        rep.inconclusive(&format!("reference or wit-parser suspect — triage first: {}", shorten(&d, 200)));
        return;
    }
    let tydesc = s.tys.iter().map(|t| shorten(&abi.shape_key(t), 120)).collect::<Vec<_>>().join(", ");
    rep.violation(
        sig,
        &format!("{detail} [{} {} types ({tydesc}) values ({}) width {} policy {}]", s.entry, s.path, shorten(&s.vals.iter().map(|v| v.text()).collect::<Vec<_>>().join(", "), 300), s.width, s.policy.name()),
        witness(c, s),
    );
}

fn generic_sig(s: &Scenario, class: &str, abi: &Abi) -> String {
    let kind = s.tys.first().map(|t| top_kind(abi, t)).unwrap_or_else(|| "none".into());
    format!("{}:{}:{class}:{kind}", s.entry, if s.own { "lists-and-own" } else { "lists" })
}

/// Judge the memory + events after the cleanup program ran.
fn judge(rep: &mut Report, c: &C, s: &Scenario, mem: &Mem, dropped: &[u32], keep: &[u64]) {
    let abi = Abi::new(c.ctx.resolve, s.width);
    rep.count(&format!("judged:{}:{}", s.entry, if s.own { "own" } else { "lists" }));
    rep.count_n("blocks_allocated", mem.count(BlockKind::Realloc) as u64);
    rep.count_n("zero_size_frees", mem.zero_size_frees);
    let mut in_fixed = InFixed::default();
    for (t, v) in s.tys.iter().zip(s.vals) {
        walk_fixed(&abi, t, v, false, &mut in_fixed);
    }
    if rep.samples.len() < rep.max_samples && mem.count(BlockKind::Realloc) > 0 {
        let blocks: Vec<serde_json::Value> = mem.allocs.iter().filter(|b| b.kind == BlockKind::Realloc).take(8).map(|b| json!({"from": b.what, "size": b.size, "align": b.align, "times_freed": b.freed})).collect();
        rep.sample(json!({
            "unit": c.unit.label, "path": s.path, "scenario": format!("{}:{}", s.entry, if s.own { "lists-and-own" } else { "lists" }),
            "types": s.tys.iter().map(|t| shorten(&abi.shape_key(t), 160)).collect::<Vec<_>>(),
            "values": s.vals.iter().map(|v| shorten(&v.text(), 200)).collect::<Vec<_>>(),
            "width": s.width, "policy": s.policy.name(),
            "blocks_allocated_by_lowering": mem.count(BlockKind::Realloc), "blocks_live_after_cleanup": mem.live(BlockKind::Realloc).len(),
            "blocks": blocks, "zero_size_frees": mem.zero_size_frees, "handles_dropped": dropped, "ledger_errors": mem.ledger_errors.len(),
        }));
    }
    // bad frees (double, wrong size/align, not owned, unallocated)
    if let Some(e) = mem.ledger_errors.first() {
        violation(rep, c, s, &generic_sig(s, &format!("ledger:{}", e.class), &abi), &e.detail);
    }
    // leaks
    let live: Vec<&AllocRec> = mem.live(BlockKind::Realloc).into_iter().filter(|b| !keep.contains(&b.addr)).collect();
    let mut fixed_defect = false;
    if !live.is_empty() {
        if live.len() == in_fixed.blocks {
            fixed_defect = true;
        } else {
            let b = live[0];
            violation(
                rep,
                c,
                s,
                &generic_sig(s, "leak", &abi),
                &format!("{} of {} blocks allocated by the lowering were never freed (first: {} bytes align {} from {}; {} blocks sit inside fixed-length lists)", live.len(), mem.count(BlockKind::Realloc), b.size, b.align, b.what, in_fixed.blocks),
            );
        }
    }
    // handles
    let mut want_owned = vec![];
    let mut borrowed = vec![];
    if s.own {
        for (t, v) in s.tys.iter().zip(s.vals) {
            collect_handles(&abi, t, v, &mut want_owned, &mut borrowed);
        }
    }
    let mut got = dropped.to_vec();
    got.sort();
    want_owned.sort();
    if got != want_owned {
        let mut minus_fixed = want_owned.clone();
        for h in &in_fixed.owned {
            if let Some(i) = minus_fixed.iter().position(|x| x == h) {
                minus_fixed.remove(i);
            }
        }
        if s.own && got == minus_fixed {
            fixed_defect = true;
        } else {
            violation(rep, c, s, &generic_sig(s, "drop-handle-multiset", &abi), &format!("DropHandle operands {got:?}, owned handles in the value {want_owned:?} (borrows {borrowed:?})"));
        }
    }
    if fixed_defect {
        rep.count("fixed-length-list-contents-not-released");
        violation(
            rep,
            c,
            s,
            SIG_FIXED_LEAK,
            &format!(
                "heap buffers / owned handles inside a fixed-length list are never released: {} leaked blocks, handles not dropped {:?}; Generator::deallocate_indirect has `TypeDefKind::FixedLengthList(_, _) => {{}}` although needs_deallocate() recurses into the element type",
                live.len(),
                in_fixed.owned
            ),
        );
    }
}

fn machine_fail(rep: &mut Report, c: &C, s: &Scenario, stage: &str, e: &MErr) {
    let abi = Abi::new(c.ctx.resolve, s.width);
    violation(rep, c, s, &generic_sig(s, &format!("{stage}:{}", e.class), &abi), &e.detail);
}

fn record_fail(rep: &mut Report, c: &C, s: &Scenario, what: &str, e: &RecErr) {
    let abi = Abi::new(c.ctx.resolve, s.width);
    let sig = e.sig();
    if let RecErr::Panic(p) = e {
        if p.site() == "core/abi.rs:deallocate" && p.msg.starts_with("not yet implemented") && s.tys.iter().any(|t| contains_fixed(&abi, t)) {
            rep.count("fixed-length-list-direct-todo");
            violation(rep, c, s, SIG_FIXED_TODO, &format!("Generator::deallocate hits `TypeDefKind::FixedLengthList(..) => todo!()`: no cleanup code can be generated for flat operands containing a fixed-length list ({})", e.text()));
            return;
        }
    }
    violation(rep, c, s, &generic_sig(s, &format!("record-{what}:{sig}"), &abi), &e.text());
}

/// S2: payload of type `ty` lowered to memory / flat, then deallocated.
fn check_type(rep: &mut Report, c: &C, path: &str, ty: Type, seed: u64, nvals: usize) {
    let resolve = c.ctx.resolve;
    let abi4 = Abi::new(resolve, 4);
    rep.distinct(&abi4.shape_key(&ty));
    let mut rng = Rng::new(seed ^ hash64(format!("{}/{}", c.unit.label, path).as_bytes()));
    let gcfg = GenCfg { max_list: 4, max_handle: 1 << 16, ..Default::default() };
    let vals = abi4.gen_vals(&mut rng, &ty, &gcfg, nvals);
    let nflat = abi4.flatten(&ty).len();
    let mut elems = vec![];
    list_elements(&abi4, &ty, &mut elems);
    let mut policies = vec![CanonPolicy::Never];
    if elems.iter().any(|e| is_canonical(CanonPolicy::RustLike, resolve, e)) {
        policies.push(CanonPolicy::RustLike);
    }
    let tys = [ty];
    for policy in policies {
        let lm = record_lower_to_memory(resolve, &ty, policy);
        let lf = if nflat <= 16 { Some(record_lower_flat(resolve, &ty, policy)) } else { None };
        for own in [false, true] {
            let di = record_dealloc(resolve, &tys, 1, true, own, policy);
            let dd = if nflat <= 16 { Some(record_dealloc(resolve, &tys, nflat, false, own, policy)) } else { None };
            for width in [4usize, 8] {
                let abi = Abi::new(resolve, width);
                for v in &vals {
                    let one = [v.clone()];
                    // ---------------- indirect
                    let s = Scenario { entry: "payload-indirect", own, path, width, policy, tys: &tys, vals: &one };
                    match (&lm, &di) {
                        (Ok(lm), Ok(di)) => {
                            rep.eval();
                            let mut host = NoHost;
                            let mut mem = Mem::new(width);
                            let addr = mem.alloc(abi.elem_size(&ty).max(1), abi.alignment(&ty), BlockKind::Harness, "payload-buffer").unwrap();
                            let mut m = Machine::new(c.ctx, width, mem, &mut host);
                            m.set(lm.addr, MV::Core(m.ptr_val(addr)));
                            m.set(lm.value, MV::Iface(v.clone()));
                            if let Err(e) = m.run(&lm.prog.body) {
                                machine_fail(rep, c, &s, "lowering", &e);
                                continue;
                            }
                            let mem = m.mem;
                            let mut host = NoHost;
                            let mut m = Machine::new(c.ctx, width, mem, &mut host);
                            m.set(di.operands[0], MV::Core(m.ptr_val(addr)));
                            let r = m.run(&di.prog.body);
                            rep.count_n("machine_steps", m.ev.steps);
                            match r {
                                Err(e) => machine_fail(rep, c, &s, "cleanup", &e),
                                Ok(()) => judge(rep, c, &s, &m.mem, &m.ev.dropped, &[]),
                            }
                        }
                        (Err(e), _) => record_fail(rep, c, &s, "lower_to_memory", e),
                        (_, Err(e)) => record_fail(rep, c, &s, "deallocate", e),
                    }
                    // ---------------- direct
                    let s = Scenario { entry: "payload-direct", own, path, width, policy, tys: &tys, vals: &one };
                    if let (Some(lf), Some(dd)) = (&lf, &dd) {
                        match (lf, dd) {
                            (Ok(lf), Ok(dd)) => {
                                rep.eval();
                                let mut host = NoHost;
                                let mut m = Machine::new(c.ctx, width, Mem::new(width), &mut host);
                                m.set(lf.value, MV::Iface(v.clone()));
                                if let Err(e) = m.run(&lf.prog.body) {
                                    machine_fail(rep, c, &s, "lowering", &e);
                                    continue;
                                }
                                let flat: Result<Vec<MV>, MErr> = lf.results.iter().map(|o| m.get(*o)).collect();
                                let Ok(flat) = flat else { continue };
                                let mem = m.mem;
                                let mut host = NoHost;
                                let mut m = Machine::new(c.ctx, width, mem, &mut host);
                                for (o, f) in dd.operands.iter().zip(flat) {
                                    m.set(*o, f);
                                }
                                let r = m.run(&dd.prog.body);
                                rep.count_n("machine_steps", m.ev.steps);
                                match r {
                                    Err(e) => machine_fail(rep, c, &s, "cleanup", &e),
                                    Ok(()) => judge(rep, c, &s, &m.mem, &m.ev.dropped, &[]),
                                }
                            }
                            (Err(e), _) => record_fail(rep, c, &s, "lower_flat", e),
                            (_, Err(e)) => record_fail(rep, c, &s, "deallocate", e),
                        }
                    }
                }
            }
        }
    }
}

/// S1 (export result + post_return) and S3 (async-import parameters).
fn check_func(rep: &mut Report, c: &C, path: &str, func: &Function, seed: u64, nsets: usize) {
    let resolve = c.ctx.resolve;
    let abi4 = Abi::new(resolve, 4);
    let ptys: Vec<Type> = func.params.iter().map(|p| p.ty).collect();
    let h = hash64(format!("{}/{}", c.unit.label, path).as_bytes());
    let mut rng = Rng::new(seed ^ h);
    let gcfg = GenCfg { max_list: 3, max_handle: 1 << 16, ..Default::default() };
    let policy = if h % 2 == 0 { CanonPolicy::Never } else { CanonPolicy::RustLike };
    rep.distinct(&format!("fn:{}->{}", ptys.iter().map(|t| abi4.shape_key(t)).collect::<Vec<_>>().join(","), func.result.map(|t| abi4.shape_key(&t)).unwrap_or_default()));

    // ------------------------------------------------ S1: result + post_return
    if let Some(rty) = func.result {
        let rtys = [rty];
        let needs = abi::guest_export_needs_post_return(resolve, func);
        let heap = abi4.contains_heap(&rty);
        rep.eval();
        rep.count(&format!("needs_post_return:{needs}:contains_heap:{heap}"));
        let s0 = Scenario { entry: "post_return", own: false, path, width: 4, policy, tys: &rtys, vals: &[] };
        if needs != heap {
            if needs && contains_error_context(&abi4, &rty) {
                rep.count("error-context-needs-post-return");
                violation(rep, c, &s0, SIG_ERRCTX_NEEDS, &format!("guest_export_needs_post_return() = true for result type {} which contains no string/list/map: needs_deallocate(Type::ErrorContext) returns true", shorten(&abi4.shape_key(&rty), 200)));
            } else {
                violation(rep, c, &s0, &format!("needs-post-return:{}:{}", if needs { "true-without-heap" } else { "false-with-heap" }, top_kind(&abi4, &rty)), &format!("guest_export_needs_post_return() = {needs} but the result type {} heap buffers (by type)", if heap { "contains" } else { "contains no" }));
            }
        }
        if needs {
            let call = record_call(resolve, AbiVariant::GuestExport, LiftLower::LiftArgsLowerResults, func, false, policy);
            let post = record_post_return(resolve, func, policy);
            match (&call, &post) {
                (Ok(call), Ok(post)) => {
                    for width in [4usize, 8] {
                        if width == 8 && matches!(func.kind, wit_bindgen_core::wit_parser::FunctionKind::Method(_) | wit_bindgen_core::wit_parser::FunctionKind::AsyncMethod(_)) {
                            continue;
                        }
                        let abi = Abi::new(resolve, width);
                        let mut vals = abi.gen_vals(&mut rng, &rty, &gcfg, nsets);
                        vals.truncate(nsets.max(8));
                        for r in &vals {
                            rep.eval();
                            let one = [r.clone()];
                            let s = Scenario { entry: "post_return", own: false, path, width, policy, tys: &rtys, vals: &one };
                            // caller side: build arguments per the reference
                            let mut mem = Mem::new(width);
                            mem.trait_kind = BlockKind::Harness;
                            let params: Vec<Val> = ptys.iter().map(|t| abi.gen_val(&mut rng, t, &gcfg, 1)).collect();
                            let sig = abi.signature(&ptys, Some(&rty), cabi_ref::SigKind::SyncLift);
                            let mut args = vec![];
                            let mut ok = true;
                            if sig.indirect_params {
                                let (sz, al) = abi.record_layout(&ptys);
                                let p = mem.alloc(sz.max(1), al, BlockKind::Realloc, "param-record").unwrap();
                                for ((t, v), o) in ptys.iter().zip(&params).zip(abi.field_offsets(&ptys)) {
                                    ok &= abi.store(&mut mem, v, t, p + o as u64).is_ok();
                                }
                                args.push(MV::Core(CoreVal::from_bits(core_of(WasmType::Pointer, width), p)));
                            } else {
                                for (t, v) in ptys.iter().zip(&params) {
                                    match abi.lower_flat(&mut mem, v, t) {
                                        Ok(f) => args.extend(f.into_iter().map(MV::Core)),
                                        Err(_) => ok = false,
                                    }
                                }
                            }
                            if !ok {
                                rep.inconclusive("reference could not build the export arguments");
                                continue;
                            }
                            let mut host = RetHost { result: Some(r.clone()) };
                            let mut m = Machine::new(c.ctx, width, mem, &mut host);
                            m.args = args;
                            if let Err(e) = m.run(&call.body) {
                                machine_fail(rep, c, &s, "export-call", &e);
                                continue;
                            }
                            let ret = m.ev.returns.first().and_then(|r| r.first()).cloned();
                            let Some(MV::Core(ptr)) = ret else {
                                violation(rep, c, &s, &generic_sig(&s, "export-returned-no-pointer", &abi), "post-return needed but the export did not return a pointer");
                                continue;
                            };
                            let mem = m.mem;
                            let mut host = NoHost;
                            let mut m = Machine::new(c.ctx, width, mem, &mut host);
                            m.args = vec![MV::Core(ptr)];
                            let r2 = m.run(&post.body);
                            rep.count_n("machine_steps", m.ev.steps);
                            match r2 {
                                Err(e) => machine_fail(rep, c, &s, "cleanup", &e),
                                Ok(()) => {
                                    if m.ev.returns.len() != 1 || !m.ev.returns[0].is_empty() {
                                        violation(rep, c, &s, &generic_sig(&s, "return", &abi), "post_return must end with Return { amt: 0 }");
                                    }
                                    judge(rep, c, &s, &m.mem, &m.ev.dropped, &[]);
                                }
                            }
                        }
                    }
                }
                (Err(e), _) => record_fail(rep, c, &s0, "call", e),
                (_, Err(e)) => {
                    let is_assert = matches!(e, RecErr::Panic(p) if p.site() == "core/abi.rs:post_return" && p.msg.contains("sig.retptr"));
                    if is_assert && contains_error_context(&abi4, &rty) && !heap {
                        rep.count("error-context-post-return-assert");
                        violation(rep, c, &s0, SIG_ERRCTX_ASSERT, &format!("post_return panics on `assert!(sig.retptr)` for a result that flattens to a single value ({}): guest_export_needs_post_return() said a post-return is needed ({})", shorten(&abi4.shape_key(&rty), 100), e.text()));
                    } else {
                        record_fail(rep, c, &s0, "post_return", e)
                    }
                }
            }
        }
    }

    // ------------------------------------------------ S3: async-import params
    if ptys.is_empty() {
        return;
    }
    let nflat: usize = ptys.iter().map(|t| abi4.flatten(t).len()).sum();
    let indirect = nflat > cabi_ref::MAX_FLAT_ASYNC_PARAMS;
    for own in [false, true] {
        let entry = if indirect { "params-indirect" } else { "params-direct" };
        let dealloc = record_dealloc(resolve, &ptys, if indirect { 1 } else { nflat }, indirect, own, policy);
        // how the Rust backend lowers async-import parameters: lower_to_memory per
        // parameter at its field offset, or lower_flat per parameter
        let lowers_mem: Vec<_> = if indirect { ptys.iter().map(|t| record_lower_to_memory(resolve, t, policy)).collect() } else { vec![] };
        let lowers_flat: Vec<_> = if indirect { vec![] } else { ptys.iter().map(|t| record_lower_flat(resolve, t, policy)).collect() };
        for width in [4usize, 8] {
            let abi = Abi::new(resolve, width);
            for _ in 0..nsets {
                let vals: Vec<Val> = ptys.iter().map(|t| abi.gen_val(&mut rng, t, &gcfg, 0)).collect();
                let s = Scenario { entry, own, path, width, policy, tys: &ptys, vals: &vals };
                let d = match &dealloc {
                    Ok(d) => d,
                    Err(e) => {
                        record_fail(rep, c, &s, "deallocate", e);
                        continue;
                    }
                };
                rep.eval();
                let mut mem = Mem::new(width);
                let mut operands: Vec<MV> = vec![];
                let mut failed = false;
                if indirect {
                    let (sz, al) = abi.record_layout(&ptys);
                    let base = mem.alloc(sz.max(1), al, BlockKind::Harness, "async-param-area").unwrap();
                    for (((t, v), o), lm) in ptys.iter().zip(&vals).zip(abi.field_offsets(&ptys)).zip(&lowers_mem) {
                        let _ = t;
                        match lm {
                            Ok(lm) => {
                                let mut host = NoHost;
                                let mut m = Machine::new(c.ctx, width, mem, &mut host);
                                m.set(lm.addr, MV::Core(m.ptr_val(base + o as u64)));
                                m.set(lm.value, MV::Iface(v.clone()));
                                let r = m.run(&lm.prog.body);
                                mem = m.mem;
                                if let Err(e) = r {
                                    machine_fail(rep, c, &s, "lowering", &e);
                                    failed = true;
                                    break;
                                }
                            }
                            Err(e) => {
                                record_fail(rep, c, &s, "lower_to_memory", e);
                                failed = true;
                                break;
                            }
                        }
                    }
                    operands.push(MV::Core(CoreVal::from_bits(core_of(WasmType::Pointer, width), base)));
                } else {
                    for (v, lf) in vals.iter().zip(&lowers_flat) {
                        match lf {
                            Ok(lf) => {
                                let mut host = NoHost;
                                let mut m = Machine::new(c.ctx, width, mem, &mut host);
                                m.set(lf.value, MV::Iface(v.clone()));
                                let r = m.run(&lf.prog.body);
                                let flat: Result<Vec<MV>, MErr> = lf.results.iter().map(|o| m.get(*o)).collect();
                                mem = m.mem;
                                match (r, flat) {
                                    (Ok(()), Ok(f)) => operands.extend(f),
                                    (Err(e), _) | (_, Err(e)) => {
                                        machine_fail(rep, c, &s, "lowering", &e);
                                        failed = true;
                                        break;
                                    }
                                }
                            }
                            Err(e) => {
                                record_fail(rep, c, &s, "lower_flat", e);
                                failed = true;
                                break;
                            }
                        }
                    }
                }
                if failed || operands.len() != d.operands.len() {
                    continue;
                }
                let mut host = NoHost;
                let mut m = Machine::new(c.ctx, width, mem, &mut host);
                for (o, f) in d.operands.iter().zip(operands) {
                    m.set(*o, f);
                }
                let r = m.run(&d.prog.body);
                rep.count_n("machine_steps", m.ev.steps);
                match r {
                    Err(e) => machine_fail(rep, c, &s, "cleanup", &e),
                    Ok(()) => judge(rep, c, &s, &m.mem, &m.ev.dropped, &[]),
                }
            }
        }
    }
}

fn main() {
    let args = Args::parse();
    let tier = args.str("tier", "quick");
    let seed = args.seed();
    let mut rep = Report::new("case = (type or function, value, cleanup entry point, lists|lists-and-own, direct|indirect, pointer width, list policy); distinct = shape keys of the types / signatures");
    rep.max_samples = 4;
    rep.assume("zero-length lists/strings allocate nothing and free nothing; cabi_dealloc(ptr, 0, _) is a no-op");
    rep.assume("lists lifted by the callee are owned by the callee: only blocks allocated by the lowering under test are tracked");
    let (nrandom, nvals, nsets) = match tier.as_str() {
        "thorough" => (1500, 50, 12),
        "miri" => (0, 2, 1),
        _ => (40, 8, 3),
    };
    let mut units = vec![];
    let mut only: Option<serde_json::Value> = None;
    if let Some(path) = args.get("replay") {
        let Some(r) = load_replay(path) else {
            rep.inconclusive("replay file unreadable");
            rep.write(&args.out());
            return;
        };
        match unit_from_replay(&r) {
            Some(u) => units.push(u),
            None => {
                rep.inconclusive("replay unit cannot be rebuilt");
                rep.write(&args.out());
                return;
            }
        }
        only = Some(r);
    } else {
        if tier == "miri" {
            units.push(miri_unit());
        } else {
            units.push(dealloc_unit());
            units.extend(boundary_units());
            units.push(limits_unit());
        }
        let mut stats = (0, 0);
        let mut rng = Rng::new(seed.wrapping_mul(0x9E37_79B9).wrapping_add(3));
        units.extend(random_units(&mut rng, nrandom, &mut stats));
        rep.extra.insert("random_worlds".into(), json!(stats.0));
    }
    enum W {
        Ty(String, Type),
        Fn(String, Function),
    }
    let mut work = vec![];
    for (ui, u) in units.iter().enumerate() {
        let want = only.as_ref().and_then(|o| o["path"].as_str().map(|s| s.to_string()));
        for (p, t) in u.value_types() {
            if want.as_ref().map(|w| *w != p).unwrap_or(false) {
                continue;
            }
            work.push((ui, W::Ty(p, t)));
        }
        for f in u.funcs() {
            if want.as_ref().map(|w| *w != f.path).unwrap_or(false) {
                continue;
            }
            work.push((ui, W::Fn(f.path, f.func)));
        }
    }
    if tier == "miri" {
        work.truncate(16);
    }
    rep.extra.insert("work_items".into(), json!(work.len()));
    let ctxs: Vec<Ctx> = units.iter().map(|u| Ctx::new(&u.resolve)).collect();
    let nt = nthreads(&tier);
    let parts = parallel(nt, |wi| {
        let mut r = Report::new("");
        r.max_samples = 1;
        for (k, (ui, w)) in work.iter().enumerate() {
            if k % nt != wi {
                continue;
            }
            let c = C { unit: &units[*ui], ctx: &ctxs[*ui] };
            let res = catch(std::panic::AssertUnwindSafe(|| match w {
                W::Ty(p, t) => check_type(&mut r, &c, p, *t, seed, nvals),
                W::Fn(p, f) => check_func(&mut r, &c, p, f, seed, nsets),
            }));
            if let Err((msg, loc)) = res {
                r.inconclusive(&format!("harness panicked at {}: {}", panic_site(&loc), shorten(&msg, 120)));
            }
        }
        r
    });
    for p in parts {
        merge(&mut rep, p);
    }
    if rep.samples.is_empty() && !work.is_empty() {
        rep.sample(json!({"fallback": "first unit scheduled", "unit": units[work[0].0].label}));
    }
    rep.write(&args.out());
}
