//! C04 — variant payload slot joining is lossless and matches the spec
//! (parts 1, 2 and 4 of the design: `abi::cast` for all 49 ordered pairs, the
//! resulting `Bitcast` trees executed by the abstract machine over large sets of
//! bit patterns, and the casts the generator really emits for variant shapes).
use abi_interp::cmp::*;
use abi_interp::corpus::*;
use abi_interp::harness::*;
use abi_interp::ir::*;
use abi_interp::machine::*;
use abi_interp::mem::*;
use abi_interp::runs::*;
use cabi_ref::{Abi, CoreTy, CoreVal, GenCfg, Shape, Val};
use serde_json::json;
use std::collections::{BTreeMap, BTreeSet};
use vkit::{hash64, Args, Report, Rng};
use wit_bindgen_core::abi::{self, AbiVariant, LiftLower, WasmType};
use wit_bindgen_core::wit_parser::Type;

const WT: [WasmType; 7] = [WasmType::I32, WasmType::I64, WasmType::F32, WasmType::F64, WasmType::Pointer, WasmType::PointerOrI64, WasmType::Length];

/// The spec's `join`, refined with the pointer / length / pointer-or-i64 flat
/// types (written from the rules, not copied from wit-parser):
/// equal -> same; i32|f32 -> i32; a length absorbs 32-bit values but is absorbed
/// by 64-bit ones; a pointer absorbs 32-bit values and lengths and becomes
/// pointer-or-i64 when joined with 64-bit values; pointer-or-i64 absorbs
/// everything; everything else is i64.
fn join(a: WasmType, b: WasmType) -> WasmType {
    use WasmType::*;
    if a == b {
        return a;
    }
    let is32 = |t| matches!(t, I32 | F32);
    let is64 = |t| matches!(t, I64 | F64);
    match (a, b) {
        (PointerOrI64, _) | (_, PointerOrI64) => PointerOrI64,
        (Pointer, x) | (x, Pointer) => {
            if is64(x) {
                PointerOrI64
            } else {
                Pointer
            }
        }
        (Length, x) | (x, Length) => {
            if is64(x) {
                I64
            } else {
                Length
            }
        }
        (x, y) if is32(x) && is32(y) => I32,
        _ => I64,
    }
}

#[derive(Clone, Copy, PartialEq, Eq, Debug, PartialOrd, Ord)]
enum Dir {
    /// payload type -> joined slot type (lowering)
    Into,
    /// joined slot type -> payload type (lifting)
    From,
    Same,
}

fn direction(from: WasmType, to: WasmType) -> Option<Dir> {
    if from == to {
        return Some(Dir::Same);
    }
    // (from, to) is producible iff `to` absorbs `from`
    if join(from, to) == to {
        Some(Dir::Into)
    } else if join(from, to) == from {
        Some(Dir::From)
    } else {
        None
    }
}

fn wname(t: WasmType) -> &'static str {
    match t {
        WasmType::I32 => "I32",
        WasmType::I64 => "I64",
        WasmType::F32 => "F32",
        WasmType::F64 => "F64",
        WasmType::Pointer => "Pointer",
        WasmType::PointerOrI64 => "PointerOrI64",
        WasmType::Length => "Length",
    }
}

fn is64(t: CoreTy) -> bool {
    matches!(t, CoreTy::I64 | CoreTy::F64)
}

/// spec oracle for one slot conversion
fn oracle(dir: Dir, v: CoreVal, want: CoreTy) -> CoreVal {
    match dir {
        Dir::Into | Dir::Same => Abi::coerce_into_slot(v, want),
        Dir::From => Abi::coerce_from_slot(v, want),
    }
}

/// A cast compiled for one pointer width: the primitive steps as (from, to) core types.
#[derive(Clone, Debug, PartialEq, Eq, PartialOrd, Ord)]
struct Compiled {
    steps: Vec<(CoreTy, CoreTy)>,
}

fn compile(c: &Cast, width: usize, out: &mut Vec<(CoreTy, CoreTy)>) {
    match c {
        Cast::None => {}
        Cast::Sequence(s) => {
            compile(&s[0], width, out);
            compile(&s[1], width, out);
        }
        p => {
            let (f, t) = p.endpoints().unwrap();
            out.push((core_of(f, width), core_of(t, width)));
        }
    }
}

impl Compiled {
    fn new(c: &Cast, width: usize) -> Compiled {
        let mut steps = vec![];
        compile(c, width, &mut steps);
        Compiled { steps }
    }
    /// same semantics as `machine::apply_cast` (checked against it on a sample)
    #[inline]
    fn run(&self, mut ty: CoreTy, mut bits: u64) -> Result<(CoreTy, u64), (CoreTy, CoreTy)> {
        for (f, t) in &self.steps {
            if ty != *f {
                return Err((*f, ty));
            }
            if is64(*f) && !is64(*t) {
                bits &= 0xffff_ffff;
            }
            ty = *t;
        }
        Ok((ty, bits))
    }
}

const B16: [u16; 16] = [0, 1, 2, 0x7f, 0x80, 0xff, 0x100, 0x7fff, 0x8000, 0x8001, 0xff00, 0xfffe, 0xffff, 0x7f80, 0x7fc0, 0xff80];
const Q16: [u16; 4] = [0, 0xffff, 0x8000, 0x7ff0];

struct SweepJob {
    label: String,
    dir: Dir,
    width: usize,
    have: CoreTy,
    want: CoreTy,
    fwd: Compiled,
    /// the reverse cast for round trips (only for Dir::Into)
    back: Option<Compiled>,
    replay: serde_json::Value,
}

struct SweepResult {
    evaluations: u64,
    failure: Option<(String, String)>,
}

fn sweep_one(job: &SweepJob, bits: u64) -> Result<(), (String, String)> {
    let v = CoreVal::from_bits(job.have, bits);
    let exp = oracle(job.dir, v, job.want);
    match job.fwd.run(job.have, bits) {
        Err((f, t)) => return Err(("bitcast-operand-type".into(), format!("a primitive cast expects {f:?} but is applied to {t:?} (source {:?} bits {bits:#x})", job.have))),
        Ok((ty, out)) => {
            if ty != exp.ty() || out != exp.bits() {
                return Err((
                    "wrong-conversion".into(),
                    format!("source {:?} bits {bits:#x}: machine gives {ty:?} {out:#x}, the spec's coercion gives {:?} {:#x}", job.have, exp.ty(), exp.bits()),
                ));
            }
            if let Some(back) = &job.back {
                match back.run(ty, out) {
                    Err((f, t)) => return Err(("roundtrip-operand-type".into(), format!("reverse cast expects {f:?} but gets {t:?}"))),
                    Ok((bt, bb)) => {
                        if bt != job.have || bb != bits {
                            return Err(("roundtrip-not-bit-exact".into(), format!("source {:?} bits {bits:#x} -> slot {ty:?} {out:#x} -> back {bt:?} {bb:#x}", job.have)));
                        }
                    }
                }
            }
        }
    }
    Ok(())
}

/// pattern families; `part`/`parts` split the exhaustive ranges across threads
fn sweep(job: &SweepJob, tier: &str, part: usize, parts: usize, seed: u64) -> SweepResult {
    let mut n = 0u64;
    macro_rules! chk {
        ($b:expr) => {{
            n += 1;
            if let Err(f) = sweep_one(job, $b) {
                return SweepResult { evaluations: n, failure: Some(f) };
            }
        }};
    }
    let src64 = is64(job.have);
    if tier == "miri" {
        let mut rng = Rng::new(seed ^ hash64(job.label.as_bytes()));
        if part == 0 {
            for b in [0u64, 1, 0x7fff_ffff, 0x8000_0000, 0xffff_ffff, 0x7fc0_0001, u64::MAX, 1 << 63, 0xffff_ffff_0000_0000] {
                chk!(if src64 { b } else { b & 0xffff_ffff });
            }
            for _ in 0..8 {
                chk!(if src64 { rng.next() } else { rng.next() & 0xffff_ffff });
            }
        }
        return SweepResult { evaluations: n, failure: None };
    }
    if !src64 {
        if tier == "thorough" {
            // exhaustive 2^32
            let chunk = (1u64 << 32) / parts as u64;
            let lo = chunk * part as u64;
            let hi = if part + 1 == parts { 1u64 << 32 } else { lo + chunk };
            for b in lo..hi {
                chk!(b);
            }
        } else {
            // boundary 16-bit values in one half x exhaustive other half
            for (k, bh) in B16.iter().enumerate() {
                if k % parts != part || (tier == "light" && k % 4 != 0) {
                    continue;
                }
                for x in 0..=0xffffu64 {
                    chk!(((*bh as u64) << 16) | x);
                    chk!((x << 16) | *bh as u64);
                }
            }
        }
    } else {
        // one 16-bit quarter exhaustive, the others from a small boundary set
        let mut k = 0;
        for pos in 0..4 {
            for a in Q16 {
                for b in Q16 {
                    for c in Q16 {
                        k += 1;
                        if k % parts != part || (tier == "light" && k % 8 != 0) {
                            continue;
                        }
                        let others = [a as u64, b as u64, c as u64];
                        for x in 0..=0xffffu64 {
                            let mut q = [0u64; 4];
                            let mut oi = 0;
                            for (i, slot) in q.iter_mut().enumerate() {
                                if i == pos {
                                    *slot = x;
                                } else {
                                    *slot = others[oi];
                                    oi += 1;
                                }
                            }
                            chk!(q[0] | (q[1] << 16) | (q[2] << 32) | (q[3] << 48));
                        }
                    }
                }
            }
        }
        // sampled 64-bit patterns
        let samples: u64 = if tier == "thorough" { 1 << 26 } else { 1 << 18 };
        let nt_real = parts;
        let _ = nt_real;
        let mut rng = Rng::new(seed ^ hash64(job.label.as_bytes()) ^ (part as u64) << 40);
        for _ in 0..samples / parts as u64 {
            chk!(rng.next());
        }
    }
    SweepResult { evaluations: n, failure: None }
}

fn run_jobs(rep: &mut Report, jobs: &[SweepJob], tier: &str, seed: u64, prefix: &str) {
    let nt = nthreads(tier);
    // casts that compile to the same primitive steps on the same core types (e.g.
    // I32->Pointer at width 8 and I32->I64) are swept once
    let mut groups: BTreeMap<String, Vec<&SweepJob>> = BTreeMap::new();
    for job in jobs {
        let key = format!("{:?}|{:?}|{:?}|{:?}|{:?}", job.fwd.steps, job.back.as_ref().map(|b| &b.steps), job.have, job.want, job.dir);
        groups.entry(key).or_default().push(job);
        rep.distinct(&format!("{prefix}:{}", job.label));
    }
    rep.count_n(&format!("{prefix}:jobs"), jobs.len() as u64);
    rep.count_n(&format!("{prefix}:distinct-compiled-casts"), groups.len() as u64);
    for (gi, (_, members)) in groups.into_iter().enumerate() {
        let job = members[0];
        if rep.samples.len() < rep.max_samples && (gi % 5 == 2 || prefix != "cast-table") && !job.fwd.steps.is_empty() {
            let mut rng = Rng::new(seed ^ hash64(job.label.as_bytes()));
            let pats: Vec<serde_json::Value> = [0x7fc0_0001u64, 0xffff_ffff_8000_0001, rng.next()]
                .iter()
                .map(|b| {
                    let bits = if is64(job.have) { *b } else { *b & 0xffff_ffff };
                    let slot = job.fwd.run(job.have, bits);
                    let back = match (&slot, &job.back) {
                        (Ok((t, o)), Some(bk)) => Some(bk.run(*t, *o)),
                        _ => None,
                    };
                    let exp = oracle(job.dir, CoreVal::from_bits(job.have, bits), job.want);
                    json!({"source": format!("{:?} {bits:#x}", job.have), "machine": slot.map(|(t, o)| format!("{t:?} {o:#x}")).unwrap_or_else(|e| format!("type error {e:?}")),
                           "spec": format!("{:?} {:#x}", exp.ty(), exp.bits()), "round_trip": back.map(|r| r.map(|(t, o)| format!("{t:?} {o:#x}")).unwrap_or_else(|e| format!("type error {e:?}")))})
                })
                .collect();
            rep.sample(json!({"kind": prefix, "casts": members.iter().map(|m| m.label.clone()).collect::<Vec<_>>(), "direction": format!("{:?}", job.dir),
                              "primitive_steps": format!("{:?}", job.fwd.steps), "patterns": pats, "origin": job.replay}));
        }
        let results = parallel(nt, |p| sweep(job, tier, p, nt, seed));
        let mut total = 0;
        let mut failure = None;
        for r in results {
            total += r.evaluations;
            if failure.is_none() {
                failure = r.failure;
            }
        }
        rep.evals(total);
        rep.count_n(&format!("patterns:{}", if is64(job.have) { "64-bit-source" } else { "32-bit-source" }), total);
        if let Some((class, detail)) = failure {
            for m in &members {
                rep.violation(&format!("{prefix}:{}:{class}", m.label), &detail, m.replay.clone());
            }
        }
    }
}

/// Part 1 + 2: `abi::cast` on all 49 ordered pairs.
fn table_check(rep: &mut Report, tier: &str, seed: u64) {
    // the refined join must agree with the reference join on concrete core types
    for w in [4usize, 8] {
        for a in WT {
            for b in WT {
                let j = join(a, b);
                if core_of(j, w) != Abi::join(core_of(a, w), core_of(b, w)) {
                    rep.inconclusive(&format!("harness join table disagrees with cabi-ref join for ({a:?},{b:?}) at width {w}"));
                    return;
                }
            }
        }
    }
    let mut jobs = vec![];
    let mut casts: BTreeMap<(usize, usize), Cast> = BTreeMap::new();
    for (i, from) in WT.iter().enumerate() {
        for (j, to) in WT.iter().enumerate() {
            rep.eval();
            let dir = direction(*from, *to);
            let (f, t) = (*from, *to);
            let r = catch(move || abi::cast(f, t));
            let label = format!("{}->{}", wname(*from), wname(*to));
            match (dir, r) {
                (None, Err((msg, loc))) => {
                    rep.count("table:unreachable-pairs");
                    if !msg.contains("unreachable") {
                        rep.violation(&format!("cast-table:{label}:non-joinable-pair-panics-without-unreachable"), &format!("{msg} at {}", panic_site(&loc)), json!({"pair": label}));
                    }
                }
                (None, Ok(b)) => {
                    rep.violation(&format!("cast-table:{label}:non-joinable-pair-accepted"), &format!("cast() returns {b:?} for a pair the spec's join can never produce"), json!({"pair": label}));
                }
                (Some(_), Err((msg, loc))) => {
                    rep.violation(&format!("cast-table:{label}:joinable-pair-rejected"), &format!("cast() panics for a pair that flattening can produce: {msg} at {}", panic_site(&loc)), json!({"pair": label}));
                }
                (Some(_), Ok(b)) => {
                    rep.count("table:convertible-pairs");
                    casts.insert((i, j), Cast::from_bitcast(&b));
                }
            }
        }
    }
    for ((i, j), c) in &casts {
        let (from, to) = (WT[*i], WT[*j]);
        let dir = direction(from, to).unwrap();
        for w in [4usize, 8] {
            let back = if dir == Dir::Into { casts.get(&(*j, *i)).map(|b| Compiled::new(b, w)) } else { None };
            let label = format!("{}->{}:w{w}", wname(from), wname(to));
            // declared endpoints of the chosen Bitcast
            if let Some((ef, et)) = c.endpoints() {
                if core_of(ef, w) != core_of(from, w) || core_of(et, w) != core_of(to, w) {
                    rep.violation(&format!("cast-table:{label}:bitcast-endpoints"), &format!("cast({from:?},{to:?}) = {c:?} which converts {ef:?} to {et:?}"), json!({"pair": label, "width": w}));
                }
            }
            jobs.push(SweepJob {
                label: label.clone(),
                dir,
                width: w,
                have: core_of(from, w),
                want: core_of(to, w),
                fwd: Compiled::new(c, w),
                back,
                replay: json!({"mode": "cast-table", "pair": label, "width": w, "cast": format!("{c:?}")}),
            });
            // the compiled evaluator is the machine's apply_cast: spot check
            let mut rng = Rng::new(seed ^ hash64(label.as_bytes()));
            for _ in 0..(if tier == "miri" { 4 } else { 2000 }) {
                let bits = if is64(core_of(from, w)) { rng.next() } else { rng.next() & 0xffff_ffff };
                let a = apply_cast(c, CoreVal::from_bits(core_of(from, w), bits), w).map(|v| (v.ty(), v.bits())).map_err(|e| e.class);
                let b = Compiled::new(c, w).run(core_of(from, w), bits).map_err(|_| "bitcast-operand-type".to_string());
                if a != b {
                    rep.inconclusive("harness: compiled cast evaluator disagrees with machine::apply_cast");
                }
            }
        }
    }
    run_jobs(rep, &jobs, tier, seed, "cast-table");
}

struct CapHost {
    got: Option<Vec<Val>>,
}
impl Host for CapHost {
    fn call_interface(&mut self, _n: &str, args: Vec<Val>, _h: bool, _a: bool) -> Result<Option<Val>, String> {
        self.got = Some(args);
        Ok(None)
    }
}

fn arm_casts(block: &Block, n: usize) -> Vec<Cast> {
    for node in &block.nodes {
        if let Inst::Bitcasts(c) = &node.inst {
            return c.clone();
        }
    }
    vec![Cast::None; n]
}

/// Part 2 (generator output) + 4: casts emitted for real variant shapes.
fn shapes_check(rep: &mut Report, units: &[Unit], tier: &str, seed: u64, only: Option<&serde_json::Value>) {
    let nt = nthreads(tier);
    let ctxs: Vec<Ctx> = units.iter().map(|u| Ctx::new(&u.resolve)).collect();
    let mut work = vec![];
    for (ui, u) in units.iter().enumerate() {
        let abi = Abi::new(&u.resolve, 4);
        for (p, t) in u.value_types() {
            if let Some(o) = only {
                if o["path"].as_str() != Some(&p) {
                    continue;
                }
            }
            if matches!(abi.shape(&t), Shape::Variant(_, k) if k != cabi_ref::VariantKind::Enum) && abi.flatten(&t).len() <= 16 {
                work.push((ui, p, t));
            }
        }
    }
    rep.extra.insert("variant_types".into(), json!(work.len()));
    type JobKey = (String, u8, usize, String, String);
    let parts = parallel(nt, |wi| {
        let mut r = Report::new("");
        r.max_samples = 1;
        let mut distinct_jobs: BTreeMap<JobKey, SweepJob> = BTreeMap::new();
        let mut pairs: BTreeSet<String> = BTreeSet::new();
        for (k, (ui, path, ty)) in work.iter().enumerate() {
            if k % nt != wi {
                continue;
            }
            let unit = &units[*ui];
            let ctx = &ctxs[*ui];
            let resolve = &unit.resolve;
            let res = catch(std::panic::AssertUnwindSafe(|| {
                let abi4 = Abi::new(resolve, 4);
                let Shape::Variant(cases, _) = abi4.shape(ty) else { return };
                r.distinct(&format!("shape:{}", abi4.shape_key(ty)));
                let wit = json!({"unit": unit.label, "wit": unit.wit, "synthetic": unit.synthetic, "path": path});
                let lf = match record_lower_flat(resolve, ty, CanonPolicy::Never) {
                    Ok(p) => p,
                    Err(e) => {
                        r.violation(&format!("variant-shape:lower:{}", e.sig()), &format!("{} [type {}]", e.text(), shorten(&abi4.shape_key(ty), 200)), wit.clone());
                        return;
                    }
                };
                let probe = mk_func("lift-probe", &[*ty], None, false);
                let ll = match record_call(resolve, AbiVariant::GuestExport, LiftLower::LiftArgsLowerResults, &probe, false, CanonPolicy::Never) {
                    Ok(p) => p,
                    Err(e) => {
                        r.violation(&format!("variant-shape:lift:{}", e.sig()), &format!("{} [type {}]", e.text(), shorten(&abi4.shape_key(ty), 200)), wit.clone());
                        return;
                    }
                };
                let lower_node = lf.prog.body.nodes.iter().rev().find(|n| matches!(n.inst, Inst::VariantLower { .. }));
                let lift_node = ll.body.nodes.iter().find(|n| matches!(n.inst, Inst::VariantLift { .. }));
                let (Some(lower_node), Some(lift_node)) = (lower_node, lift_node) else {
                    r.inconclusive("harness: variant instruction not found at the top level of the recorded program");
                    return;
                };
                for (ci, case) in cases.iter().enumerate() {
                    let Some(pty) = case else { continue };
                    let n = abi4.flatten(pty).len();
                    let lc = arm_casts(&lower_node.blocks[ci], n);
                    let fc = arm_casts(&lift_node.blocks[ci], n);
                    if r.samples.is_empty() && lc.iter().any(|c| *c != Cast::None) {
                        r.sample(json!({"kind": "variant-shape", "unit": unit.label, "path": path, "type": shorten(&abi4.shape_key(ty), 200), "case": ci,
                                        "payload_flat_w4": format!("{:?}", abi4.flatten(pty)), "joined_flat_w4": format!("{:?}", &abi4.flatten(ty)[1..]),
                                        "lower_casts": format!("{lc:?}"), "lift_casts": format!("{fc:?}")}));
                    }
                    if lc.len() != n || fc.len() != n {
                        r.violation("variant-shape:cast-count", &format!("case {ci}: {} lower casts / {} lift casts for {n} payload slots [type {}]", lc.len(), fc.len(), shorten(&abi4.shape_key(ty), 200)), wit.clone());
                        continue;
                    }
                    for w in [4usize, 8] {
                        let abi = Abi::new(resolve, w);
                        let have = abi.flatten(pty);
                        let want = &abi.flatten(ty)[1..];
                        for i in 0..n {
                            r.eval();
                            for (dirn, c, (src, dst)) in [(Dir::Into, &lc[i], (have[i], want[i])), (Dir::From, &fc[i], (want[i], have[i]))] {
                                let comp = Compiled::new(c, w);
                                let (ef, et) = match (comp.steps.first(), comp.steps.last()) {
                                    (Some(f), Some(l)) => (f.0, l.1),
                                    _ => (src, src),
                                };
                                let dname = if dirn == Dir::Into { "lower" } else { "lift" };
                                if let Some((a, b)) = c.endpoints() {
                                    pairs.insert(format!("{dname}:{}->{}", wname(a), wname(b)));
                                }
                                if ef != src || et != dst {
                                    r.violation(
                                        &format!("variant-shape:{dname}:cast-endpoints:{src:?}->{dst:?}:w{w}"),
                                        &format!("case {ci} slot {i}: payload slot {:?} joined slot {:?} at width {w}, but the emitted cast {c:?} converts {ef:?} to {et:?} [type {}]", have[i], want[i], shorten(&abi.shape_key(ty), 200)),
                                        json!({"shape": wit, "case": ci, "slot": i, "width": w}),
                                    );
                                    continue;
                                }
                                let back = if dirn == Dir::Into { Some(Compiled::new(&fc[i], w)) } else { None };
                                let key: JobKey = (format!("{c:?}"), dirn as u8, w, format!("{src:?}"), format!("{:?}", back.as_ref().map(|b| b.steps.clone())));
                                distinct_jobs.entry(key).or_insert_with(|| SweepJob {
                                    label: format!("{dname}:{src:?}->{dst:?}:w{w}:{}", shorten(&format!("{c:?}"), 60)),
                                    dir: dirn,
                                    width: w,
                                    have: src,
                                    want: dst,
                                    fwd: comp,
                                    back,
                                    replay: json!({"shape": wit, "case": ci, "slot": i, "width": w, "mode": dname}),
                                });
                            }
                        }
                    }
                }
                // end-to-end on values: machine lower vs reference, machine lift of reference encoding
                let mut rng = Rng::new(seed ^ hash64(format!("{}/{}", unit.label, path).as_bytes()));
                let gcfg = GenCfg { max_list: 3, ..Default::default() };
                let vals = abi4.gen_vals(&mut rng, ty, &gcfg, if tier == "thorough" { 12 } else { 3 });
                for w in [4usize, 8] {
                    let abi = Abi::new(resolve, w);
                    for v in &vals {
                        r.eval();
                        r.count("end-to-end-values");
                        let rp = json!({"unit": unit.label, "wit": unit.wit, "synthetic": unit.synthetic, "path": path, "width": w, "value": v.text()});
                        let mut host = NoHost;
                        let mut m = Machine::new(ctx, w, Mem::new(w), &mut host);
                        m.set(lf.value, MV::Iface(v.clone()));
                        let run = m.run(&lf.prog.body).and_then(|_| lf.results.iter().map(|o| m.get(*o)).collect::<Result<Vec<MV>, MErr>>());
                        r.count_n("bitcasts_executed", m.ev.bitcasts);
                        let kind = top_kind(&abi, ty);
                        match run {
                            Err(e) => r.violation(&format!("variant-value:lower:{}:{kind}:w{w}", e.class), &format!("{} [type {} value {}]", e.detail, shorten(&abi.shape_key(ty), 160), shorten(&v.text(), 120)), rp.clone()),
                            Ok(flat) => {
                                let flat: Vec<CoreVal> = flat.iter().filter_map(|f| if let MV::Core(c) = f { Some(*c) } else { None }).collect();
                                let mut rmem = Mem::new(w);
                                if let Ok(rf) = abi.lower_flat(&mut rmem, v, ty) {
                                    if let Err(d) = cmp_flat(&abi, ty, v, &flat, &m.mem, &rf, &rmem) {
                                        r.violation(&format!("variant-value:lower:{}:{kind}:w{w}", d.class), &format!("{} [type {} value {}]", d.detail, shorten(&abi.shape_key(ty), 160), shorten(&v.text(), 120)), rp.clone());
                                    }
                                    // lift the reference encoding (with garbage in ignorable bits)
                                    let mut rflat = rf.clone();
                                    if let Ok(slots) = slot_kinds(&abi, ty, v) {
                                        mutate_flat(&slots, &mut rflat, &mut rng);
                                    }
                                    let mut h = CapHost { got: None };
                                    let res = {
                                        let mut m2 = Machine::new(ctx, w, rmem, &mut h);
                                        m2.args = rflat.iter().map(|c| MV::Core(*c)).collect();
                                        let res = m2.run(&ll.body);
                                        r.count_n("bitcasts_executed", m2.ev.bitcasts);
                                        res
                                    };
                                    match (res, h.got) {
                                        (Err(e), _) => r.violation(&format!("variant-value:lift:{}:{kind}:w{w}", e.class), &format!("{} [type {} value {} flat {:?}]", e.detail, shorten(&abi.shape_key(ty), 160), shorten(&v.text(), 120), rflat), rp.clone()),
                                        (Ok(()), Some(g)) if g.len() == 1 && g[0] == *v => {}
                                        (Ok(()), g) => r.violation(&format!("variant-value:lift:value-differs:{kind}:w{w}"), &format!("lifted {:?} from {:?} [type {} value {}]", g.map(|g| g.iter().map(|x| shorten(&x.text(), 100)).collect::<Vec<_>>()), rflat, shorten(&abi.shape_key(ty), 160), shorten(&v.text(), 120)), rp.clone()),
                                    }
                                }
                            }
                        }
                    }
                }
            }));
            if let Err((msg, loc)) = res {
                r.inconclusive(&format!("harness panicked at {}: {}", panic_site(&loc), shorten(&msg, 120)));
            }
        }
        (r, distinct_jobs, pairs)
    });
    let mut all_jobs: BTreeMap<JobKey, SweepJob> = BTreeMap::new();
    let mut pairs = BTreeSet::new();
    for (r, j, p) in parts {
        merge(rep, r);
        for (k, v) in j {
            all_jobs.entry(k).or_insert(v);
        }
        pairs.extend(p);
    }
    rep.extra.insert("emitted_cast_pairs".into(), json!(pairs.iter().collect::<Vec<_>>()));
    rep.extra.insert("distinct_emitted_casts".into(), json!(all_jobs.len()));
    let jobs: Vec<SweepJob> = all_jobs.into_values().collect();
    // emitted casts repeat the table's casts; sweep them with the quick pattern set
    run_jobs(rep, &jobs, match tier { "thorough" => "quick", "miri" => "miri", _ => "light" }, seed, "emitted-cast");
    // every producible non-identity pair must have been emitted by some shape
    if only.is_none() && tier != "miri" {
        for from in WT {
            for to in WT {
                match direction(from, to) {
                    Some(Dir::Into) => {
                        for (d, a, b) in [("lower", from, to), ("lift", to, from)] {
                            let k = format!("{d}:{}->{}", wname(a), wname(b));
                            if !pairs.contains(&k) {
                                rep.inconclusive(&format!("no enumerated variant shape made the generator emit the cast {k}"));
                            }
                        }
                    }
                    _ => {}
                }
            }
        }
    }
}

fn main() {
    let args = Args::parse();
    let tier = args.str("tier", "quick");
    let seed = args.seed();
    let mut rep = Report::new("evaluation = one (cast, source bit pattern) execution or one (variant shape, case, slot, width) check; distinct = cast pairs x widths, emitted cast trees, variant shapes");
    rep.max_samples = 6;
    rep.assume("spec coercions = cabi_ref::Abi::coerce_into_slot / coerce_from_slot (f32->i32 and f64->i64 reinterpret, i32->i64 zero-extends, i64->i32 wraps); Pointer/Length are i32 at width 4 and i64 at width 8, PointerOrI64 is i64");
    rep.assume("64-bit source domains are sampled (structured quarters + random), 32-bit source domains are exhaustive only in the thorough tier");
    let mut only = None;
    let mut units = vec![];
    if let Some(path) = args.get("replay") {
        let Some(r) = load_replay(path) else {
            rep.inconclusive("replay file unreadable");
            rep.write(&args.out());
            return;
        };
        if r.get("mode").and_then(|m| m.as_str()) == Some("cast-table") || r.get("pair").is_some() {
            table_check(&mut rep, &tier, seed);
            rep.write(&args.out());
            return;
        }
        let shape = if r.get("shape").is_some() { r["shape"].clone() } else { r.clone() };
        match unit_from_replay(&shape) {
            Some(u) => units.push(u),
            None => {
                rep.inconclusive("replay unit cannot be rebuilt");
                rep.write(&args.out());
                return;
            }
        }
        only = Some(shape);
    } else {
        table_check(&mut rep, &tier, seed);
        if tier != "miri" {
            units.push(joins_unit());
            units.extend(boundary_units().into_iter().filter(|u| u.label.contains("variants")));
        }
        let n = match tier.as_str() {
            "thorough" => 300,
            "miri" => 0,
            _ => 30,
        };
        let mut stats = (0, 0);
        let mut rng = Rng::new(seed.wrapping_mul(0x9E37_79B9).wrapping_add(4));
        units.extend(random_units(&mut rng, n, &mut stats));
        rep.extra.insert("random_worlds".into(), json!(stats.0));
    }
    if tier == "miri" {
        // keep the Miri shard small: the synthetic joins unit is large
        units.truncate(0);
        units.push(miri_unit());
    }
    shapes_check(&mut rep, &units, &tier, seed, only.as_ref());
    rep.write(&args.out());
}
