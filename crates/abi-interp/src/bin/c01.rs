//! C01 — the shared ABI generator encodes/decodes every WIT value per the spec.
//! Differential: instruction streams of lower_flat / lower_to_memory /
//! lift_from_memory / flat param lifting executed by the abstract machine vs
//! the reference canonical ABI (`cabi-ref`).
use abi_interp::cmp::*;
use abi_interp::corpus::*;
use abi_interp::harness::*;
use abi_interp::ir::*;
use abi_interp::machine::*;
use abi_interp::mem::*;
use abi_interp::runs::*;
use cabi_ref::{Abi, CoreVal, GenCfg, Val};
use serde_json::json;
use vkit::{hash64, Args, Report, Rng};
use wit_bindgen_core::abi::{AbiVariant, LiftLower};
use wit_bindgen_core::wit_parser::Type;

struct CapHost {
    got: Option<Vec<Val>>,
}
impl Host for CapHost {
    fn call_interface(&mut self, _name: &str, args: Vec<Val>, _has_result: bool, _async_: bool) -> Result<Option<Val>, String> {
        self.got = Some(args);
        Ok(None)
    }
}

struct Case<'a> {
    unit: &'a Unit,
    ctx: &'a Ctx<'a>,
    path: &'a str,
    ty: Type,
}

struct Only {
    val: Option<String>,
    width: Option<usize>,
    policy: Option<CanonPolicy>,
}

fn fail(rep: &mut Report, c: &Case, abi: &Abi, policy: CanonPolicy, mode: &str, val: Option<&Val>, class: &str, detail: &str) {
    let kind = top_kind(abi, &c.ty);
    let sig = format!("{mode}:{class}:{kind}:w{}", abi.ptr);
    rep.count("failures");
    // Types outside the component-encodable domain (flags with 0 or >32 members):
    // a *difference from the reference* is inconclusive (the spec does not define
    // them), but the generator contradicting itself (its own lift does not undo its
    // own lower, or it panics while emitting) is judged without the reference.
    let internal = mode.starts_with("roundtrip") || mode.starts_with("record:");
    let outside = outside_encodable_domain(abi, &c.ty) && !internal;
    if !outside && rep.has_violation(&sig) {
        // one witness per signature is kept; do not pay for building another one
        return;
    }
    let witness = json!({
        "unit": c.unit.label, "wit": c.unit.wit, "synthetic": c.unit.synthetic, "path": c.path,
        "type": shorten(&abi.shape_key(&c.ty), 300), "width": abi.ptr, "policy": policy.name(), "mode": mode,
        "value": val.map(|v| v.text()),
    });
    if outside {
        rep.inconclusive(&format!("outside encodable domain ({}): encoding differs from the reference; witnesses in coverage.outside_domain_witnesses", domain_kinds(abi, &c.ty)));
        rep.count(&format!("outside-domain:{mode}:{class}"));
        extra_push(rep, "outside_domain_witnesses", json!({"witness": witness, "detail": shorten(detail, 400)}), 12);
        return;
    }
    if let Some(d) = layout_disagreement(c.ctx, abi, &c.ty) {
        rep.inconclusive(&format!("reference or wit-parser suspect — triage first: {}", shorten(&d, 200)));
        extra_push(rep, "layout_suspect_witnesses", json!({"witness": witness, "detail": shorten(detail, 400)}), 12);
        return;
    }
    rep.violation(&sig, &format!("{detail} [type {} value {} policy {}]", shorten(&abi.shape_key(&c.ty), 200), val.map(|v| shorten(&v.text(), 200)).unwrap_or_default(), policy.name()), witness);
}

fn note_load_ext(rep: &mut Report, ev: &Events) {
    if ev.load_extension_mismatches > 0 {
        let e = rep.extra.entry("load_extension_mismatches".to_string()).or_insert_with(|| json!(0));
        *e = json!(e.as_u64().unwrap_or(0) + ev.load_extension_mismatches);
        if let Some(s) = &ev.load_extension_sample {
            extra_push(rep, "load_extension_mismatch_samples", json!(s), 4);
        }
    }
}

fn domain_kinds(abi: &Abi, ty: &Type) -> &'static str {
    fn walk(abi: &Abi, ty: &Type, zero: &mut bool, big: &mut bool) {
        use cabi_ref::Shape;
        match abi.shape(ty) {
            Shape::Flags(0) => *zero = true,
            Shape::Flags(n) if n > 32 => *big = true,
            Shape::List(t) | Shape::FixedList(t, _) => walk(abi, &t, zero, big),
            Shape::Map(k, v) => {
                walk(abi, &k, zero, big);
                walk(abi, &v, zero, big)
            }
            Shape::Record(fs) => fs.iter().for_each(|f| walk(abi, f, zero, big)),
            Shape::Variant(cs, _) => cs.iter().flatten().for_each(|t| walk(abi, t, zero, big)),
            _ => {}
        }
    }
    let (mut z, mut b) = (false, false);
    walk(abi, ty, &mut z, &mut b);
    match (z, b) {
        (true, false) => "flags with 0 members",
        (false, true) => "flags with more than 32 members",
        _ => "flags with 0 and more than 32 members",
    }
}

fn rec_fail(rep: &mut Report, c: &Case, abi: &Abi, policy: CanonPolicy, entry: &str, e: &RecErr) {
    rep.count(&format!("record-failed:{entry}"));
    fail(rep, c, abi, policy, &format!("record:{entry}"), None, &e.sig(), &e.text());
}

fn policies_for(abi: &Abi, c: &Case) -> Vec<CanonPolicy> {
    let mut elems = vec![];
    list_elements(abi, &c.ty, &mut elems);
    let mut out = vec![CanonPolicy::Never];
    for p in [CanonPolicy::Scalars, CanonPolicy::RustLike] {
        if elems.iter().any(|e| is_canonical(p, c.ctx.resolve, e)) {
            // RustLike only adds something over Scalars if it accepts more element types
            if p == CanonPolicy::RustLike && out.contains(&CanonPolicy::Scalars) && !elems.iter().any(|e| is_canonical(p, c.ctx.resolve, e) && !is_canonical(CanonPolicy::Scalars, c.ctx.resolve, e)) {
                continue;
            }
            out.push(p);
        }
    }
    out
}

fn check_type(rep: &mut Report, c: &Case, seed: u64, nvals: usize, only: Option<&Only>) {
    let resolve = c.ctx.resolve;
    let abi4 = Abi::new(resolve, 4);
    let mut rng = Rng::new(seed ^ hash64(format!("{}/{}", c.unit.label, c.path).as_bytes()));
    let gcfg = GenCfg { max_list: 5, ..Default::default() };
    let vals: Vec<Val> = match only.and_then(|o| o.val.as_ref()) {
        Some(t) => match parse_val_typed(&abi4, &c.ty, t) {
            Ok(v) => vec![v],
            Err(e) => {
                rep.inconclusive(&format!("replay value does not parse: {e}"));
                return;
            }
        },
        None => abi4.gen_vals(&mut rng, &c.ty, &gcfg, nvals),
    };
    let nflat = abi4.flatten(&c.ty).len();
    let flat_ok = nflat <= 16;
    rep.distinct(&abi4.shape_key(&c.ty));
    rep.count(&format!("types:{}", top_kind(&abi4, &c.ty)));
    for w in [4usize, 8] {
        let a = Abi::new(resolve, w);
        rep.count(if layout_disagreement(c.ctx, &a, &c.ty).is_some() { "layout:cabi-ref-vs-SizeAlign:disagree" } else { "layout:cabi-ref-vs-SizeAlign:agree" });
    }
    let probe = mk_func("lift-probe", &[c.ty], None, false);

    for policy in policies_for(&abi4, c) {
        if let Some(o) = only {
            if o.policy.map(|p| p != policy).unwrap_or(false) {
                continue;
            }
        }
        rep.count(&format!("policy:{}", policy.name()));
        let lf = if flat_ok {
            match record_lower_flat(resolve, &c.ty, policy) {
                Ok(p) => Some(p),
                Err(e) => {
                    rec_fail(rep, c, &abi4, policy, "lower_flat", &e);
                    None
                }
            }
        } else {
            None
        };
        let lm = match record_lower_to_memory(resolve, &c.ty, policy) {
            Ok(p) => Some(p),
            Err(e) => {
                rec_fail(rep, c, &abi4, policy, "lower_to_memory", &e);
                None
            }
        };
        let li = match record_lift_from_memory(resolve, &c.ty, policy) {
            Ok(p) => Some(p),
            Err(e) => {
                rec_fail(rep, c, &abi4, policy, "lift_from_memory", &e);
                None
            }
        };
        let lfl = if flat_ok {
            match record_call(resolve, AbiVariant::GuestExport, LiftLower::LiftArgsLowerResults, &probe, false, policy) {
                Ok(p) => Some(p),
                Err(e) => {
                    rec_fail(rep, c, &abi4, policy, "call-lift-params", &e);
                    None
                }
            }
        } else {
            None
        };
        rep.count_n("ir_nodes", [lf.as_ref().map(|p| p.prog.body.count_nodes()), lm.as_ref().map(|p| p.prog.body.count_nodes()), li.as_ref().map(|p| p.prog.body.count_nodes())].iter().flatten().sum::<usize>() as u64);

        for width in [4usize, 8] {
            if let Some(o) = only {
                if o.width.map(|w| w != width).unwrap_or(false) {
                    continue;
                }
            }
            let abi = Abi::new(resolve, width);
            for v in &vals {
                let mut mrng = rng.fork(width as u64);
                // ---------------------------------------------------- lower_flat
                let mut machine_flat: Option<(Vec<CoreVal>, Mem)> = None;
                if let Some(p) = &lf {
                    rep.eval();
                    rep.count("runs:lower_flat");
                    let mut host = NoHost;
                    let mut m = Machine::new(c.ctx, width, Mem::new(width), &mut host);
                    m.set(p.value, MV::Iface(v.clone()));
                    let r = m.run(&p.prog.body).and_then(|_| {
                        p.results
                            .iter()
                            .map(|o| match m.get(*o)? {
                                MV::Core(c) => Ok(c),
                                other => Err(MErr::new("flat-result-kind", format!("lower_flat result is {}", other.kind()))),
                            })
                            .collect::<Result<Vec<CoreVal>, MErr>>()
                    });
                    rep.count_n("machine_steps", m.ev.steps);
                    note_load_ext(rep, &m.ev);
                    let ledger = m.mem.ledger_errors.first().cloned();
                    let mem = m.mem;
                    match r {
                        Err(e) => fail(rep, c, &abi, policy, "lower_flat", Some(v), &e.class, &e.detail),
                        Ok(flat) => {
                            if let Some(le) = ledger {
                                fail(rep, c, &abi, policy, "lower_flat", Some(v), &format!("ledger:{}", le.class), &le.detail);
                            }
                            let mut rmem = Mem::new(width);
                            match abi.lower_flat(&mut rmem, v, &c.ty) {
                                Err(e) => rep.inconclusive(&format!("reference lower_flat failed: {}", shorten(&e, 100))),
                                Ok(rflat) => match cmp_flat(&abi, &c.ty, v, &flat, &mem, &rflat, &rmem) {
                                    Err(d) => fail(rep, c, &abi, policy, "lower_flat", Some(v), &d.class, &d.detail),
                                    Ok(n) => {
                                        rep.count_n("units_compared", n);
                                        // the reference lifts what the machine produced
                                        match abi.lift_flat(&mem, &mut flat.iter(), &c.ty) {
                                            Ok(back) if back == *v => {}
                                            Ok(back) => fail(rep, c, &abi, policy, "lower_flat", Some(v), "reference-lift-differs", &format!("reference lifts machine output to {}", shorten(&back.text(), 200))),
                                            Err(e) => fail(rep, c, &abi, policy, "lower_flat", Some(v), "reference-lift-fails", &e),
                                        }
                                    }
                                },
                            }
                            machine_flat = Some((flat, mem));
                        }
                    }
                }
                // ------------------------------------------------ lower_to_memory
                let mut machine_mem: Option<(u64, Mem)> = None;
                if let Some(p) = &lm {
                    rep.eval();
                    rep.count("runs:lower_to_memory");
                    let mut host = NoHost;
                    let mut mem = Mem::new(width);
                    let (size, align) = (abi.elem_size(&c.ty), abi.alignment(&c.ty));
                    let addr = mem.alloc(size.max(1), align, BlockKind::Harness, "target").unwrap();
                    let mut m = Machine::new(c.ctx, width, mem, &mut host);
                    m.set(p.addr, MV::Core(m.ptr_val(addr)));
                    m.set(p.value, MV::Iface(v.clone()));
                    let r = m.run(&p.prog.body);
                    rep.count_n("machine_steps", m.ev.steps);
                    note_load_ext(rep, &m.ev);
                    let ledger = m.mem.ledger_errors.first().cloned();
                    let mem = m.mem;
                    match r {
                        Err(e) => fail(rep, c, &abi, policy, "lower_to_memory", Some(v), &e.class, &e.detail),
                        Ok(()) => {
                            if let Some(le) = ledger {
                                fail(rep, c, &abi, policy, "lower_to_memory", Some(v), &format!("ledger:{}", le.class), &le.detail);
                            }
                            let mut rmem = Mem::new(width);
                            let raddr = rmem.alloc(size.max(1), align, BlockKind::Harness, "target").unwrap();
                            match abi.store(&mut rmem, v, &c.ty, raddr) {
                                Err(e) => rep.inconclusive(&format!("reference store failed: {}", shorten(&e, 100))),
                                Ok(()) => match cmp_mem(&abi, &c.ty, v, &mem, addr, &rmem, raddr) {
                                    Err(d) => fail(rep, c, &abi, policy, "lower_to_memory", Some(v), &d.class, &d.detail),
                                    Ok(n) => {
                                        rep.count_n("bytes_compared", n);
                                        match abi.load(&mem, &c.ty, addr) {
                                            Ok(back) if back == *v => {}
                                            Ok(back) => fail(rep, c, &abi, policy, "lower_to_memory", Some(v), "reference-load-differs", &format!("reference loads machine output as {}", shorten(&back.text(), 200))),
                                            Err(e) => fail(rep, c, &abi, policy, "lower_to_memory", Some(v), "reference-load-fails", &e),
                                        }
                                    }
                                },
                            }
                            machine_mem = Some((addr, mem));
                        }
                    }
                }
                // ----------------------------------------------- lift_from_memory
                if let Some(p) = &li {
                    // (a) canonical reference encoding on poisoned memory (padding must not be read)
                    // (b) same with garbage in padding / inactive payload bytes
                    // (c) what the machine itself lowered (round trip)
                    for variantn in 0..3 {
                        let (mode, mem, addr) = match variantn {
                            0 | 1 => {
                                let mut mem = if variantn == 0 { Mem::new(width) } else { Mem::with_garbage(width, mrng.fork(7)) };
                                let (size, align) = (abi.elem_size(&c.ty), abi.alignment(&c.ty));
                                let addr = mem.alloc(size.max(1), align, BlockKind::Harness, "source").unwrap();
                                if let Err(e) = abi.store(&mut mem, v, &c.ty, addr) {
                                    rep.inconclusive(&format!("reference store failed: {}", shorten(&e, 100)));
                                    continue;
                                }
                                (if variantn == 0 { "lift_from_memory" } else { "lift_from_memory(garbage-padding)" }, mem, addr)
                            }
                            _ => match machine_mem.take() {
                                Some((addr, mem)) => ("roundtrip_memory", mem, addr),
                                None => continue,
                            },
                        };
                        rep.eval();
                        rep.count(&format!("runs:{mode}"));
                        let mut host = NoHost;
                        let mut m = Machine::new(c.ctx, width, mem, &mut host);
                        m.set(p.addr, MV::Core(m.ptr_val(addr)));
                        let r = m.run(&p.prog.body).and_then(|_| m.get(p.result));
                        rep.count_n("machine_steps", m.ev.steps);
                    note_load_ext(rep, &m.ev);
                        match r {
                            Err(e) => fail(rep, c, &abi, policy, mode, Some(v), &e.class, &e.detail),
                            Ok(MV::Iface(back)) if back == *v => {}
                            Ok(MV::Iface(back)) => fail(rep, c, &abi, policy, mode, Some(v), "lifted-value-differs", &format!("lifted {}", shorten(&back.text(), 200))),
                            Ok(other) => fail(rep, c, &abi, policy, mode, Some(v), "lifted-kind", &other.kind()),
                        }
                    }
                }
                // ------------------------------------------- flat lift (via call)
                if let Some(p) = &lfl {
                    for variantn in 0..3 {
                        let (mode, mem, flat) = match variantn {
                            0 | 1 => {
                                let mut mem = if variantn == 0 { Mem::new(width) } else { Mem::with_garbage(width, mrng.fork(9)) };
                                let mut flat = match abi.lower_flat(&mut mem, v, &c.ty) {
                                    Ok(f) => f,
                                    Err(e) => {
                                        rep.inconclusive(&format!("reference lower_flat failed: {}", shorten(&e, 100)));
                                        continue;
                                    }
                                };
                                if variantn == 1 {
                                    let slots = match slot_kinds(&abi, &c.ty, v) {
                                        Ok(s) => s,
                                        Err(_) => continue,
                                    };
                                    let n = mutate_flat(&slots, &mut flat, &mut mrng);
                                    rep.count_n("noncanonical_slots", n as u64);
                                }
                                (if variantn == 0 { "lift_flat" } else { "lift_flat(noncanonical)" }, mem, flat)
                            }
                            _ => match machine_flat.take() {
                                Some((flat, mem)) => ("roundtrip_flat", mem, flat),
                                None => continue,
                            },
                        };
                        rep.eval();
                        rep.count(&format!("runs:{mode}"));
                        let mut host = CapHost { got: None };
                        let r = {
                            let mut m = Machine::new(c.ctx, width, mem, &mut host);
                            m.args = flat.iter().map(|c| MV::Core(*c)).collect();
                            let r = m.run(&p.body);
                            rep.count_n("machine_steps", m.ev.steps);
                    note_load_ext(rep, &m.ev);
                            r
                        };
                        match (r, host.got) {
                            (Err(e), _) => fail(rep, c, &abi, policy, mode, Some(v), &e.class, &format!("{} [flat {:?}]", e.detail, flat)),
                            (Ok(()), Some(got)) if got.len() == 1 && got[0] == *v => {}
                            (Ok(()), Some(got)) => fail(rep, c, &abi, policy, mode, Some(v), "lifted-value-differs", &format!("lifted {} from flat {:?}", shorten(&got.iter().map(|g| g.text()).collect::<Vec<_>>().join(" "), 200), flat)),
                            (Ok(()), None) => fail(rep, c, &abi, policy, mode, Some(v), "no-call-interface", "CallInterface never executed"),
                        }
                    }
                }
            }
        }
        if rep.samples.len() < rep.max_samples && lm.is_some() {
            rep.sample(json!({"unit": c.unit.label, "path": c.path, "type": shorten(&abi4.shape_key(&c.ty), 200), "policy": policy.name(),
                "values": vals.iter().take(2).map(|v| shorten(&v.text(), 120)).collect::<Vec<_>>(),
                "ir_lower_to_memory": shorten(&lm.as_ref().unwrap().prog.dump(), 600)}));
        }
    }
}

fn main() {
    let args = Args::parse();
    let tier = args.str("tier", "quick");
    let seed = args.seed();
    let mut rep = Report::new("case = (type, value, pointer width, list policy, path); distinct = structural shape keys of the types exercised");
    rep.max_samples = 4;
    rep.assume("cabi-ref implements the Component Model canonical ABI (CanonicalABI.md); bool/char are only lifted from valid encodings");
    rep.assume("instruction semantics = doc comments of wit_bindgen_core::abi::Instruction; canonical list instructions use the canonical layout");

    let (nrandom, nvals) = match tier.as_str() {
        "thorough" => (1000, 120),
        "miri" => (0, 2),
        _ => (36, 20),
    };
    let mut units = vec![];
    let mut only = None;
    if let Some(path) = args.get("replay") {
        let Some(r) = load_replay(path) else {
            rep.inconclusive("replay file unreadable");
            rep.write(&args.out());
            return;
        };
        match unit_from_replay(&r) {
            Some(u) => units.push(u),
            None => {
                rep.inconclusive("replay unit cannot be rebuilt");
                rep.write(&args.out());
                return;
            }
        }
        only = Some((
            r["path"].as_str().unwrap_or("").to_string(),
            Only { val: r["value"].as_str().map(|s| s.to_string()), width: r["width"].as_u64().map(|w| w as usize), policy: r["policy"].as_str().and_then(CanonPolicy::parse) },
        ));
    } else {
        if tier == "miri" {
            units.push(miri_unit());
        } else {
            units.extend(boundary_units());
            units.push(flags_unit());
            units.push(dealloc_unit());
            units.push(limits_unit());
        }
        let mut stats = (0, 0);
        let mut rng = Rng::new(seed.wrapping_mul(0x9E37_79B9).wrapping_add(1));
        units.extend(random_units(&mut rng, nrandom, &mut stats));
        rep.extra.insert("random_worlds".into(), json!(stats.0));
        rep.extra.insert("random_worlds_discarded".into(), json!(stats.1));
        if tier == "thorough" {
            units.push(joins_unit());
        }
    }

    // work list: (unit index, path, type)
    let mut work = vec![];
    for (ui, u) in units.iter().enumerate() {
        let mut tys = u.value_types();
        if ui == 0 {
            for (n, t) in PRIMS {
                tys.push((format!("prim:{n}"), *t));
            }
        }
        for (p, t) in tys {
            if let Some((path, _)) = &only {
                if *path != p {
                    continue;
                }
            }
            work.push((ui, p, t));
        }
    }
    if tier == "miri" {
        work.truncate(24);
    }
    rep.extra.insert("units".into(), json!(units.len()));
    rep.extra.insert("types_scheduled".into(), json!(work.len()));
    let nt = nthreads(&tier);
    let ctxs: Vec<Ctx> = units.iter().map(|u| Ctx::new(&u.resolve)).collect();
    let parts = parallel(nt, |wi| {
        let mut r = Report::new("");
        r.max_samples = 1;
        for (k, (ui, path, ty)) in work.iter().enumerate() {
            if k % nt != wi {
                continue;
            }
            let c = Case { unit: &units[*ui], ctx: &ctxs[*ui], path, ty: *ty };
            let res = catch(std::panic::AssertUnwindSafe(|| check_type(&mut r, &c, seed, nvals, only.as_ref().map(|o| &o.1))));
            if let Err((msg, loc)) = res {
                r.inconclusive(&format!("harness panicked at {}: {}", panic_site(&loc), shorten(&msg, 120)));
            }
        }
        r
    });
    for p in parts {
        merge(&mut rep, p);
    }
    if rep.samples.is_empty() && !work.is_empty() {
        rep.sample(json!({"fallback": "first scheduled case", "unit": units[work[0].0].label, "path": work[0].1}));
    }
    rep.write(&args.out());
}
