//! The abstract machine: executes the recorded IR on concrete values.  The
//! semantics of every instruction are the doc comments on
//! `wit_bindgen_core::abi::Instruction`; where those leave the encoding to the
//! backend ("layout of the native language matches the canonical ABI") the
//! machine uses the canonical ABI itself (through `cabi_ref`).
use crate::ir::*;
use crate::mem::{BlockKind, Mem, MemError};
use cabi_ref::{Abi, CoreTy, CoreVal, Val};
use wit_bindgen_core::abi::{WasmSignature, WasmType};
use wit_bindgen_core::wit_parser::{Alignment, ArchitectureSize, Resolve, SizeAlign, Type};

#[derive(Clone, Debug, PartialEq)]
pub enum MV {
    /// interface-level value
    Iface(Val),
    /// core wasm value
    Core(CoreVal),
    /// `VariantPayloadName` in an arm without payload
    NoPayload,
}

impl MV {
    pub fn kind(&self) -> String {
        match self {
            MV::Iface(_) => "interface-value".into(),
            MV::Core(c) => format!("{:?}", c.ty()),
            MV::NoPayload => "no-payload".into(),
        }
    }
}

#[derive(Clone, Debug)]
pub struct MErr {
    /// stable class (goes into violation signatures)
    pub class: String,
    pub detail: String,
}

impl MErr {
    pub fn new(class: &str, detail: String) -> MErr {
        MErr { class: class.to_string(), detail }
    }
    pub fn text(&self) -> String {
        format!("{}: {}", self.class, self.detail)
    }
}

impl From<MemError> for MErr {
    fn from(e: MemError) -> MErr {
        MErr { class: format!("mem:{}", e.class), detail: e.detail }
    }
}

/// The environment of the glue code: the callee behind `CallWasm` /
/// `CallInterface` and the `task.return` intrinsic.
pub trait Host {
    fn call_wasm(&mut self, _mem: &mut Mem, name: &str, _sig: &WasmSignature, _args: &[CoreVal]) -> Result<Vec<CoreVal>, String> {
        Err(format!("unexpected CallWasm {name}"))
    }
    fn call_interface(&mut self, name: &str, _args: Vec<Val>, _has_result: bool, _async_: bool) -> Result<Option<Val>, String> {
        Err(format!("unexpected CallInterface {name}"))
    }
    fn task_return(&mut self, _mem: &mut Mem, name: &str, _params: &[WasmType], _args: &[CoreVal]) -> Result<(), String> {
        Err(format!("unexpected AsyncTaskReturn {name}"))
    }
}

pub struct NoHost;
impl Host for NoHost {}

#[derive(Default, Debug, Clone)]
pub struct Events {
    pub call_wasm: usize,
    pub call_interface: usize,
    pub task_return: usize,
    pub returns: Vec<Vec<MV>>,
    pub dropped: Vec<u32>,
    pub ret_areas: Vec<(u64, usize, usize)>,
    pub mallocs: Vec<(u64, usize, usize)>,
    pub bitcasts: u64,
    pub steps: u64,
    pub loads: u64,
    pub stores: u64,
    pub after_return: usize,
    /// narrow lifts fed by a load of the other signedness (harmless: lifts truncate)
    pub load_extension_mismatches: u64,
    pub load_extension_sample: Option<String>,
}

struct IterFrame {
    elem: Option<Val>,
    key: Option<Val>,
    value: Option<Val>,
    base: u64,
}

/// Types + layout tables shared by all machines over one `Resolve`.
pub struct Ctx<'a> {
    pub resolve: &'a Resolve,
    pub sizes: SizeAlign,
}

impl<'a> Ctx<'a> {
    pub fn new(resolve: &'a Resolve) -> Ctx<'a> {
        let mut sizes = SizeAlign::default();
        sizes.fill(resolve);
        Ctx { resolve, sizes }
    }
}

pub fn eval_size(s: ArchitectureSize, width: usize) -> usize {
    s.bytes + s.pointers * width
}

pub fn eval_align(a: Alignment, width: usize) -> usize {
    match a {
        Alignment::Pointer => width,
        Alignment::Bytes(b) => b.get(),
    }
}

pub fn core_of(wt: WasmType, width: usize) -> CoreTy {
    match wt {
        WasmType::I32 => CoreTy::I32,
        WasmType::I64 => CoreTy::I64,
        WasmType::F32 => CoreTy::F32,
        WasmType::F64 => CoreTy::F64,
        WasmType::Pointer | WasmType::Length => {
            if width == 4 {
                CoreTy::I32
            } else {
                CoreTy::I64
            }
        }
        WasmType::PointerOrI64 => CoreTy::I64,
    }
}

fn is64(t: CoreTy) -> bool {
    matches!(t, CoreTy::I64 | CoreTy::F64)
}

/// Execute one `Bitcast` on a typed core value.  Each primitive cast checks that
/// its operand has the declared source type and produces the declared
/// destination type (both after applying the pointer width): equal sizes
/// reinterpret, 32->64 zero-extends, 64->32 wraps.
pub fn apply_cast(c: &Cast, v: CoreVal, width: usize) -> Result<CoreVal, MErr> {
    match c {
        Cast::None => Ok(v),
        Cast::Sequence(s) => {
            let mid = apply_cast(&s[0], v, width)?;
            apply_cast(&s[1], mid, width)
        }
        prim => {
            let (from, to) = prim.endpoints().unwrap();
            let (fc, tc) = (core_of(from, width), core_of(to, width));
            if v.ty() != fc {
                return Err(MErr::new(
                    "bitcast-operand-type",
                    format!("{prim:?} expects {from:?} (= {fc:?} at pointer width {width}) but the operand is {:?}", v.ty()),
                ));
            }
            let bits = v.bits();
            let out = match (is64(fc), is64(tc)) {
                (true, false) => bits & 0xffff_ffff,
                _ => bits,
            };
            Ok(CoreVal::from_bits(tc, out))
        }
    }
}

pub struct Machine<'a, 'h> {
    pub ctx: &'a Ctx<'a>,
    pub abi: Abi<'a>,
    pub width: usize,
    pub mem: Mem,
    pub args: Vec<MV>,
    vals: Vec<Option<MV>>,
    /// ids whose current value was produced by a memory load instruction
    from_load: Vec<bool>,
    iter: Vec<IterFrame>,
    payload: Vec<Option<Val>>,
    pub ev: Events,
    pub host: &'h mut dyn Host,
    pub step_limit: u64,
    returned: bool,
}

type R<T> = Result<T, MErr>;

impl<'a, 'h> Machine<'a, 'h> {
    pub fn new(ctx: &'a Ctx<'a>, width: usize, mem: Mem, host: &'h mut dyn Host) -> Machine<'a, 'h> {
        Machine {
            ctx,
            abi: Abi::new(ctx.resolve, width),
            width,
            mem,
            args: vec![],
            vals: vec![],
            from_load: vec![],
            iter: vec![],
            payload: vec![],
            ev: Events::default(),
            host,
            step_limit: 5_000_000,
            returned: false,
        }
    }

    pub fn set(&mut self, op: Op, v: MV) {
        let i = op as usize;
        if self.vals.len() <= i {
            self.vals.resize(i + 1, None);
            self.from_load.resize(i + 1, false);
        }
        self.vals[i] = Some(v);
        self.from_load[i] = false;
    }

    pub fn get(&self, op: Op) -> R<MV> {
        match self.vals.get(op as usize) {
            Some(Some(v)) => Ok(v.clone()),
            _ => Err(MErr::new("undefined-operand", format!("operand %{op} used before it was defined (value of a block that did not run?)"))),
        }
    }

    pub fn ptr_ty(&self) -> CoreTy {
        if self.width == 4 {
            CoreTy::I32
        } else {
            CoreTy::I64
        }
    }

    pub fn ptr_val(&self, p: u64) -> CoreVal {
        CoreVal::from_bits(self.ptr_ty(), p)
    }

    fn size(&self, t: &Type) -> usize {
        eval_size(self.ctx.sizes.size(t), self.width)
    }
    fn align(&self, t: &Type) -> usize {
        eval_align(self.ctx.sizes.align(t), self.width)
    }
    fn entry_layout(&self, k: &Type, v: &Type) -> (usize, usize) {
        let e = self.ctx.sizes.record([k, v]);
        (eval_size(e.size, self.width), eval_align(e.align, self.width))
    }

    fn core(&self, n: &Node, i: usize, want: CoreTy) -> R<u64> {
        match self.get(n.operands[i])? {
            MV::Core(c) if c.ty() == want => Ok(c.bits()),
            other => Err(MErr::new(
                &format!("operand-type:{}", n.inst.mnemonic()),
                format!("{:?}: operand {i} must be a core {want:?} but is {}", n.inst, other.kind()),
            )),
        }
    }

    fn any_core(&self, n: &Node, i: usize) -> R<CoreVal> {
        match self.get(n.operands[i])? {
            MV::Core(c) => Ok(c),
            other => Err(MErr::new(
                &format!("operand-type:{}", n.inst.mnemonic()),
                format!("{:?}: operand {i} must be a core value but is {}", n.inst, other.kind()),
            )),
        }
    }

    fn iface(&self, n: &Node, i: usize) -> R<Val> {
        match self.get(n.operands[i])? {
            MV::Iface(v) => Ok(v),
            other => Err(MErr::new(
                &format!("operand-type:{}", n.inst.mnemonic()),
                format!("{:?}: operand {i} must be an interface value but is {}", n.inst, other.kind()),
            )),
        }
    }

    fn shape_err(n: &Node, v: &Val) -> MErr {
        MErr::new(&format!("value-shape:{}", n.inst.mnemonic()), format!("{:?} applied to value {}", n.inst, v.text()))
    }

    fn nres(n: &Node, want: usize) -> R<()> {
        if n.results.len() != want {
            return Err(MErr::new("result-arity", format!("{:?} has {} result slots, the machine produces {want}", n.inst, n.results.len())));
        }
        Ok(())
    }

    pub fn run(&mut self, body: &Block) -> R<()> {
        self.exec_block(body)
    }

    fn exec_block(&mut self, b: &Block) -> R<()> {
        for n in &b.nodes {
            self.exec(n)?;
        }
        Ok(())
    }

    fn run_block_results(&mut self, b: &Block) -> R<Vec<MV>> {
        self.exec_block(b)?;
        b.results.iter().map(|o| self.get(*o)).collect()
    }

    fn lists_alloc(&mut self, size: usize, align: usize, realloc: bool, what: &'static str) -> R<u64> {
        let kind = if realloc { BlockKind::Realloc } else { BlockKind::Temp };
        Ok(self.mem.alloc(size, align, kind, what)?)
    }

    fn load_bytes(&mut self, n: &Node, offset: ArchitectureSize, len: usize) -> R<u64> {
        let p = self.core(n, 0, self.ptr_ty())?;
        let ea = p.wrapping_add(eval_size(offset, self.width) as u64);
        if ea % len as u64 != 0 {
            return Err(MErr::new("misaligned-access", format!("{:?} at address {ea:#x} (base {p:#x}) is not {len}-byte aligned", n.inst)));
        }
        let b = self.mem.read_checked(ea, len)?;
        let mut a = [0u8; 8];
        a[..len].copy_from_slice(&b);
        self.ev.loads += 1;
        Ok(u64::from_le_bytes(a))
    }

    fn store_bytes(&mut self, n: &Node, offset: ArchitectureSize, len: usize, bits: u64) -> R<()> {
        let p = self.core(n, 1, self.ptr_ty())?;
        let ea = p.wrapping_add(eval_size(offset, self.width) as u64);
        if ea % len as u64 != 0 {
            return Err(MErr::new("misaligned-access", format!("{:?} at address {ea:#x} (base {p:#x}) is not {len}-byte aligned", n.inst)));
        }
        self.mem.write_checked(ea, &bits.to_le_bytes()[..len])?;
        self.ev.stores += 1;
        Ok(())
    }

    fn top_iter(&self, n: &Node) -> R<&IterFrame> {
        self.iter.last().ok_or_else(|| MErr::new("iter-context", format!("{:?} outside of a list/map body", n.inst)))
    }

    fn exec(&mut self, n: &Node) -> R<()> {
        self.ev.steps += 1;
        if self.ev.steps > self.step_limit {
            return Err(MErr::new("step-limit", "machine step limit exceeded".into()));
        }
        if self.returned {
            self.ev.after_return += 1;
        }
        let w = self.width;
        match &n.inst {
            Inst::GetArg(nth) => {
                let v = self
                    .args
                    .get(*nth)
                    .cloned()
                    .ok_or_else(|| MErr::new("getarg-range", format!("GetArg {{ nth: {nth} }} but only {} arguments were passed", self.args.len())))?;
                Self::nres(n, 1)?;
                self.set(n.results[0], v);
            }
            Inst::I32Const(v) => self.set(n.results[0], MV::Core(CoreVal::I32(*v as u32))),
            Inst::Bitcasts(casts) => {
                if casts.len() != n.operands.len() {
                    return Err(MErr::new("bitcast-arity", format!("{} casts for {} operands", casts.len(), n.operands.len())));
                }
                for (i, c) in casts.iter().enumerate() {
                    let v = self.any_core(n, i)?;
                    let out = apply_cast(c, v, w)?;
                    self.ev.bitcasts += 1;
                    self.set(n.results[i], MV::Core(out));
                }
            }
            Inst::ConstZero(tys) => {
                for (i, t) in tys.iter().enumerate() {
                    self.set(n.results[i], MV::Core(CoreVal::zero(core_of(*t, w))));
                }
            }
            Inst::Load(kind, offset) => {
                let v = match kind {
                    LoadKind::I32 => CoreVal::I32(self.load_bytes(n, *offset, 4)? as u32),
                    LoadKind::I32_8U => CoreVal::I32(self.load_bytes(n, *offset, 1)? as u8 as u32),
                    LoadKind::I32_8S => CoreVal::I32(self.load_bytes(n, *offset, 1)? as u8 as i8 as i32 as u32),
                    LoadKind::I32_16U => CoreVal::I32(self.load_bytes(n, *offset, 2)? as u16 as u32),
                    LoadKind::I32_16S => CoreVal::I32(self.load_bytes(n, *offset, 2)? as u16 as i16 as i32 as u32),
                    LoadKind::I64 => CoreVal::I64(self.load_bytes(n, *offset, 8)?),
                    LoadKind::F32 => CoreVal::F32(self.load_bytes(n, *offset, 4)? as u32),
                    LoadKind::F64 => CoreVal::F64(self.load_bytes(n, *offset, 8)?),
                    LoadKind::Pointer | LoadKind::Length => {
                        let b = self.load_bytes(n, *offset, w)?;
                        self.ptr_val(b)
                    }
                };
                self.set(n.results[0], MV::Core(v));
                self.from_load[n.results[0] as usize] = true;
            }
            Inst::Store(kind, offset) => {
                let (want, len) = match kind {
                    StoreKind::I32 => (CoreTy::I32, 4),
                    StoreKind::I32_8 => (CoreTy::I32, 1),
                    StoreKind::I32_16 => (CoreTy::I32, 2),
                    StoreKind::I64 => (CoreTy::I64, 8),
                    StoreKind::F32 => (CoreTy::F32, 4),
                    StoreKind::F64 => (CoreTy::F64, 8),
                    StoreKind::Pointer | StoreKind::Length => (self.ptr_ty(), w),
                };
                let bits = self.core(n, 0, want)?;
                self.store_bytes(n, *offset, len, bits)?;
            }
            Inst::ScalarLower(s) => {
                let v = self.iface(n, 0)?;
                let c = match (s, &v) {
                    (Scalar::Bool, Val::Bool(b)) => CoreVal::I32(*b as u32),
                    (Scalar::U8, Val::U8(x)) => CoreVal::I32(*x as u32),
                    (Scalar::S8, Val::S8(x)) => CoreVal::I32(*x as i32 as u32),
                    (Scalar::U16, Val::U16(x)) => CoreVal::I32(*x as u32),
                    (Scalar::S16, Val::S16(x)) => CoreVal::I32(*x as i32 as u32),
                    (Scalar::U32, Val::U32(x)) => CoreVal::I32(*x),
                    (Scalar::S32, Val::S32(x)) => CoreVal::I32(*x as u32),
                    (Scalar::U64, Val::U64(x)) => CoreVal::I64(*x),
                    (Scalar::S64, Val::S64(x)) => CoreVal::I64(*x as u64),
                    (Scalar::F32, Val::F32(b)) => CoreVal::F32(*b),
                    (Scalar::F64, Val::F64(b)) => CoreVal::F64(*b),
                    (Scalar::Char, Val::Char(c)) => CoreVal::I32(*c),
                    _ => return Err(Self::shape_err(n, &v)),
                };
                self.set(n.results[0], MV::Core(c));
            }
            Inst::ScalarLift(s) => {
                let want = match s {
                    Scalar::U64 | Scalar::S64 => CoreTy::I64,
                    Scalar::F32 => CoreTy::F32,
                    Scalar::F64 => CoreTy::F64,
                    _ => CoreTy::I32,
                };
                let b = self.core(n, 0, want)?;
                // Evidence only (not a verdict): a narrow integer that comes straight
                // out of a memory load is normally already the canonical i32 of its
                // value, because the generator picks the zero-/sign-extending load
                // matching the type's signedness.  A mismatch changes no lifted value
                // (the lift truncates), so it is counted, never alarmed.
                if self.from_load.get(n.operands[0] as usize).copied().unwrap_or(false) {
                    let canon = match s {
                        Scalar::U8 => b as u8 as u64,
                        Scalar::S8 => b as u8 as i8 as i32 as u32 as u64,
                        Scalar::U16 => b as u16 as u64,
                        Scalar::S16 => b as u16 as i16 as i32 as u32 as u64,
                        _ => b,
                    };
                    if canon != b {
                        // observation only: every narrow lift truncates, so the lifted
                        // value is unaffected and the property still holds
                        self.ev.load_extension_mismatches += 1;
                        if self.ev.load_extension_sample.is_none() {
                            self.ev.load_extension_sample = Some(format!("{:?} receives {b:#x} from a memory load: not the {} i32 of that value ({canon:#x}); load signedness does not match the type", n.inst, if matches!(s, Scalar::S8 | Scalar::S16) { "sign-extended" } else { "zero-extended" }));
                        }
                    }
                }
                let v = match s {
                    Scalar::Bool => match b {
                        0 => Val::Bool(false),
                        1 => Val::Bool(true),
                        _ => return Err(MErr::new("bool-range", format!("BoolFromI32 of {b}: traps (not 0 or 1)"))),
                    },
                    Scalar::U8 => Val::U8(b as u8),
                    Scalar::S8 => Val::S8(b as u8 as i8),
                    Scalar::U16 => Val::U16(b as u16),
                    Scalar::S16 => Val::S16(b as u16 as i16),
                    Scalar::U32 => Val::U32(b as u32),
                    Scalar::S32 => Val::S32(b as u32 as i32),
                    Scalar::U64 => Val::U64(b),
                    Scalar::S64 => Val::S64(b as i64),
                    Scalar::F32 => Val::F32(b as u32),
                    Scalar::F64 => Val::F64(b),
                    Scalar::Char => {
                        if char::from_u32(b as u32).is_none() {
                            return Err(MErr::new("char-range", format!("CharFromI32 of {b:#x}: not a unicode scalar value")));
                        }
                        Val::Char(b as u32)
                    }
                };
                self.set(n.results[0], MV::Iface(v));
            }
            Inst::ListCanonLower { element, realloc } => {
                let v = self.iface(n, 0)?;
                let Val::List(items) = &v else { return Err(Self::shape_err(n, &v)) };
                let (es, ea) = (self.size(element), self.align(element));
                let p = self.lists_alloc(es * items.len(), ea, *realloc, "ListCanonLower")?;
                let abi = self.abi;
                for (i, it) in items.iter().enumerate() {
                    abi.store(&mut self.mem, it, element, p + (i * es) as u64).map_err(|e| MErr::new("canon-store", e))?;
                }
                // a memcpy of the native array also copies its padding bytes
                self.mem.fill_unwritten(p, es * items.len(), 0xCD);
                self.set(n.results[0], MV::Core(self.ptr_val(p)));
                self.set(n.results[1], MV::Core(self.ptr_val(items.len() as u64)));
            }
            Inst::StringLower { realloc } => {
                let v = self.iface(n, 0)?;
                let Val::Str(s) = &v else { return Err(Self::shape_err(n, &v)) };
                let p = self.lists_alloc(s.len(), 1, *realloc, "StringLower")?;
                self.mem.write_checked(p, s.as_bytes())?;
                self.set(n.results[0], MV::Core(self.ptr_val(p)));
                self.set(n.results[1], MV::Core(self.ptr_val(s.len() as u64)));
            }
            Inst::ListLower { element, realloc } => {
                let v = self.iface(n, 0)?;
                let Val::List(items) = &v else { return Err(Self::shape_err(n, &v)) };
                let (es, ea) = (self.size(element), self.align(element));
                let p = self.lists_alloc(es * items.len(), ea, *realloc, "ListLower")?;
                for (i, it) in items.iter().enumerate() {
                    self.iter.push(IterFrame { elem: Some(it.clone()), key: None, value: None, base: p + (i * es) as u64 });
                    let r = self.exec_block(&n.blocks[0]);
                    self.iter.pop();
                    r?;
                }
                self.set(n.results[0], MV::Core(self.ptr_val(p)));
                self.set(n.results[1], MV::Core(self.ptr_val(items.len() as u64)));
            }
            Inst::ListCanonLift { element } => {
                let p = self.core(n, 0, self.ptr_ty())?;
                let len = self.core(n, 1, self.ptr_ty())?;
                self.check_len(n, len)?;
                let es = self.size(element);
                let ea = self.align(element) as u64;
                if p % ea != 0 {
                    return Err(MErr::new("misaligned-list", format!("{:?}: list pointer {p:#x} not aligned to {ea}", n.inst)));
                }
                let mut out = vec![];
                let abi = self.abi;
                for i in 0..len as usize {
                    // strict read of the element's non-padding bytes
                    out.push(abi.load(&self.mem, element, p + (i * es) as u64).map_err(|e| MErr::new("canon-load", e))?);
                }
                self.set(n.results[0], MV::Iface(Val::List(out)));
            }
            Inst::StringLift => {
                let p = self.core(n, 0, self.ptr_ty())?;
                let len = self.core(n, 1, self.ptr_ty())?;
                self.check_len(n, len)?;
                let b = self.mem.read_checked(p, len as usize)?;
                let s = String::from_utf8(b).map_err(|e| MErr::new("utf8", format!("StringLift: {e}")))?;
                self.set(n.results[0], MV::Iface(Val::Str(s)));
            }
            Inst::ListLift { element } => {
                let p = self.core(n, 0, self.ptr_ty())?;
                let len = self.core(n, 1, self.ptr_ty())?;
                self.check_len(n, len)?;
                let es = self.size(element);
                let mut out = vec![];
                for i in 0..len as usize {
                    self.iter.push(IterFrame { elem: None, key: None, value: None, base: p + (i * es) as u64 });
                    let r = self.run_block_results(&n.blocks[0]);
                    self.iter.pop();
                    let r = r?;
                    match r.as_slice() {
                        [MV::Iface(v)] => out.push(v.clone()),
                        _ => return Err(MErr::new("block-results", format!("ListLift body produced {} values", r.len()))),
                    }
                }
                self.set(n.results[0], MV::Iface(Val::List(out)));
            }
            Inst::MapLower { key, value, realloc } => {
                let v = self.iface(n, 0)?;
                let Val::Map(items) = &v else { return Err(Self::shape_err(n, &v)) };
                let (es, ea) = self.entry_layout(key, value);
                let p = self.lists_alloc(es * items.len(), ea, *realloc, "MapLower")?;
                for (i, (k, val)) in items.iter().enumerate() {
                    self.iter.push(IterFrame { elem: None, key: Some(k.clone()), value: Some(val.clone()), base: p + (i * es) as u64 });
                    let r = self.exec_block(&n.blocks[0]);
                    self.iter.pop();
                    r?;
                }
                self.set(n.results[0], MV::Core(self.ptr_val(p)));
                self.set(n.results[1], MV::Core(self.ptr_val(items.len() as u64)));
            }
            Inst::MapLift { key, value } => {
                let p = self.core(n, 0, self.ptr_ty())?;
                let len = self.core(n, 1, self.ptr_ty())?;
                self.check_len(n, len)?;
                let (es, _) = self.entry_layout(key, value);
                let mut out = vec![];
                for i in 0..len as usize {
                    self.iter.push(IterFrame { elem: None, key: None, value: None, base: p + (i * es) as u64 });
                    let r = self.run_block_results(&n.blocks[0]);
                    self.iter.pop();
                    let r = r?;
                    match r.as_slice() {
                        [MV::Iface(k), MV::Iface(v)] => out.push((k.clone(), v.clone())),
                        _ => return Err(MErr::new("block-results", format!("MapLift body produced {} values", r.len()))),
                    }
                }
                self.set(n.results[0], MV::Iface(Val::Map(out)));
            }
            Inst::FixedLift { size } => {
                let mut out = vec![];
                for i in 0..*size as usize {
                    out.push(self.iface(n, i)?);
                }
                self.set(n.results[0], MV::Iface(Val::List(out)));
            }
            Inst::FixedLower { size } => {
                let v = self.iface(n, 0)?;
                let Val::List(items) = &v else { return Err(Self::shape_err(n, &v)) };
                if items.len() != *size as usize {
                    return Err(Self::shape_err(n, &v));
                }
                for (i, it) in items.iter().enumerate() {
                    self.set(n.results[i], MV::Iface(it.clone()));
                }
            }
            Inst::FixedLowerToMemory { element, size } => {
                let v = self.iface(n, 0)?;
                let Val::List(items) = &v else { return Err(Self::shape_err(n, &v)) };
                if items.len() != *size as usize {
                    return Err(Self::shape_err(n, &v));
                }
                let p = self.core(n, 1, self.ptr_ty())?;
                let es = self.size(element);
                for (i, it) in items.iter().enumerate() {
                    self.iter.push(IterFrame { elem: Some(it.clone()), key: None, value: None, base: p + (i * es) as u64 });
                    let r = self.exec_block(&n.blocks[0]);
                    self.iter.pop();
                    r?;
                }
            }
            Inst::FixedLiftFromMemory { element, size } => {
                let p = self.core(n, 0, self.ptr_ty())?;
                let es = self.size(element);
                let mut out = vec![];
                for i in 0..*size as usize {
                    self.iter.push(IterFrame { elem: None, key: None, value: None, base: p + (i * es) as u64 });
                    let r = self.run_block_results(&n.blocks[0]);
                    self.iter.pop();
                    let r = r?;
                    match r.as_slice() {
                        [MV::Iface(v)] => out.push(v.clone()),
                        _ => return Err(MErr::new("block-results", format!("FixedLengthListLiftFromMemory body produced {} values", r.len()))),
                    }
                }
                self.set(n.results[0], MV::Iface(Val::List(out)));
            }
            Inst::IterElem => {
                let f = self.top_iter(n)?;
                let v = f.elem.clone().ok_or_else(|| MErr::new("iter-context", "IterElem in a body that has no element".into()))?;
                self.set(n.results[0], MV::Iface(v));
            }
            Inst::IterMapKey => {
                let f = self.top_iter(n)?;
                let v = f.key.clone().ok_or_else(|| MErr::new("iter-context", "IterMapKey outside of a map lowering body".into()))?;
                self.set(n.results[0], MV::Iface(v));
            }
            Inst::IterMapValue => {
                let f = self.top_iter(n)?;
                let v = f.value.clone().ok_or_else(|| MErr::new("iter-context", "IterMapValue outside of a map lowering body".into()))?;
                self.set(n.results[0], MV::Iface(v));
            }
            Inst::IterBasePointer => {
                let b = self.top_iter(n)?.base;
                self.set(n.results[0], MV::Core(self.ptr_val(b)));
            }
            Inst::RecordLower(nf) => {
                let v = self.iface(n, 0)?;
                let Val::Record(fs) = &v else { return Err(Self::shape_err(n, &v)) };
                if fs.len() != *nf {
                    return Err(Self::shape_err(n, &v));
                }
                for (i, f) in fs.iter().enumerate() {
                    self.set(n.results[i], MV::Iface(f.clone()));
                }
            }
            Inst::RecordLift(nf) => {
                let mut out = vec![];
                for i in 0..*nf {
                    out.push(self.iface(n, i)?);
                }
                self.set(n.results[0], MV::Iface(Val::Record(out)));
            }
            Inst::HandleLower(_) => {
                let v = self.iface(n, 0)?;
                let Val::Handle(h) = v else { return Err(Self::shape_err(n, &v)) };
                self.set(n.results[0], MV::Core(CoreVal::I32(h)));
            }
            Inst::HandleLift(_) => {
                let b = self.core(n, 0, CoreTy::I32)?;
                self.set(n.results[0], MV::Iface(Val::Handle(b as u32)));
            }
            Inst::FlagsLower { nflags, words } => {
                let v = self.iface(n, 0)?;
                let Val::Flags(bits) = &v else { return Err(Self::shape_err(n, &v)) };
                if bits.len() != *nflags {
                    return Err(Self::shape_err(n, &v));
                }
                for wi in 0..*words {
                    let mut x = 0u32;
                    for i in 0..32 {
                        if wi * 32 + i < *nflags && bits[wi * 32 + i] {
                            x |= 1 << i;
                        }
                    }
                    self.set(n.results[wi], MV::Core(CoreVal::I32(x)));
                }
            }
            Inst::FlagsLift { nflags, words } => {
                let mut bits = vec![];
                for wi in 0..*words {
                    let x = self.core(n, wi, CoreTy::I32)? as u32;
                    for i in 0..32 {
                        if wi * 32 + i < *nflags {
                            bits.push(x & (1 << i) != 0);
                        }
                    }
                }
                if bits.len() != *nflags {
                    return Err(MErr::new("flags-words", format!("FlagsLift: {words} words cannot hold {nflags} flags")));
                }
                self.set(n.results[0], MV::Iface(Val::Flags(bits)));
            }
            Inst::VariantPayloadName => {
                let p = self.payload.last().ok_or_else(|| MErr::new("payload-context", "VariantPayloadName outside of a variant arm".into()))?;
                let v = match p {
                    Some(v) => MV::Iface(v.clone()),
                    None => MV::NoPayload,
                };
                self.set(n.results[0], v);
            }
            Inst::VariantLower { kind: _, ncases, results } => {
                let v = self.iface(n, 0)?;
                let Val::Variant(case, payload) = &v else { return Err(Self::shape_err(n, &v)) };
                if *case as usize >= *ncases {
                    return Err(Self::shape_err(n, &v));
                }
                self.payload.push(payload.as_ref().map(|b| (**b).clone()));
                let r = self.run_block_results(&n.blocks[*case as usize]);
                self.payload.pop();
                let r = r?;
                if r.len() != results.len() {
                    return Err(MErr::new("block-results", format!("variant arm {case} produced {} values, {} expected", r.len(), results.len())));
                }
                for (i, (val, wt)) in r.iter().zip(results).enumerate() {
                    match val {
                        MV::Core(c) if c.ty() == core_of(*wt, w) => {}
                        other => {
                            return Err(MErr::new(
                                "variant-arm-type",
                                format!("variant arm {case} result {i} is {} but the joined slot is {wt:?} (= {:?} at width {w})", other.kind(), core_of(*wt, w)),
                            ))
                        }
                    }
                    self.set(n.results[i], val.clone());
                }
            }
            Inst::VariantLift { kind: _, ncases } => {
                let d = self.core(n, 0, CoreTy::I32)?;
                if d as usize >= *ncases {
                    return Err(MErr::new("discriminant-range", format!("{:?}: discriminant {d} out of range", n.inst)));
                }
                self.payload.push(None);
                let r = self.run_block_results(&n.blocks[d as usize]);
                self.payload.pop();
                let r = r?;
                let payload = match r.as_slice() {
                    [] => None,
                    [MV::Iface(v)] => Some(Box::new(v.clone())),
                    _ => return Err(MErr::new("block-results", format!("variant lift arm {d} produced {} values", r.len()))),
                };
                self.set(n.results[0], MV::Iface(Val::Variant(d as u32, payload)));
            }
            Inst::EnumLower { ncases } => {
                let v = self.iface(n, 0)?;
                let Val::Variant(case, None) = &v else { return Err(Self::shape_err(n, &v)) };
                if *case as usize >= *ncases {
                    return Err(Self::shape_err(n, &v));
                }
                self.set(n.results[0], MV::Core(CoreVal::I32(*case)));
            }
            Inst::EnumLift { ncases } => {
                let d = self.core(n, 0, CoreTy::I32)?;
                if d as usize >= *ncases {
                    return Err(MErr::new("discriminant-range", format!("EnumLift: discriminant {d} out of range")));
                }
                self.set(n.results[0], MV::Iface(Val::Variant(d as u32, None)));
            }
            Inst::CallWasm { name, sig } => {
                let mut args = vec![];
                for (i, p) in sig.params.iter().enumerate() {
                    let c = self.any_core(n, i)?;
                    if c.ty() != core_of(*p, w) {
                        return Err(MErr::new(
                            "call-arg-type",
                            format!("CallWasm {name}: argument {i} is {:?} but the signature says {p:?} (= {:?} at width {w})", c.ty(), core_of(*p, w)),
                        ));
                    }
                    args.push(c);
                }
                self.ev.call_wasm += 1;
                let res = self.host.call_wasm(&mut self.mem, name, sig, &args).map_err(|e| MErr::new("callee", e))?;
                if res.len() != sig.results.len() {
                    return Err(MErr::new("callee", format!("scripted callee returned {} values for {:?}", res.len(), sig.results)));
                }
                for (i, r) in res.into_iter().enumerate() {
                    self.set(n.results[i], MV::Core(r));
                }
            }
            Inst::CallInterface { name, nparams, has_result, async_ } => {
                let mut args = vec![];
                for i in 0..*nparams {
                    args.push(self.iface(n, i)?);
                }
                self.ev.call_interface += 1;
                let r = self.host.call_interface(name, args, *has_result, *async_).map_err(|e| MErr::new("callee", e))?;
                match (r, has_result) {
                    (Some(v), true) => self.set(n.results[0], MV::Iface(v)),
                    (None, false) => {}
                    _ => return Err(MErr::new("callee", "scripted interface callee result arity".into())),
                }
            }
            Inst::Return { amt } => {
                let mut out = vec![];
                for i in 0..*amt {
                    out.push(self.get(n.operands[i])?);
                }
                self.ev.returns.push(out);
                self.returned = true;
            }
            Inst::Malloc { size, align } => {
                let (s, a) = (eval_size(*size, w), eval_align(*align, w));
                let p = self.mem.alloc(s, a, BlockKind::Realloc, "Malloc")?;
                self.ev.mallocs.push((p, s, a));
                self.set(n.results[0], MV::Core(self.ptr_val(p)));
            }
            Inst::ReturnPointer { size, align } => {
                let (s, a) = (eval_size(*size, w), eval_align(*align, w));
                let p = self.mem.alloc(s, a, BlockKind::RetArea, "return_pointer")?;
                self.ev.ret_areas.push((p, s, a));
                self.set(n.results[0], MV::Core(self.ptr_val(p)));
            }
            Inst::GuestDeallocate { size, align } => {
                let p = self.core(n, 0, self.ptr_ty())?;
                self.mem.free(p, eval_size(*size, w), eval_align(*align, w), "GuestDeallocate");
            }
            Inst::GuestDeallocateString => {
                let p = self.core(n, 0, self.ptr_ty())?;
                let len = self.core(n, 1, self.ptr_ty())?;
                self.mem.free(p, len as usize, 1, "GuestDeallocateString");
            }
            Inst::GuestDeallocateList { element } => {
                let p = self.core(n, 0, self.ptr_ty())?;
                let len = self.core(n, 1, self.ptr_ty())?;
                self.check_len(n, len)?;
                let (es, ea) = (self.size(element), self.align(element));
                if !n.blocks[0].nodes.is_empty() {
                    for i in 0..len as usize {
                        self.iter.push(IterFrame { elem: None, key: None, value: None, base: p + (i * es) as u64 });
                        let r = self.exec_block(&n.blocks[0]);
                        self.iter.pop();
                        r?;
                    }
                }
                self.mem.free(p, es * len as usize, ea, "GuestDeallocateList");
            }
            Inst::GuestDeallocateMap { key, value } => {
                let p = self.core(n, 0, self.ptr_ty())?;
                let len = self.core(n, 1, self.ptr_ty())?;
                self.check_len(n, len)?;
                let (es, ea) = self.entry_layout(key, value);
                if !n.blocks[0].nodes.is_empty() {
                    for i in 0..len as usize {
                        self.iter.push(IterFrame { elem: None, key: None, value: None, base: p + (i * es) as u64 });
                        let r = self.exec_block(&n.blocks[0]);
                        self.iter.pop();
                        r?;
                    }
                }
                self.mem.free(p, es * len as usize, ea, "GuestDeallocateMap");
            }
            Inst::GuestDeallocateVariant { blocks } => {
                let d = self.core(n, 0, CoreTy::I32)?;
                if d as usize >= *blocks {
                    return Err(MErr::new("discriminant-range", format!("GuestDeallocateVariant: discriminant {d} with {blocks} blocks")));
                }
                self.payload.push(None);
                let r = self.exec_block(&n.blocks[d as usize]);
                self.payload.pop();
                r?;
            }
            Inst::DropHandle { ty: _ } => {
                let v = self.iface(n, 0)?;
                let Val::Handle(h) = v else { return Err(Self::shape_err(n, &v)) };
                self.ev.dropped.push(h);
            }
            Inst::AsyncTaskReturn { name, params } => {
                let mut args = vec![];
                for (i, p) in params.iter().enumerate() {
                    let c = self.any_core(n, i)?;
                    if c.ty() != core_of(*p, w) {
                        return Err(MErr::new(
                            "call-arg-type",
                            format!("AsyncTaskReturn {name}: argument {i} is {:?} but params say {p:?} (= {:?} at width {w})", c.ty(), core_of(*p, w)),
                        ));
                    }
                    args.push(c);
                }
                self.ev.task_return += 1;
                self.host.task_return(&mut self.mem, name, params, &args).map_err(|e| MErr::new("callee", e))?;
            }
            Inst::Flush { amt } => {
                for i in 0..*amt {
                    let v = self.get(n.operands[i])?;
                    self.set(n.results[i], v);
                }
            }
        }
        Ok(())
    }

    fn check_len(&self, n: &Node, len: u64) -> R<()> {
        if len > (1 << 24) {
            return Err(MErr::new("length-range", format!("{:?}: implausible length {len}", n.inst)));
        }
        Ok(())
    }
}
