//! Linear memory of the abstract machine: a growable byte array at a non-zero
//! base, per-byte shadow state (poison / written / freed / red zone) and a
//! checked allocation ledger.
use cabi_ref::Memory;
use vkit::Rng;

#[derive(Clone, Copy, Debug, PartialEq, Eq)]
pub enum BlockKind {
    /// allocated through `realloc` (Malloc, List/String/MapLower with realloc):
    /// ownership passes to the receiver; must be freed by cleanup code
    Realloc,
    /// temporary the adapter itself owns (lowering without realloc)
    Temp,
    /// `Bindgen::return_pointer` area (static / stack; never freed)
    RetArea,
    /// allocated by the harness / reference side (scripted callee, inputs)
    Harness,
}

#[derive(Clone, Debug)]
pub struct AllocRec {
    pub addr: u64,
    pub size: usize,
    pub align: usize,
    pub kind: BlockKind,
    pub what: &'static str,
    pub freed: u32,
}

const POISON: u8 = 0;
const WRITTEN: u8 = 1;
const FREED: u8 = 2;
const REDZONE: u8 = 3;

#[derive(Clone, Debug)]
pub struct MemError {
    pub class: &'static str,
    pub detail: String,
}

impl MemError {
    fn new(class: &'static str, detail: String) -> MemError {
        MemError { class, detail }
    }
    pub fn text(&self) -> String {
        format!("{}: {}", self.class, self.detail)
    }
}

pub struct Mem {
    pub width: usize,
    pub base: u64,
    bytes: Vec<u8>,
    state: Vec<u8>,
    pub allocs: Vec<AllocRec>,
    /// when set, fresh blocks are pre-filled with random bytes that count as
    /// written (garbage in padding / unused payload bytes)
    pub garbage: Option<Rng>,
    /// kind given to blocks allocated through the `cabi_ref::Memory` trait
    pub trait_kind: BlockKind,
    /// bad frees and similar ledger events (class, detail)
    pub ledger_errors: Vec<MemError>,
    pub zero_size_allocs: u64,
    pub zero_size_frees: u64,
    pub bytes_read: u64,
    pub bytes_written: u64,
}

pub fn base_for(width: usize) -> u64 {
    if width == 4 {
        0x0001_0008
    } else {
        0x0000_0007_0001_0008
    }
}

/// pointer handed out for zero-sized allocations: aligned, non-null, outside
/// the array (an odd multiple of the alignment)
pub fn dangling(align: usize) -> u64 {
    3 * align as u64
}

impl Mem {
    pub fn new(width: usize) -> Mem {
        Mem {
            width,
            base: base_for(width),
            bytes: vec![],
            state: vec![],
            allocs: vec![],
            garbage: None,
            trait_kind: BlockKind::Harness,
            ledger_errors: vec![],
            zero_size_allocs: 0,
            zero_size_frees: 0,
            bytes_read: 0,
            bytes_written: 0,
        }
    }

    pub fn with_garbage(width: usize, rng: Rng) -> Mem {
        let mut m = Mem::new(width);
        m.garbage = Some(rng);
        m
    }

    /// Allocate `size` bytes aligned to exactly `align` (and, where possible,
    /// *not* to `2*align`: deliberately minimal rounding).
    pub fn alloc(&mut self, size: usize, align: usize, kind: BlockKind, what: &'static str) -> Result<u64, MemError> {
        if align == 0 || !align.is_power_of_two() {
            return Err(MemError::new("bad-align", format!("allocation with alignment {align}")));
        }
        if size == 0 {
            self.zero_size_allocs += 1;
            return Ok(dangling(align));
        }
        if size > (1 << 26) {
            return Err(MemError::new("alloc-too-big", format!("allocation of {size} bytes")));
        }
        // red zone of 8 bytes between blocks
        let start = self.base + self.bytes.len() as u64 + 8;
        let a = align as u64;
        let mut addr = (start + a - 1) / a * a;
        if align <= 8 && addr % (2 * a) == 0 {
            addr += a;
        }
        let off = (addr - self.base) as usize;
        let end = off + size;
        let old = self.bytes.len();
        self.bytes.resize(end, 0xA5);
        self.state.resize(end, POISON);
        for s in &mut self.state[old..off] {
            *s = REDZONE;
        }
        if let Some(rng) = self.garbage.as_mut() {
            for i in off..end {
                self.bytes[i] = rng.next() as u8;
                self.state[i] = WRITTEN;
            }
        }
        self.allocs.push(AllocRec { addr, size, align, kind, what, freed: 0 });
        Ok(addr)
    }

    fn range(&self, addr: u64, len: usize, what: &str) -> Result<usize, MemError> {
        if self.width == 4 && addr > u32::MAX as u64 {
            return Err(MemError::new("addr-width", format!("{what} at {addr:#x} does not fit 32-bit pointers")));
        }
        let off = addr.checked_sub(self.base).ok_or_else(|| MemError::new("oob", format!("{what} of {len} bytes at {addr:#x} below base")))? as usize;
        if off.checked_add(len).map(|e| e > self.bytes.len()).unwrap_or(true) {
            return Err(MemError::new("oob", format!("{what} of {len} bytes at {addr:#x} past the end")));
        }
        Ok(off)
    }

    /// Strict read: every byte must have been written and be live.
    pub fn read_checked(&mut self, addr: u64, len: usize) -> Result<Vec<u8>, MemError> {
        if len == 0 {
            return Ok(vec![]);
        }
        let off = self.range(addr, len, "read")?;
        for i in off..off + len {
            match self.state[i] {
                WRITTEN => {}
                POISON => {
                    return Err(MemError::new("read-uninit", format!("read of {len} bytes at {addr:#x}: byte +{} was never written", i - off)))
                }
                FREED => return Err(MemError::new("read-freed", format!("read of {len} bytes at {addr:#x}: byte +{} was freed", i - off))),
                _ => return Err(MemError::new("oob", format!("read of {len} bytes at {addr:#x} touches a red zone at +{}", i - off))),
            }
        }
        self.bytes_read += len as u64;
        Ok(self.bytes[off..off + len].to_vec())
    }

    fn read_ro(&self, addr: u64, len: usize) -> Result<Vec<u8>, MemError> {
        if len == 0 {
            return Ok(vec![]);
        }
        let off = self.range(addr, len, "read")?;
        for i in off..off + len {
            match self.state[i] {
                WRITTEN => {}
                POISON => {
                    return Err(MemError::new("read-uninit", format!("read of {len} bytes at {addr:#x}: byte +{} was never written", i - off)))
                }
                FREED => return Err(MemError::new("read-freed", format!("read of {len} bytes at {addr:#x}: byte +{} was freed", i - off))),
                _ => return Err(MemError::new("oob", format!("read of {len} bytes at {addr:#x} touches a red zone at +{}", i - off))),
            }
        }
        Ok(self.bytes[off..off + len].to_vec())
    }

    pub fn write_checked(&mut self, addr: u64, b: &[u8]) -> Result<(), MemError> {
        if b.is_empty() {
            return Ok(());
        }
        let off = self.range(addr, b.len(), "write")?;
        for i in off..off + b.len() {
            match self.state[i] {
                WRITTEN | POISON => {}
                FREED => return Err(MemError::new("write-freed", format!("write of {} bytes at {addr:#x}: byte +{} was freed", b.len(), i - off))),
                _ => return Err(MemError::new("oob", format!("write of {} bytes at {addr:#x} touches a red zone at +{}", b.len(), i - off))),
            }
        }
        self.bytes[off..off + b.len()].copy_from_slice(b);
        for s in &mut self.state[off..off + b.len()] {
            *s = WRITTEN;
        }
        self.bytes_written += b.len() as u64;
        Ok(())
    }

    /// Overwrite bytes that are still poison in `[addr, addr+len)` with garbage
    /// that counts as written (used for "memcpy of a native array" semantics).
    pub fn fill_unwritten(&mut self, addr: u64, len: usize, byte: u8) {
        if len == 0 {
            return;
        }
        if let Ok(off) = self.range(addr, len, "fill") {
            for i in off..off + len {
                if self.state[i] == POISON {
                    self.state[i] = WRITTEN;
                    self.bytes[i] = byte;
                }
            }
        }
    }

    /// `cabi_dealloc(ptr, size, align)`
    pub fn free(&mut self, addr: u64, size: usize, align: usize, what: &'static str) {
        if size == 0 {
            self.zero_size_frees += 1;
            return;
        }
        let Some(idx) = self.allocs.iter().position(|a| a.addr == addr) else {
            let inside = self.allocs.iter().find(|a| addr > a.addr && addr < a.addr + a.size as u64);
            self.ledger_errors.push(MemError::new(
                "free-unallocated",
                match inside {
                    Some(a) => format!("{what}: free({addr:#x}, {size}, {align}) points into the middle of block {:#x}+{} ({})", a.addr, a.size, a.what),
                    None => format!("{what}: free({addr:#x}, {size}, {align}) of an address that was never allocated"),
                },
            ));
            return;
        };
        let a = self.allocs[idx].clone();
        if a.kind != BlockKind::Realloc {
            self.ledger_errors.push(MemError::new(
                "free-not-owned",
                format!("{what}: free({addr:#x}, {size}, {align}) of a {:?} block ({}) that cleanup code does not own", a.kind, a.what),
            ));
            return;
        }
        if a.freed > 0 {
            self.allocs[idx].freed += 1;
            self.ledger_errors.push(MemError::new("double-free", format!("{what}: block {addr:#x}+{} ({}) freed again", a.size, a.what)));
            return;
        }
        if a.size != size {
            self.ledger_errors.push(MemError::new(
                "free-wrong-size",
                format!("{what}: block {addr:#x} ({}) allocated with size {} align {} but freed with size {size} align {align}", a.what, a.size, a.align),
            ));
        } else if a.align != align {
            self.ledger_errors.push(MemError::new(
                "free-wrong-align",
                format!("{what}: block {addr:#x} ({}) allocated with size {} align {} but freed with size {size} align {align}", a.what, a.size, a.align),
            ));
        }
        self.allocs[idx].freed += 1;
        let off = (a.addr - self.base) as usize;
        for s in &mut self.state[off..off + a.size] {
            *s = FREED;
        }
    }

    pub fn live(&self, kind: BlockKind) -> Vec<&AllocRec> {
        self.allocs.iter().filter(|a| a.kind == kind && a.freed == 0).collect()
    }

    pub fn count(&self, kind: BlockKind) -> usize {
        self.allocs.iter().filter(|a| a.kind == kind).count()
    }

    /// snapshot of a region for reporting: hex with `??` for poison
    pub fn hexdump(&self, addr: u64, len: usize) -> String {
        let mut s = String::new();
        let Ok(off) = self.range(addr, len, "dump") else { return "<out of range>".into() };
        for i in off..off + len {
            match self.state[i] {
                WRITTEN => s.push_str(&format!("{:02x}", self.bytes[i])),
                POISON => s.push_str("??"),
                FREED => s.push_str("xx"),
                _ => s.push_str("--"),
            }
        }
        s
    }

    /// raw byte + "was written" flag (no checks), for structural comparison
    pub fn peek(&self, addr: u64) -> Option<(u8, bool)> {
        let off = addr.checked_sub(self.base)? as usize;
        if off >= self.bytes.len() {
            return None;
        }
        Some((self.bytes[off], self.state[off] == WRITTEN))
    }

    pub fn size(&self) -> usize {
        self.bytes.len()
    }
}

impl Memory for Mem {
    fn read(&self, addr: u64, len: usize) -> Result<Vec<u8>, String> {
        self.read_ro(addr, len).map_err(|e| e.text())
    }
    fn write(&mut self, addr: u64, bytes: &[u8]) -> Result<(), String> {
        self.write_checked(addr, bytes).map_err(|e| e.text())
    }
    fn alloc(&mut self, size: usize, align: usize) -> Result<u64, String> {
        let kind = self.trait_kind;
        Mem::alloc(self, size, align, kind, "reference").map_err(|e| e.text())
    }
}
