//! Structural comparison of encodings (machine vs reference), description of
//! flat slots, production of spec-valid non-canonical encodings, value text
//! parser (for replay) and the layout attribution check.
use crate::machine::{eval_align, eval_size, Ctx};
use crate::mem::Mem;
use cabi_ref::{Abi, CoreTy, CoreVal, Shape, Val};
use vkit::Rng;
use wit_bindgen_core::wit_parser::{Type, TypeDefKind};

#[derive(Clone, Copy, Debug, PartialEq, Eq)]
pub enum Slot {
    /// `sig` low bits are significant for lifting; bits above may be anything
    /// where the spec says so (narrow ints, flags tail, i32 payload in i64 slot)
    Val { sig: u32, strict: bool },
    Ptr,
    Len,
    /// slot of an inactive arm: lifting ignores it
    Unused,
}

fn width_of(t: CoreTy) -> u32 {
    match t {
        CoreTy::I32 | CoreTy::F32 => 32,
        _ => 64,
    }
}

/// One descriptor per flat slot of `ty` for value `val` (mirrors the spec's
/// lower_flat).
pub fn slot_kinds(abi: &Abi, ty: &Type, val: &Val) -> Result<Vec<Slot>, String> {
    let mut out = vec![];
    slots_into(abi, ty, val, &mut out)?;
    Ok(out)
}

fn slots_into(abi: &Abi, ty: &Type, val: &Val, out: &mut Vec<Slot>) -> Result<(), String> {
    match (abi.shape(ty), val) {
        // bool: the spec accepts any non-zero value but generators may assume 0/1
        (Shape::Bool, _) => out.push(Slot::Val { sig: 32, strict: true }),
        (Shape::U8 | Shape::S8, _) => out.push(Slot::Val { sig: 8, strict: false }),
        (Shape::U16 | Shape::S16, _) => out.push(Slot::Val { sig: 16, strict: false }),
        (Shape::U32 | Shape::S32 | Shape::F32, _) => out.push(Slot::Val { sig: 32, strict: false }),
        (Shape::Char | Shape::Handle(_), _) => out.push(Slot::Val { sig: 32, strict: true }),
        (Shape::U64 | Shape::S64 | Shape::F64, _) => out.push(Slot::Val { sig: 64, strict: false }),
        (Shape::String | Shape::List(_) | Shape::Map(..), _) => {
            out.push(Slot::Ptr);
            out.push(Slot::Len);
        }
        (Shape::FixedList(t, _), Val::List(es)) => {
            for e in es {
                slots_into(abi, &t, e, out)?;
            }
        }
        (Shape::Record(fs), Val::Record(vs)) => {
            for (f, v) in fs.iter().zip(vs) {
                slots_into(abi, f, v, out)?;
            }
        }
        (Shape::Variant(cases, _), Val::Variant(case, payload)) => {
            let full = abi.flatten(ty);
            out.push(Slot::Val { sig: 32, strict: true });
            let mut ps = vec![];
            let mut have = vec![];
            if let (Some(t), Some(p)) = (&cases[*case as usize], payload) {
                slots_into(abi, t, p, &mut ps)?;
                have = abi.flatten(t);
            }
            for (i, want) in full[1..].iter().enumerate() {
                if i < ps.len() {
                    out.push(match ps[i] {
                        Slot::Val { sig, strict } => {
                            // i32/f32 payload in an i64 slot: lifting wraps, the upper half is ignored
                            let sig = sig.min(width_of(have[i]));
                            let strict = strict && width_of(have[i]) == width_of(*want);
                            Slot::Val { sig, strict }
                        }
                        other => other,
                    });
                } else {
                    out.push(Slot::Unused);
                }
            }
        }
        (Shape::Flags(n), _) => {
            let words = if n == 0 { 0 } else { (n + 31) / 32 };
            for w in 0..words {
                let sig = (n - 32 * w).min(32) as u32;
                out.push(Slot::Val { sig, strict: false });
            }
        }
        (_, v) => return Err(format!("slot_kinds: value {} does not match type", v.text())),
    }
    Ok(())
}

/// Turn a canonical flat encoding into another spec-valid one that must lift to
/// the same value.
pub fn mutate_flat(slots: &[Slot], flat: &mut [CoreVal], rng: &mut Rng) -> usize {
    let mut changed = 0;
    for (s, v) in slots.iter().zip(flat.iter_mut()) {
        let w = width_of(v.ty());
        match s {
            Slot::Val { sig, strict: false } if *sig < w => {
                let keep = if *sig == 64 { u64::MAX } else { (1u64 << sig) - 1 };
                let full = if w == 64 { u64::MAX } else { 0xffff_ffff };
                let g = rng.next() & full & !keep;
                let g = match rng.below(4) {
                    0 => full & !keep,
                    _ => g,
                };
                *v = CoreVal::from_bits(v.ty(), (v.bits() & keep) | g);
                changed += 1;
            }
            Slot::Unused => {
                let full = if w == 64 { u64::MAX } else { 0xffff_ffff };
                *v = CoreVal::from_bits(v.ty(), rng.next() & full);
                changed += 1;
            }
            _ => {}
        }
    }
    changed
}

#[derive(Debug, Clone)]
pub struct Diff {
    /// stable class for signatures
    pub class: String,
    pub detail: String,
}

fn diff(class: &str, detail: String) -> Diff {
    Diff { class: class.to_string(), detail }
}

fn rd(m: &Mem, addr: u64, len: usize, who: &str) -> Result<Vec<u8>, Diff> {
    let mut out = vec![];
    for i in 0..len {
        match m.peek(addr + i as u64) {
            Some((b, true)) => out.push(b),
            Some((_, false)) => return Err(diff("byte-never-written", format!("{who}: non-padding byte at {:#x} (+{i} of {len}) was never written", addr))),
            None => return Err(diff("out-of-bounds", format!("{who}: {len} bytes at {addr:#x} are outside memory"))),
        }
    }
    Ok(out)
}

fn rd_uint(m: &Mem, addr: u64, len: usize, who: &str) -> Result<u64, Diff> {
    let b = rd(m, addr, len, who)?;
    let mut a = [0u8; 8];
    a[..len].copy_from_slice(&b);
    Ok(u64::from_le_bytes(a))
}

fn leaf_name(abi: &Abi, ty: &Type) -> &'static str {
    match abi.shape(ty) {
        Shape::Bool => "bool",
        Shape::U8 | Shape::S8 => "int8",
        Shape::U16 | Shape::S16 => "int16",
        Shape::U32 | Shape::S32 => "int32",
        Shape::U64 | Shape::S64 => "int64",
        Shape::F32 => "f32",
        Shape::F64 => "f64",
        Shape::Char => "char",
        Shape::Handle(_) => "handle",
        Shape::Flags(_) => "flags",
        _ => "other",
    }
}

/// Compare the encoding of `val: ty` at `a@addr_a` (machine) with the one at
/// `b@addr_b` (reference): every non-padding byte equal, pointers followed.
pub fn cmp_mem(abi: &Abi, ty: &Type, val: &Val, a: &Mem, addr_a: u64, b: &Mem, addr_b: u64) -> Result<u64, Diff> {
    let mut n = 0u64;
    cmp_mem_into(abi, ty, val, a, addr_a, b, addr_b, &mut n)?;
    Ok(n)
}

fn cmp_ptr_len(
    abi: &Abi,
    a: &Mem,
    addr_a: u64,
    b: &Mem,
    addr_b: u64,
    what: &str,
    expect_len: usize,
    align: usize,
) -> Result<(u64, u64), Diff> {
    let p = abi.ptr;
    let pa = rd_uint(a, addr_a, p, "machine")?;
    let la = rd_uint(a, addr_a + p as u64, p, "machine")?;
    let pb = rd_uint(b, addr_b, p, "reference")?;
    let lb = rd_uint(b, addr_b + p as u64, p, "reference")?;
    if la != lb || la != expect_len as u64 {
        return Err(diff(&format!("{what}-length"), format!("{what} length in memory: machine {la}, reference {lb}, value has {expect_len}")));
    }
    if pa % align as u64 != 0 {
        return Err(diff(&format!("{what}-pointer-alignment"), format!("{what} pointer {pa:#x} not aligned to {align}")));
    }
    Ok((pa, pb))
}

fn cmp_mem_into(abi: &Abi, ty: &Type, val: &Val, a: &Mem, addr_a: u64, b: &Mem, addr_b: u64, n: &mut u64) -> Result<(), Diff> {
    match (abi.shape(ty), val) {
        (Shape::String, Val::Str(s)) => {
            let (bytes, units, al) = abi.encode_string(s);
            let (pa, pb) = cmp_ptr_len(abi, a, addr_a, b, addr_b, "string", units, al)?;
            let da = rd(a, pa, bytes.len(), "machine")?;
            let db = rd(b, pb, bytes.len(), "reference")?;
            if da != db {
                return Err(diff("string-bytes", format!("string data differs: machine {da:02x?} reference {db:02x?}")));
            }
            *n += bytes.len() as u64 + 2 * abi.ptr as u64;
        }
        (Shape::List(et), Val::List(es)) => {
            let (pa, pb) = cmp_ptr_len(abi, a, addr_a, b, addr_b, "list", es.len(), abi.alignment(&et))?;
            let sz = abi.elem_size(&et) as u64;
            for (i, e) in es.iter().enumerate() {
                cmp_mem_into(abi, &et, e, a, pa + i as u64 * sz, b, pb + i as u64 * sz, n)?;
            }
            *n += 2 * abi.ptr as u64;
        }
        (Shape::Map(k, v), Val::Map(es)) => {
            let ka = abi.alignment(&k);
            let va = abi.alignment(&v);
            let voff = (abi.elem_size(&k) + va - 1) / va * va;
            let al = ka.max(va);
            let sz = ((voff + abi.elem_size(&v) + al - 1) / al * al) as u64;
            let (pa, pb) = cmp_ptr_len(abi, a, addr_a, b, addr_b, "map", es.len(), al)?;
            for (i, (kv, vv)) in es.iter().enumerate() {
                cmp_mem_into(abi, &k, kv, a, pa + i as u64 * sz, b, pb + i as u64 * sz, n)?;
                cmp_mem_into(abi, &v, vv, a, pa + i as u64 * sz + voff as u64, b, pb + i as u64 * sz + voff as u64, n)?;
            }
            *n += 2 * abi.ptr as u64;
        }
        (Shape::FixedList(et, _), Val::List(es)) => {
            let sz = abi.elem_size(&et) as u64;
            for (i, e) in es.iter().enumerate() {
                cmp_mem_into(abi, &et, e, a, addr_a + i as u64 * sz, b, addr_b + i as u64 * sz, n)?;
            }
        }
        (Shape::Record(fs), Val::Record(vs)) => {
            let offs = abi.field_offsets(&fs);
            for ((f, v), o) in fs.iter().zip(vs).zip(offs) {
                cmp_mem_into(abi, f, v, a, addr_a + o as u64, b, addr_b + o as u64, n)?;
            }
        }
        (Shape::Variant(cases, _), Val::Variant(case, payload)) => {
            let d = Abi::discriminant_size(cases.len());
            let da = rd(a, addr_a, d, "machine")?;
            let db = rd(b, addr_b, d, "reference")?;
            if da != db {
                return Err(diff("discriminant-bytes", format!("discriminant bytes differ: machine {da:02x?} reference {db:02x?} (case {case})")));
            }
            *n += d as u64;
            if let (Some(t), Some(p)) = (&cases[*case as usize], payload) {
                let po = abi.payload_offset(&cases) as u64;
                cmp_mem_into(abi, t, p, a, addr_a + po, b, addr_b + po, n)?;
            }
        }
        (_, _) => {
            // leaf: all bytes of the element are significant
            let sz = abi.elem_size(ty);
            let da = rd(a, addr_a, sz, "machine")?;
            let db = rd(b, addr_b, sz, "reference")?;
            if da != db {
                return Err(diff(
                    &format!("leaf-bytes:{}", leaf_name(abi, ty)),
                    format!("bytes of {} differ: machine {da:02x?} reference {db:02x?} (value {})", leaf_name(abi, ty), val.text()),
                ));
            }
            *n += sz as u64;
        }
    }
    Ok(())
}

/// Compare two flat encodings of `val: ty` (machine vs reference), following
/// pointer slots into the respective memories.
pub fn cmp_flat(abi: &Abi, ty: &Type, val: &Val, fa: &[CoreVal], a: &Mem, fb: &[CoreVal], b: &Mem) -> Result<u64, Diff> {
    let want = abi.flatten(ty);
    let got: Vec<CoreTy> = fa.iter().map(|v| v.ty()).collect();
    if got != want {
        return Err(diff("flat-types", format!("flat types: machine {got:?}, reference {want:?}")));
    }
    if fb.len() != fa.len() {
        return Err(diff("flat-types", format!("flat count: machine {}, reference {}", fa.len(), fb.len())));
    }
    let mut ia = fa.iter();
    let mut ib = fb.iter();
    let mut n = 0;
    cmp_flat_into(abi, ty, val, &mut ia, a, &mut ib, b, &mut n)?;
    Ok(n)
}

fn cmp_flat_into(
    abi: &Abi,
    ty: &Type,
    val: &Val,
    ia: &mut std::slice::Iter<CoreVal>,
    a: &Mem,
    ib: &mut std::slice::Iter<CoreVal>,
    b: &Mem,
    n: &mut u64,
) -> Result<(), Diff> {
    let mut ptr_len = |ia: &mut std::slice::Iter<CoreVal>, ib: &mut std::slice::Iter<CoreVal>, what: &str, len: usize, align: usize| -> Result<(u64, u64), Diff> {
        let (pa, la) = (ia.next().unwrap(), ia.next().unwrap());
        let (pb, lb) = (ib.next().unwrap(), ib.next().unwrap());
        if la != lb || la.bits() != len as u64 {
            return Err(diff(&format!("{what}-length"), format!("flat {what} length: machine {la:?}, reference {lb:?}, value has {len}")));
        }
        if pa.ty() != pb.ty() {
            return Err(diff("flat-types", format!("pointer slot type: machine {:?} reference {:?}", pa.ty(), pb.ty())));
        }
        if pa.bits() % align as u64 != 0 {
            return Err(diff(&format!("{what}-pointer-alignment"), format!("{what} pointer {:#x} not aligned to {align}", pa.bits())));
        }
        Ok((pa.bits(), pb.bits()))
    };
    match (abi.shape(ty), val) {
        (Shape::String, Val::Str(s)) => {
            let (bytes, units, al) = abi.encode_string(s);
            let (pa, pb) = ptr_len(ia, ib, "string", units, al)?;
            let da = rd(a, pa, bytes.len(), "machine")?;
            let db = rd(b, pb, bytes.len(), "reference")?;
            if da != db {
                return Err(diff("string-bytes", format!("string data differs: machine {da:02x?} reference {db:02x?}")));
            }
            *n += bytes.len() as u64;
        }
        (Shape::List(et), Val::List(es)) => {
            let (pa, pb) = ptr_len(ia, ib, "list", es.len(), abi.alignment(&et))?;
            let sz = abi.elem_size(&et) as u64;
            for (i, e) in es.iter().enumerate() {
                cmp_mem_into(abi, &et, e, a, pa + i as u64 * sz, b, pb + i as u64 * sz, n)?;
            }
        }
        (Shape::Map(k, v), Val::Map(es)) => {
            let ka = abi.alignment(&k);
            let va = abi.alignment(&v);
            let voff = (abi.elem_size(&k) + va - 1) / va * va;
            let al = ka.max(va);
            let sz = ((voff + abi.elem_size(&v) + al - 1) / al * al) as u64;
            let (pa, pb) = ptr_len(ia, ib, "map", es.len(), al)?;
            for (i, (kv, vv)) in es.iter().enumerate() {
                cmp_mem_into(abi, &k, kv, a, pa + i as u64 * sz, b, pb + i as u64 * sz, n)?;
                cmp_mem_into(abi, &v, vv, a, pa + i as u64 * sz + voff as u64, b, pb + i as u64 * sz + voff as u64, n)?;
            }
        }
        (Shape::FixedList(et, _), Val::List(es)) => {
            for e in es {
                cmp_flat_into(abi, &et, e, ia, a, ib, b, n)?;
            }
        }
        (Shape::Record(fs), Val::Record(vs)) => {
            for (f, v) in fs.iter().zip(vs) {
                cmp_flat_into(abi, f, v, ia, a, ib, b, n)?;
            }
        }
        (Shape::Variant(cases, _), Val::Variant(case, payload)) => {
            let full = abi.flatten(ty);
            let (da, db) = (ia.next().unwrap(), ib.next().unwrap());
            if da != db {
                return Err(diff("flat-discriminant", format!("flat discriminant: machine {da:?} reference {db:?}")));
            }
            *n += 1;
            let sa: Vec<CoreVal> = (0..full.len() - 1).map(|_| *ia.next().unwrap()).collect();
            let sb: Vec<CoreVal> = (0..full.len() - 1).map(|_| *ib.next().unwrap()).collect();
            let mut used = 0;
            if let (Some(t), Some(p)) = (&cases[*case as usize], payload) {
                let have = abi.flatten(t);
                used = have.len();
                // pointer-free payloads compare slot by slot in the joined type;
                // payloads with pointers are un-coerced and compared structurally
                let ca: Vec<CoreVal> = have.iter().zip(&sa).map(|(w, s)| Abi::coerce_from_slot(*s, *w)).collect();
                let cb: Vec<CoreVal> = have.iter().zip(&sb).map(|(w, s)| Abi::coerce_from_slot(*s, *w)).collect();
                // the joined representation itself must agree wherever it is not a pointer
                let slots = slot_kinds(abi, t, p).map_err(|e| diff("harness", e))?;
                for (i, s) in slots.iter().enumerate() {
                    if !matches!(s, Slot::Ptr) && sa[i] != sb[i] {
                        return Err(diff(
                            "variant-slot",
                            format!("case {case} joined slot {i} ({:?} as {:?}): machine {:?} reference {:?}", have[i], full[1 + i], sa[i], sb[i]),
                        ));
                    }
                }
                cmp_flat_into(abi, t, p, &mut ca.iter(), a, &mut cb.iter(), b, n)?;
            }
            for i in used..sa.len() {
                if sa[i] != sb[i] {
                    return Err(diff("variant-zero-pad", format!("case {case} unused slot {i}: machine {:?}, reference {:?} (zero)", sa[i], sb[i])));
                }
            }
        }
        (Shape::Flags(nf), _) => {
            let words = if nf == 0 { 0 } else { (nf + 31) / 32 };
            for w in 0..words {
                let (x, y) = (ia.next().unwrap(), ib.next().unwrap());
                if x != y {
                    return Err(diff("flat-flags", format!("flags word {w}: machine {x:?} reference {y:?}")));
                }
                *n += 1;
            }
        }
        (_, _) => {
            let (x, y) = (ia.next().unwrap(), ib.next().unwrap());
            if x != y {
                return Err(diff(
                    &format!("flat-leaf:{}", leaf_name(abi, ty)),
                    format!("flat {}: machine {x:?} reference {y:?} (value {})", leaf_name(abi, ty), val.text()),
                ));
            }
            *n += 1;
        }
    }
    Ok(())
}

/// Does the type (transitively) contain `flags` with 0 or more than 32 members?
/// Those are accepted by wit-parser but not encodable as a component type.
pub fn outside_encodable_domain(abi: &Abi, ty: &Type) -> bool {
    match abi.shape(ty) {
        Shape::Flags(n) => n == 0 || n > 32,
        Shape::List(t) | Shape::FixedList(t, _) => outside_encodable_domain(abi, &t),
        Shape::Map(k, v) => outside_encodable_domain(abi, &k) || outside_encodable_domain(abi, &v),
        Shape::Record(fs) => fs.iter().any(|f| outside_encodable_domain(abi, f)),
        Shape::Variant(cs, _) => cs.iter().flatten().any(|t| outside_encodable_domain(abi, t)),
        _ => false,
    }
}

pub fn contains_list_like(abi: &Abi, ty: &Type) -> bool {
    match abi.shape(ty) {
        Shape::List(_) => true,
        Shape::FixedList(t, _) => contains_list_like(abi, &t),
        Shape::Map(k, v) => contains_list_like(abi, &k) || contains_list_like(abi, &v),
        Shape::Record(fs) => fs.iter().any(|f| contains_list_like(abi, f)),
        Shape::Variant(cs, _) => cs.iter().flatten().any(|t| contains_list_like(abi, t)),
        _ => false,
    }
}

/// All list element types reachable from `ty` (to decide whether a canonical
/// list policy changes the instruction stream).
pub fn list_elements(abi: &Abi, ty: &Type, out: &mut Vec<Type>) {
    match abi.shape(ty) {
        Shape::List(t) => {
            out.push(t);
            list_elements(abi, &t, out)
        }
        Shape::FixedList(t, _) => list_elements(abi, &t, out),
        Shape::Map(k, v) => {
            list_elements(abi, &k, out);
            list_elements(abi, &v, out)
        }
        Shape::Record(fs) => fs.iter().for_each(|f| list_elements(abi, f, out)),
        Shape::Variant(cs, _) => cs.iter().flatten().for_each(|t| list_elements(abi, t, out)),
        _ => {}
    }
}

/// Attribution: does the reference layout agree with wit-parser's `SizeAlign`
/// for `ty` and everything nested in it?  Returns the first disagreement.
pub fn layout_disagreement(ctx: &Ctx, abi: &Abi, ty: &Type) -> Option<String> {
    let w = abi.ptr;
    let (rs, ra) = (abi.elem_size(ty), abi.alignment(ty));
    let (ps, pa) = (eval_size(ctx.sizes.size(ty), w), eval_align(ctx.sizes.align(ty), w));
    if (rs, ra) != (ps, pa) {
        return Some(format!("{}: cabi-ref size/align {rs}/{ra}, wit-parser SizeAlign {ps}/{pa} (width {w})", abi.shape_key(ty)));
    }
    match abi.shape(ty) {
        Shape::List(t) | Shape::FixedList(t, _) => layout_disagreement(ctx, abi, &t),
        Shape::Map(k, v) => {
            if let Some(d) = layout_disagreement(ctx, abi, &k).or_else(|| layout_disagreement(ctx, abi, &v)) {
                return Some(d);
            }
            let e = ctx.sizes.record([&k, &v]);
            let offs = ctx.sizes.field_offsets([&k, &v]);
            let ka = abi.alignment(&k);
            let va = abi.alignment(&v);
            let voff = (abi.elem_size(&k) + va - 1) / va * va;
            let al = ka.max(va);
            let sz = (voff + abi.elem_size(&v) + al - 1) / al * al;
            if (eval_size(e.size, w), eval_align(e.align, w), eval_size(offs[1].0, w)) != (sz, al, voff) {
                return Some(format!("map entry layout of {} differs between cabi-ref and SizeAlign", abi.shape_key(ty)));
            }
            None
        }
        Shape::Record(fs) => {
            let offs: Vec<usize> = ctx.sizes.field_offsets(fs.iter()).iter().map(|(o, _)| eval_size(*o, w)).collect();
            if offs != abi.field_offsets(&fs) {
                return Some(format!("{}: field offsets cabi-ref {:?}, SizeAlign {offs:?}", abi.shape_key(ty), abi.field_offsets(&fs)));
            }
            fs.iter().find_map(|f| layout_disagreement(ctx, abi, f))
        }
        Shape::Variant(cs, _) => {
            let tag = match Abi::discriminant_size(cs.len()) {
                1 => wit_bindgen_core::wit_parser::Int::U8,
                2 => wit_bindgen_core::wit_parser::Int::U16,
                _ => wit_bindgen_core::wit_parser::Int::U32,
            };
            let po = eval_size(ctx.sizes.payload_offset(tag, cs.iter().map(|c| c.as_ref())), w);
            if po != abi.payload_offset(&cs) {
                return Some(format!("{}: payload offset cabi-ref {}, SizeAlign {po}", abi.shape_key(ty), abi.payload_offset(&cs)));
            }
            cs.iter().flatten().find_map(|t| layout_disagreement(ctx, abi, t))
        }
        _ => None,
    }
}

/// handles contained in a value, by ownership kind
pub fn collect_handles(abi: &Abi, ty: &Type, val: &Val, owned: &mut Vec<u32>, borrowed: &mut Vec<u32>) {
    use cabi_ref::HandleKind;
    match (abi.shape(ty), val) {
        (Shape::Handle(k), Val::Handle(h)) => match k {
            HandleKind::Own | HandleKind::Future | HandleKind::Stream => owned.push(*h),
            HandleKind::Borrow | HandleKind::ErrorContext => borrowed.push(*h),
        },
        (Shape::List(t), Val::List(es)) | (Shape::FixedList(t, _), Val::List(es)) => es.iter().for_each(|e| collect_handles(abi, &t, e, owned, borrowed)),
        (Shape::Map(k, v), Val::Map(es)) => es.iter().for_each(|(a, b)| {
            collect_handles(abi, &k, a, owned, borrowed);
            collect_handles(abi, &v, b, owned, borrowed);
        }),
        (Shape::Record(fs), Val::Record(vs)) => fs.iter().zip(vs).for_each(|(f, v)| collect_handles(abi, f, v, owned, borrowed)),
        (Shape::Variant(cs, _), Val::Variant(c, Some(p))) => {
            if let Some(t) = &cs[*c as usize] {
                collect_handles(abi, t, p, owned, borrowed)
            }
        }
        _ => {}
    }
}

/// Is the type a value type the ABI can carry (no bare resource / unknown)?
pub fn is_value_type(resolve: &wit_bindgen_core::wit_parser::Resolve, ty: &Type) -> bool {
    match ty {
        Type::Id(id) => match &resolve.types[*id].kind {
            TypeDefKind::Resource | TypeDefKind::Unknown => false,
            TypeDefKind::Type(t) => is_value_type(resolve, t),
            _ => true,
        },
        _ => true,
    }
}

// ------------------------------------------------------------- value parser

pub fn parse_val(s: &str) -> Result<Val, String> {
    let b = s.as_bytes();
    let mut i = 0;
    let v = pv(b, &mut i, None)?;
    if i != b.len() {
        return Err(format!("trailing text at {i}"));
    }
    Ok(v)
}

/// The text form is not self-describing for integer widths, so parsing is
/// type-directed when a type is known (`parse_val_typed`); untyped parsing
/// yields `S64`/`U64` for bare integers.
pub fn parse_val_typed(abi: &Abi, ty: &Type, s: &str) -> Result<Val, String> {
    let b = s.as_bytes();
    let mut i = 0;
    let v = pvt(abi, ty, b, &mut i)?;
    if i != b.len() {
        return Err(format!("trailing text at {i}"));
    }
    Ok(v)
}

fn eat(b: &[u8], i: &mut usize, c: u8) -> Result<(), String> {
    if b.get(*i) == Some(&c) {
        *i += 1;
        Ok(())
    } else {
        Err(format!("expected '{}' at {}", c as char, *i))
    }
}

fn num(b: &[u8], i: &mut usize) -> Result<i128, String> {
    let st = *i;
    if b.get(*i) == Some(&b'-') {
        *i += 1;
    }
    while *i < b.len() && b[*i].is_ascii_digit() {
        *i += 1;
    }
    std::str::from_utf8(&b[st..*i]).unwrap().parse::<i128>().map_err(|e| format!("number at {st}: {e}"))
}

fn hex(b: &[u8], i: &mut usize) -> Result<u64, String> {
    let st = *i;
    while *i < b.len() && b[*i].is_ascii_hexdigit() {
        *i += 1;
    }
    u64::from_str_radix(std::str::from_utf8(&b[st..*i]).unwrap(), 16).map_err(|e| format!("hex at {st}: {e}"))
}

fn pv(b: &[u8], i: &mut usize, _hint: Option<()>) -> Result<Val, String> {
    match b.get(*i).copied() {
        Some(b'T') => {
            *i += 1;
            Ok(Val::Bool(true))
        }
        Some(b'F') => {
            *i += 1;
            Ok(Val::Bool(false))
        }
        Some(b'f') => {
            *i += 1;
            Ok(Val::F32(hex(b, i)? as u32))
        }
        Some(b'd') => {
            *i += 1;
            Ok(Val::F64(hex(b, i)?))
        }
        Some(b'c') => {
            *i += 1;
            Ok(Val::Char(hex(b, i)? as u32))
        }
        Some(b'h') => {
            *i += 1;
            Ok(Val::Handle(num(b, i)? as u32))
        }
        Some(b'"') => {
            *i += 1;
            let mut bytes = vec![];
            while b.get(*i) != Some(&b'"') {
                let h = std::str::from_utf8(b.get(*i..*i + 2).ok_or("short string")?).unwrap();
                bytes.push(u8::from_str_radix(h, 16).map_err(|e| e.to_string())?);
                *i += 2;
            }
            *i += 1;
            Ok(Val::Str(String::from_utf8(bytes).map_err(|e| e.to_string())?))
        }
        Some(b'b') => {
            *i += 1;
            let mut bits = vec![];
            while let Some(c) = b.get(*i) {
                match c {
                    b'0' => bits.push(false),
                    b'1' => bits.push(true),
                    _ => break,
                }
                *i += 1;
            }
            eat(b, i, b';')?;
            Ok(Val::Flags(bits))
        }
        Some(c) if c == b'-' || c.is_ascii_digit() => {
            let n = num(b, i)?;
            Ok(if n < 0 { Val::S64(n as i64) } else { Val::U64(n as u64) })
        }
        other => Err(format!("untyped parse cannot handle {:?} at {}", other.map(|c| c as char), *i)),
    }
}

fn pvt(abi: &Abi, ty: &Type, b: &[u8], i: &mut usize) -> Result<Val, String> {
    Ok(match abi.shape(ty) {
        Shape::U8 => Val::U8(num(b, i)? as u8),
        Shape::U16 => Val::U16(num(b, i)? as u16),
        Shape::U32 => Val::U32(num(b, i)? as u32),
        Shape::U64 => Val::U64(num(b, i)? as u64),
        Shape::S8 => Val::S8(num(b, i)? as i8),
        Shape::S16 => Val::S16(num(b, i)? as i16),
        Shape::S32 => Val::S32(num(b, i)? as i32),
        Shape::S64 => Val::S64(num(b, i)? as i64),
        Shape::Bool | Shape::F32 | Shape::F64 | Shape::Char | Shape::String | Shape::Handle(_) | Shape::Flags(_) => pv(b, i, None)?,
        Shape::List(t) | Shape::FixedList(t, _) => {
            eat(b, i, b'[')?;
            let mut out = vec![];
            while b.get(*i) != Some(&b']') {
                if !out.is_empty() {
                    eat(b, i, b',')?;
                }
                out.push(pvt(abi, &t, b, i)?);
            }
            *i += 1;
            Val::List(out)
        }
        Shape::Map(k, v) => {
            eat(b, i, b'{')?;
            let mut out = vec![];
            while b.get(*i) != Some(&b'}') {
                if !out.is_empty() {
                    eat(b, i, b',')?;
                }
                let kk = pvt(abi, &k, b, i)?;
                eat(b, i, b':')?;
                let vv = pvt(abi, &v, b, i)?;
                out.push((kk, vv));
            }
            *i += 1;
            Val::Map(out)
        }
        Shape::Record(fs) => {
            eat(b, i, b'(')?;
            let mut out = vec![];
            for (n, f) in fs.iter().enumerate() {
                if n > 0 {
                    eat(b, i, b',')?;
                }
                out.push(pvt(abi, f, b, i)?);
            }
            eat(b, i, b')')?;
            Val::Record(out)
        }
        Shape::Variant(cs, _) => {
            eat(b, i, b'#')?;
            let c = num(b, i)? as u32;
            let t = cs.get(c as usize).ok_or("case out of range")?;
            if b.get(*i) == Some(&b'<') {
                *i += 1;
                let t = t.as_ref().ok_or("payload for payload-less case")?;
                let p = pvt(abi, t, b, i)?;
                eat(b, i, b'>')?;
                Val::Variant(c, Some(Box::new(p)))
            } else {
                Val::Variant(c, None)
            }
        }
        Shape::_P(_) => unreachable!(),
    })
}
