//! cguest: C10/C11 harness pieces shared by the echo-machine generator (bin
//! `cguest`) and the host staticlib (`cguest-host`).
pub mod chdr;
pub mod emit;
pub mod plan;
pub mod tokens;
pub mod worlds;
