//! `cguest worlds` — pick the WIT worlds of a run;  `cguest gen` — learn the
//! generated C of one world and emit its echo machine.
use cguest::{chdr, emit, plan, worlds};
use serde_json::json;
use std::path::Path;

fn main() {
    let args = vkit::Args::parse();
    let cmd = args.free.first().cloned().unwrap_or_default();
    match cmd.as_str() {
        "worlds" => cmd_worlds(&args),
        "gen" => cmd_gen(&args),
        _ => {
            eprintln!("usage: cguest worlds|gen ...");
            std::process::exit(2);
        }
    }
}

fn cmd_worlds(args: &vkit::Args) {
    let out = args.str("out", ".");
    let count = args.u64("count", 16) as usize;
    let resources = args.u64("resources", 0) != 0;
    let ws = worlds::select(args.seed(), count, resources);
    let mut list = vec![];
    for (i, w) in ws.iter().enumerate() {
        let d = format!("{out}/w{i:03}");
        std::fs::create_dir_all(&d).unwrap();
        std::fs::write(format!("{d}/world.wit"), &w.wit).unwrap();
        list.push(json!({"dir": d, "world": w.world, "opts": w.opts.label(), "origin": w.origin, "tags": w.tags, "index": i}));
    }
    std::fs::write(format!("{out}/worlds.json"), serde_json::to_string_pretty(&json!({ "worlds": list })).unwrap()).unwrap();
}

/// exit codes: 0 ok; 3 = world unusable (reason in gen.json)
fn cmd_gen(args: &vkit::Args) {
    let wit = std::fs::read_to_string(args.str("wit", "world.wit")).expect("read wit");
    let gen_dir = args.str("gen", ".");
    let out = args.str("out", ".");
    let opts = plan::Opts::parse(&args.str("opts", "default"));
    let fail = |why: String| -> ! {
        std::fs::write(format!("{out}/gen.json"), json!({"ok": false, "why": why}).to_string()).unwrap();
        std::process::exit(3);
    };
    let (resolve, world) = match witgen::parse_world(&wit, args.get("world")) {
        Ok(x) => x,
        Err(e) => fail(format!("wit does not parse: {e:#}")),
    };
    let mut hname = None;
    for e in std::fs::read_dir(&gen_dir).expect("gen dir") {
        let p = e.unwrap().path();
        if p.extension().map_or(false, |x| x == "h") && p.file_name().unwrap() != "cg_rt.h" {
            hname = Some(p.file_name().unwrap().to_string_lossy().to_string());
        }
    }
    let Some(hname) = hname else { fail("no generated header".into()) };
    let htxt = std::fs::read_to_string(Path::new(&gen_dir).join(&hname)).unwrap();
    let ctxt = std::fs::read_to_string(Path::new(&gen_dir).join(hname.replace(".h", ".c"))).unwrap_or_default();
    let hdr = chdr::parse_header(&htxt);
    let csrc = chdr::parse_c_source(&ctxt);
    let b = plan::Learner::new(&resolve, world, &hdr, &csrc, opts.clone()).learn();
    let oms = b.omissions(&resolve, &ctxt);
    match emit::emit(&b, &hname, &opts, &oms) {
        Ok(e) => {
            std::fs::write(format!("{out}/echo.c"), e.c).unwrap();
            std::fs::write(format!("{out}/plan.json"), serde_json::to_string_pretty(&e.plan).unwrap()).unwrap();
            let enabled = b.funcs.iter().filter(|f| f.enabled).count();
            let skipped: Vec<_> = b.funcs.iter().filter(|f| !f.enabled).map(|f| json!({"name": f.name, "import": f.import, "why": f.skip})).collect();
            let info = json!({
                "ok": true, "header": hname, "bindings": hname.replace(".h", ".c"), "funcs": b.funcs.len(), "enabled": enabled, "skipped": skipped,
                "types": b.types.len(), "free_helper_omissions": oms.iter().map(|o| json!({"parent": o.parent, "member": o.member, "kind": o.kind, "shared_anon": o.shared_anon})).collect::<Vec<_>>(), "unparsed_header": hdr.unparsed, "unparsed_c": csrc.unparsed,
                "resources": b.resources.iter().map(|r| json!({"name": r.r.name, "exported": r.r.exported, "ok": r.ok, "why": r.why})).collect::<Vec<_>>(),
            });
            std::fs::write(format!("{out}/gen.json"), info.to_string()).unwrap();
        }
        Err(e) => fail(format!("echo machine cannot be emitted: {e}")),
    }
}
