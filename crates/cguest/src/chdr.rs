//! A small declaration parser for the C that `wit-bindgen c` emits: the header
//! (typedef struct/union/enum, aliases, prototypes) and the attributed
//! declarations/definitions in the `.c` file (`__import_module__`,
//! `__import_name__`, `__export_name__`).  Anything it does not understand is
//! recorded in `unparsed` and never guessed at.
use std::collections::{BTreeMap, BTreeSet};

#[derive(Clone, Debug, PartialEq, Eq)]
pub enum Tok {
    Id(String),
    Str(String),
    P(char),
}

pub fn tokenize(src: &str) -> Vec<Tok> {
    // strip comments and preprocessor lines first
    let mut clean = String::with_capacity(src.len());
    let b: Vec<char> = src.chars().collect();
    let mut i = 0;
    let mut at_line_start = true;
    while i < b.len() {
        let c = b[i];
        if c == '/' && i + 1 < b.len() && b[i + 1] == '/' {
            while i < b.len() && b[i] != '\n' {
                i += 1;
            }
            continue;
        }
        if c == '/' && i + 1 < b.len() && b[i + 1] == '*' {
            i += 2;
            while i + 1 < b.len() && !(b[i] == '*' && b[i + 1] == '/') {
                i += 1;
            }
            i += 2;
            clean.push(' ');
            continue;
        }
        if c == '"' {
            // string literal copied verbatim
            clean.push(c);
            i += 1;
            while i < b.len() && b[i] != '"' {
                if b[i] == '\\' && i + 1 < b.len() {
                    clean.push(b[i]);
                    i += 1;
                }
                clean.push(b[i]);
                i += 1;
            }
            if i < b.len() {
                clean.push('"');
                i += 1;
            }
            at_line_start = false;
            continue;
        }
        if c == '#' && at_line_start {
            // preprocessor line (with continuations)
            loop {
                while i < b.len() && b[i] != '\n' {
                    i += 1;
                }
                if i > 0 && b[i - 1] == '\\' && i < b.len() {
                    i += 1;
                    continue;
                }
                break;
            }
            continue;
        }
        if c == '\n' {
            at_line_start = true;
        } else if !c.is_whitespace() {
            at_line_start = false;
        }
        clean.push(c);
        i += 1;
    }
    let b: Vec<char> = clean.chars().collect();
    let mut out = vec![];
    let mut i = 0;
    while i < b.len() {
        let c = b[i];
        if c.is_whitespace() {
            i += 1;
        } else if c.is_alphanumeric() || c == '_' {
            let s = i;
            while i < b.len() && (b[i].is_alphanumeric() || b[i] == '_') {
                i += 1;
            }
            out.push(Tok::Id(b[s..i].iter().collect()));
        } else if c == '"' {
            i += 1;
            let mut s = String::new();
            while i < b.len() && b[i] != '"' {
                if b[i] == '\\' && i + 1 < b.len() {
                    i += 1;
                }
                s.push(b[i]);
                i += 1;
            }
            i += 1;
            out.push(Tok::Str(s));
        } else {
            out.push(Tok::P(c));
            i += 1;
        }
    }
    out
}

#[derive(Clone, Debug, PartialEq, Eq)]
pub struct CType {
    /// base type words joined by a space (`uint8_t`, `struct foo`, ...)
    pub base: String,
    pub ptr: usize,
}

impl CType {
    pub fn text(&self) -> String {
        format!("{}{}{}", self.base, if self.ptr > 0 { " " } else { "" }, "*".repeat(self.ptr))
    }
    pub fn is_void(&self) -> bool {
        self.base == "void" && self.ptr == 0
    }
}

#[derive(Clone, Debug)]
pub enum Member {
    Field { ty: CType, name: String },
    Union { members: Vec<Member>, name: String },
}

#[derive(Clone, Debug)]
pub struct Proto {
    pub name: String,
    pub ret: CType,
    pub params: Vec<(CType, String)>,
}

#[derive(Default, Debug)]
pub struct Header {
    pub structs: BTreeMap<String, Vec<Member>>,
    pub aliases: BTreeMap<String, CType>,
    /// `typedef struct tag name;` (name -> tag)
    pub opaque: BTreeMap<String, String>,
    pub enums: BTreeSet<String>,
    pub protos: BTreeMap<String, Proto>,
    pub unparsed: Vec<String>,
}

struct P<'a> {
    t: &'a [Tok],
    i: usize,
}

impl<'a> P<'a> {
    fn peek(&self) -> Option<&'a Tok> {
        self.t.get(self.i)
    }
    fn peek_at(&self, n: usize) -> Option<&'a Tok> {
        self.t.get(self.i + n)
    }
    fn next(&mut self) -> Option<&'a Tok> {
        let t = self.t.get(self.i);
        self.i += 1;
        t
    }
    fn is_p(&self, c: char) -> bool {
        matches!(self.peek(), Some(Tok::P(x)) if *x == c)
    }
    fn is_id(&self, s: &str) -> bool {
        matches!(self.peek(), Some(Tok::Id(x)) if x == s)
    }
    fn eat_p(&mut self, c: char) -> bool {
        if self.is_p(c) {
            self.i += 1;
            true
        } else {
            false
        }
    }
    /// skip a balanced group starting at the current open token
    fn skip_balanced(&mut self, open: char, close: char) {
        let mut depth = 0;
        while let Some(t) = self.next() {
            match t {
                Tok::P(c) if *c == open => depth += 1,
                Tok::P(c) if *c == close => {
                    depth -= 1;
                    if depth == 0 {
                        return;
                    }
                }
                _ => {}
            }
        }
    }
    /// skip to the `;` that ends the current top-level declaration (brace aware)
    fn skip_decl(&mut self) -> String {
        let start = self.i;
        let mut depth = 0i32;
        while let Some(t) = self.next() {
            match t {
                Tok::P('{') | Tok::P('(') | Tok::P('[') => depth += 1,
                Tok::P('}') | Tok::P(')') | Tok::P(']') => {
                    depth -= 1;
                    // a function definition ends at its closing brace
                    if depth == 0 && matches!(t, Tok::P('}')) && !self.is_p(';') && !matches!(self.peek(), Some(Tok::Id(_))) {
                        break;
                    }
                }
                Tok::P(';') if depth <= 0 => break,
                _ => {}
            }
        }
        render(&self.t[start..self.i.min(self.t.len())])
    }
}

pub fn render(t: &[Tok]) -> String {
    let mut s = String::new();
    for (i, x) in t.iter().enumerate() {
        if i > 60 {
            s.push_str(" ...");
            break;
        }
        if i > 0 {
            s.push(' ');
        }
        match x {
            Tok::Id(a) => s.push_str(a),
            Tok::Str(a) => {
                s.push('"');
                s.push_str(a);
                s.push('"');
            }
            Tok::P(c) => s.push(*c),
        }
    }
    s
}

/// Parse `TYPE [*..] [NAME]` from a token run (no trailing punctuation):
/// one or more type words, then stars, then (if `need_name`) the declared name.
/// Returns None for anything else (arrays, function pointers, bit-fields).
fn split_type_name(run: &[Tok], need_name: bool) -> Option<(CType, String)> {
    enum It<'a> {
        Id(&'a str),
        Star,
    }
    let mut items = vec![];
    for t in run {
        match t {
            Tok::Id(s) if s == "const" || s == "volatile" || s == "restrict" || s == "extern" => {}
            Tok::Id(s) => items.push(It::Id(s.as_str())),
            Tok::P('*') => items.push(It::Star),
            _ => return None,
        }
    }
    let mut name = String::new();
    if need_name {
        match items.pop() {
            Some(It::Id(n)) => name = n.to_string(),
            _ => return None,
        }
    }
    let mut words = vec![];
    let mut ptr = 0;
    for it in items {
        match it {
            It::Id(w) => {
                if ptr > 0 {
                    return None;
                }
                words.push(w);
            }
            It::Star => ptr += 1,
        }
    }
    if words.is_empty() {
        return None;
    }
    Some((CType { base: words.join(" "), ptr }, name))
}

fn parse_members(p: &mut P, ok: &mut bool) -> Vec<Member> {
    // current token is just after `{`
    let mut out = vec![];
    loop {
        if p.eat_p('}') {
            break;
        }
        if p.peek().is_none() {
            *ok = false;
            break;
        }
        if (p.is_id("union") || p.is_id("struct")) && matches!(p.peek_at(1), Some(Tok::P('{'))) {
            let is_union = p.is_id("union");
            p.i += 2;
            let ms = parse_members(p, ok);
            let name = match p.next() {
                Some(Tok::Id(n)) => n.clone(),
                _ => {
                    *ok = false;
                    String::new()
                }
            };
            if !p.eat_p(';') {
                *ok = false;
            }
            if !is_union {
                *ok = false; // nested anonymous structs are not emitted by the generator
            }
            out.push(Member::Union { members: ms, name });
            continue;
        }
        let s = p.i;
        while p.peek().is_some() && !p.is_p(';') && !p.is_p('}') {
            p.i += 1;
        }
        let run = &p.t[s..p.i];
        if !p.eat_p(';') {
            *ok = false;
            break;
        }
        match split_type_name(run, true) {
            Some((ty, name)) => out.push(Member::Field { ty, name }),
            None => *ok = false,
        }
    }
    out
}

fn parse_params(run: &[Tok]) -> Option<Vec<(CType, String)>> {
    // run = tokens between the parentheses
    if run.is_empty() {
        return Some(vec![]);
    }
    if run.len() == 1 && matches!(&run[0], Tok::Id(v) if v == "void") {
        return Some(vec![]);
    }
    let mut out = vec![];
    let mut depth = 0;
    let mut s = 0;
    for k in 0..=run.len() {
        let at_end = k == run.len();
        if !at_end {
            match &run[k] {
                Tok::P('(') | Tok::P('[') => depth += 1,
                Tok::P(')') | Tok::P(']') => depth -= 1,
                _ => {}
            }
        }
        if at_end || (depth == 0 && matches!(&run[k], Tok::P(','))) {
            let part = &run[s..k];
            s = k + 1;
            // a parameter may be unnamed (`int32_t`, `uint8_t *`)
            let idents = part.iter().filter(|t| matches!(t, Tok::Id(x) if x != "const")).count();
            let named = matches!(part.last(), Some(Tok::Id(_))) && idents >= 2;
            let r = if named { split_type_name(part, true) } else { split_type_name(part, false) };
            match r {
                Some(x) => out.push(x),
                None => return None,
            }
        }
    }
    Some(out)
}

pub fn parse_header(src: &str) -> Header {
    let toks = tokenize(src);
    let mut p = P { t: &toks, i: 0 };
    let mut h = Header::default();
    while let Some(t) = p.peek() {
        match t {
            Tok::Id(s) if s == "extern" && matches!(p.peek_at(1), Some(Tok::Str(_))) => {
                // extern "C" {
                p.i += 2;
                p.eat_p('{');
            }
            Tok::P('}') | Tok::P(';') => {
                p.i += 1;
            }
            Tok::Id(s) if s == "__attribute__" => {
                p.i += 1;
                p.skip_balanced('(', ')');
            }
            Tok::Id(s) if s == "typedef" => {
                let start = p.i;
                p.i += 1;
                if p.is_id("struct") || p.is_id("union") || p.is_id("enum") {
                    let kw = match p.next() {
                        Some(Tok::Id(k)) => k.clone(),
                        _ => unreachable!(),
                    };
                    let mut tag = None;
                    if let Some(Tok::Id(tg)) = p.peek() {
                        if !matches!(p.peek_at(1), Some(Tok::P(';'))) {
                            tag = Some(tg.clone());
                            p.i += 1;
                        }
                    }
                    if p.is_p('{') {
                        if kw == "struct" {
                            p.i += 1;
                            let mut ok = true;
                            let ms = parse_members(&mut p, &mut ok);
                            let name = match p.next() {
                                Some(Tok::Id(n)) => Some(n.clone()),
                                _ => None,
                            };
                            if ok && name.is_some() && p.eat_p(';') {
                                h.structs.insert(name.unwrap(), ms);
                            } else {
                                p.i = start;
                                let txt = p.skip_decl();
                                h.unparsed.push(txt);
                            }
                        } else {
                            p.skip_balanced('{', '}');
                            let name = match p.next() {
                                Some(Tok::Id(n)) => Some(n.clone()),
                                _ => None,
                            };
                            if kw == "enum" && name.is_some() && p.eat_p(';') {
                                h.enums.insert(name.unwrap());
                            } else {
                                p.i = start;
                                let txt = p.skip_decl();
                                h.unparsed.push(txt);
                            }
                        }
                    } else {
                        // typedef struct TAG [*] NAME;
                        let mut ptr = 0;
                        while p.eat_p('*') {
                            ptr += 1;
                        }
                        let name = match p.next() {
                            Some(Tok::Id(n)) => Some(n.clone()),
                            _ => None,
                        };
                        match (tag, name, p.eat_p(';')) {
                            (Some(tag), Some(name), true) if kw == "struct" => {
                                if ptr == 0 {
                                    h.opaque.insert(name, tag);
                                } else {
                                    h.aliases.insert(name, CType { base: format!("struct {tag}"), ptr });
                                }
                            }
                            _ => {
                                p.i = start;
                                let txt = p.skip_decl();
                                h.unparsed.push(txt);
                            }
                        }
                    }
                } else {
                    let s = p.i;
                    while p.peek().is_some() && !p.is_p(';') {
                        p.i += 1;
                    }
                    let run = &p.t[s..p.i];
                    p.eat_p(';');
                    match split_type_name(run, true) {
                        Some((ty, name)) => {
                            h.aliases.insert(name, ty);
                        }
                        None => h.unparsed.push(format!("typedef {}", render(run))),
                    }
                }
            }
            Tok::Id(_) => {
                // prototype: [extern] TYPE [*] NAME ( params ) ;
                let start = p.i;
                let mut k = p.i;
                while k < toks.len() && !matches!(toks[k], Tok::P('(') | Tok::P(';') | Tok::P('{')) {
                    k += 1;
                }
                if k < toks.len() && matches!(toks[k], Tok::P('(')) {
                    let head = &toks[start..k];
                    // find matching ')'
                    let mut depth = 0;
                    let mut e = k;
                    while e < toks.len() {
                        match toks[e] {
                            Tok::P('(') => depth += 1,
                            Tok::P(')') => {
                                depth -= 1;
                                if depth == 0 {
                                    break;
                                }
                            }
                            _ => {}
                        }
                        e += 1;
                    }
                    let params = &toks[(k + 1).min(e)..e.min(toks.len())];
                    let after_semicolon = matches!(toks.get(e + 1), Some(Tok::P(';')));
                    match (split_type_name(head, true), parse_params(params), after_semicolon) {
                        (Some((ret, name)), Some(params), true) => {
                            h.protos.insert(name.clone(), Proto { name, ret, params });
                            p.i = e + 2;
                        }
                        _ => {
                            let txt = p.skip_decl();
                            h.unparsed.push(txt);
                        }
                    }
                } else {
                    let txt = p.skip_decl();
                    h.unparsed.push(txt);
                }
            }
            _ => {
                p.i += 1;
            }
        }
    }
    h
}

/// An attributed declaration or definition found in the generated `.c` file.
#[derive(Clone, Debug)]
pub struct CSym {
    pub import_module: Option<String>,
    pub import_name: Option<String>,
    pub export_name: Option<String>,
    pub weak: bool,
    pub name: String,
    pub ret: CType,
    pub params: Vec<(CType, String)>,
    pub is_def: bool,
}

#[derive(Default, Debug)]
pub struct CSource {
    pub syms: Vec<CSym>,
    /// `extern void __component_type_object_force_link_*(void);`
    pub link_syms: Vec<String>,
    /// attributed declarations the scanner could not parse
    pub unparsed: Vec<String>,
}

pub fn parse_c_source(src: &str) -> CSource {
    let toks = tokenize(src);
    let mut p = P { t: &toks, i: 0 };
    let mut out = CSource::default();
    let mut depth = 0i32;
    while let Some(t) = p.peek() {
        match t {
            Tok::P('{') => {
                depth += 1;
                p.i += 1;
            }
            Tok::P('}') => {
                depth -= 1;
                p.i += 1;
            }
            Tok::Id(s) if s.starts_with("__component_type_object_force_link_") && depth == 0 => {
                if !s.ends_with("_public_use_in_this_compilation_unit") && !out.link_syms.contains(s) {
                    out.link_syms.push(s.clone());
                }
                p.i += 1;
            }
            Tok::Id(s) if s == "__attribute__" && depth == 0 => {
                let astart = p.i;
                p.i += 1;
                let a0 = p.i;
                p.skip_balanced('(', ')');
                let attrs = &toks[a0..p.i.min(toks.len())];
                let mut sym = CSym {
                    import_module: None,
                    import_name: None,
                    export_name: None,
                    weak: false,
                    name: String::new(),
                    ret: CType { base: String::new(), ptr: 0 },
                    params: vec![],
                    is_def: false,
                };
                let mut interesting = false;
                for (k, a) in attrs.iter().enumerate() {
                    if let Tok::Id(n) = a {
                        let arg = match (attrs.get(k + 1), attrs.get(k + 2)) {
                            (Some(Tok::P('(')), Some(Tok::Str(s))) => Some(s.clone()),
                            _ => None,
                        };
                        match n.as_str() {
                            "__import_module__" => {
                                sym.import_module = arg;
                                interesting = true;
                            }
                            "__import_name__" => {
                                sym.import_name = arg;
                                interesting = true;
                            }
                            "__export_name__" => {
                                sym.export_name = arg;
                                interesting = true;
                            }
                            "__weak__" => sym.weak = true,
                            _ => {}
                        }
                    }
                }
                if !interesting {
                    continue;
                }
                // further attributes directly following
                while p.is_id("__attribute__") {
                    p.i += 1;
                    p.skip_balanced('(', ')');
                }
                let start = p.i;
                let mut k = p.i;
                while k < toks.len() && !matches!(toks[k], Tok::P('(') | Tok::P(';') | Tok::P('{')) {
                    k += 1;
                }
                let mut parsed = false;
                if k < toks.len() && matches!(toks[k], Tok::P('(')) {
                    let head = &toks[start..k];
                    let mut d = 0;
                    let mut e = k;
                    while e < toks.len() {
                        match toks[e] {
                            Tok::P('(') => d += 1,
                            Tok::P(')') => {
                                d -= 1;
                                if d == 0 {
                                    break;
                                }
                            }
                            _ => {}
                        }
                        e += 1;
                    }
                    let params = &toks[(k + 1).min(e)..e.min(toks.len())];
                    if let (Some((ret, name)), Some(params)) = (split_type_name(head, true), parse_params(params)) {
                        match toks.get(e + 1) {
                            Some(Tok::P(';')) => {
                                sym.is_def = false;
                                parsed = true;
                            }
                            Some(Tok::P('{')) => {
                                sym.is_def = true;
                                parsed = true;
                            }
                            _ => {}
                        }
                        if parsed {
                            sym.name = name;
                            sym.ret = ret;
                            sym.params = params;
                            p.i = e + 1; // at ';' or '{' (brace depth handled by the main loop)
                            out.syms.push(sym);
                        }
                    }
                }
                if !parsed {
                    out.unparsed.push(render(&toks[astart..(astart + 40).min(toks.len())]));
                }
            }
            _ => {
                p.i += 1;
            }
        }
    }
    out
}

#[cfg(test)]
mod tests {
    use super::*;
    #[test]
    fn header_basics() {
        let h = parse_header(
            r#"
#ifndef X
#define X
#ifdef __cplusplus
extern "C" {
#endif
#include <stdint.h>
typedef struct w_string_t {
  uint8_t *ptr;
  size_t len;
} w_string_t;
typedef uint8_t w_en_t;
#define W_EN_A 0
typedef struct a_var_t {
  uint8_t tag;
  union {
    int16_t x;
    w_string_t y;
  } val;
} a_var_t;
typedef struct {
  bool is_err;
} w_result_void_void_t;
typedef struct ex_r_t ex_r_t;
typedef ex_r_t* ex_borrow_r_t;
// comment
extern bool a_f2(w_string_t *maybe_a, uint8_t *maybe_b, a_var_t *ret, w_string_t *err);
void ex_f(void);
uint8_t a_g(uint8_t a, double b);
#ifdef __cplusplus
}
#endif
#endif
"#,
        );
        assert!(h.unparsed.is_empty(), "{:?}", h.unparsed);
        assert_eq!(h.structs["w_string_t"].len(), 2);
        assert_eq!(h.aliases["w_en_t"], CType { base: "uint8_t".into(), ptr: 0 });
        assert_eq!(h.aliases["ex_borrow_r_t"], CType { base: "ex_r_t".into(), ptr: 1 });
        assert_eq!(h.opaque["ex_r_t"], "ex_r_t");
        assert_eq!(h.protos["a_f2"].params.len(), 4);
        assert_eq!(h.protos["a_f2"].params[0].1, "maybe_a");
        assert_eq!(h.protos["ex_f"].params.len(), 0);
        assert_eq!(h.protos["a_g"].ret.base, "uint8_t");
        match &h.structs["a_var_t"][1] {
            Member::Union { members, name } => {
                assert_eq!(name, "val");
                assert_eq!(members.len(), 2);
            }
            _ => panic!(),
        }
    }
    #[test]
    fn csource_basics() {
        let c = parse_c_source(
            r#"
__attribute__((__import_module__("test:pkg/i"), __import_name__("f1")))
extern int32_t __wasm_import_i_f1(int32_t, uint8_t *, size_t);
__attribute__((__weak__, __export_name__("cabi_realloc")))
void *cabi_realloc(void *ptr, size_t old_size, size_t align, size_t new_size) {
  if (new_size == 0) return (void*) align;
}
__attribute__((__aligned__(sizeof(void*))))
static uint8_t RET_AREA[(2*sizeof(void*))];
__attribute__((__export_name__("test:pkg/i#f1")))
uint8_t * __wasm_export_i_f1(int32_t arg, float arg0) {
  foo((x) { 1 });
}
extern void __component_type_object_force_link_w(void);
void __component_type_object_force_link_w_public_use_in_this_compilation_unit(void) { __component_type_object_force_link_w(); }
"#,
        );
        assert!(c.unparsed.is_empty(), "{:?}", c.unparsed);
        assert_eq!(c.syms.len(), 3);
        assert_eq!(c.syms[0].params.len(), 3);
        assert_eq!(c.syms[0].params[1].0, CType { base: "uint8_t".into(), ptr: 1 });
        assert_eq!(c.syms[1].name, "cabi_realloc");
        assert_eq!(c.syms[2].ret, CType { base: "uint8_t".into(), ptr: 1 });
        assert!(c.syms[2].is_def);
        assert_eq!(c.link_syms, vec!["__component_type_object_force_link_w".to_string()]);
    }
}
