//! The flat token stream the host and the C echo machine exchange values in:
//! the walkers on both sides visit a value in the same (type-directed) order.
use cabi_ref::{Abi, Shape, StringEncoding, Val, VariantKind};
use std::collections::VecDeque;
use wit_parser::Type;

#[derive(Clone, Debug, PartialEq)]
pub enum Tok {
    U(u64),
    B(Vec<u8>),
    /// the echo machine refused to follow a pointer/length pair that does not
    /// lie inside a live guest allocation
    Bad(String),
}

pub fn encode(abi: &Abi, ty: &Type, v: &Val, out: &mut Vec<Tok>) {
    match (abi.shape(ty), v) {
        (_, Val::Bool(b)) => out.push(Tok::U(*b as u64)),
        (_, Val::U8(x)) => out.push(Tok::U(*x as u64)),
        (_, Val::U16(x)) => out.push(Tok::U(*x as u64)),
        (_, Val::U32(x)) => out.push(Tok::U(*x as u64)),
        (_, Val::U64(x)) => out.push(Tok::U(*x)),
        (_, Val::S8(x)) => out.push(Tok::U(*x as i64 as u64)),
        (_, Val::S16(x)) => out.push(Tok::U(*x as i64 as u64)),
        (_, Val::S32(x)) => out.push(Tok::U(*x as i64 as u64)),
        (_, Val::S64(x)) => out.push(Tok::U(*x as u64)),
        (_, Val::F32(b)) => out.push(Tok::U(*b as u64)),
        (_, Val::F64(b)) => out.push(Tok::U(*b)),
        (_, Val::Char(c)) => out.push(Tok::U(*c as u64)),
        (_, Val::Handle(h)) => out.push(Tok::U(*h as u64)),
        (_, Val::Str(s)) => {
            let (bytes, units, _) = abi.encode_string(s);
            out.push(Tok::U(units as u64));
            out.push(Tok::B(bytes));
        }
        (Shape::List(et), Val::List(xs)) | (Shape::FixedList(et, _), Val::List(xs)) => {
            out.push(Tok::U(xs.len() as u64));
            for x in xs {
                encode(abi, &et, x, out);
            }
        }
        (Shape::Map(k, vt), Val::Map(xs)) => {
            out.push(Tok::U(xs.len() as u64));
            for (a, b) in xs {
                encode(abi, &k, a, out);
                encode(abi, &vt, b, out);
            }
        }
        (Shape::Record(fs), Val::Record(xs)) => {
            for (f, x) in fs.iter().zip(xs) {
                encode(abi, f, x, out);
            }
        }
        (Shape::Variant(cases, _), Val::Variant(c, p)) => {
            out.push(Tok::U(*c as u64));
            if let (Some(t), Some(p)) = (&cases[*c as usize], p) {
                encode(abi, t, p, out);
            }
        }
        (Shape::Flags(_), Val::Flags(bits)) => {
            let mut m = 0u64;
            for (i, b) in bits.iter().enumerate() {
                if *b {
                    m |= 1 << i;
                }
            }
            out.push(Tok::U(m));
        }
        (_, v) => panic!("tokens::encode: value {v:?} does not match its type"),
    }
}

/// What went wrong while reading an observation back.
#[derive(Debug)]
pub enum DecodeError {
    /// the stream does not have the shape the walkers agreed on: harness bug
    Protocol(String),
    /// the guest produced something that is not a value of the type (bad
    /// discriminant, ill-formed string, bool that is not 0/1, out-of-range char)
    Invalid { what: String, class: String },
}

pub struct Reader<'a> {
    pub toks: &'a mut VecDeque<Tok>,
}

impl<'a> Reader<'a> {
    fn u(&mut self) -> Result<u64, DecodeError> {
        match self.toks.pop_front() {
            Some(Tok::U(x)) => Ok(x),
            other => Err(DecodeError::Protocol(format!("expected a number token, got {other:?}"))),
        }
    }
    fn b(&mut self) -> Result<Vec<u8>, DecodeError> {
        match self.toks.pop_front() {
            Some(Tok::B(x)) => Ok(x),
            other => Err(DecodeError::Protocol(format!("expected a bytes token, got {other:?}"))),
        }
    }
}

pub fn class_of(abi: &Abi, ty: &Type) -> String {
    match abi.shape(ty) {
        Shape::Bool => "bool".into(),
        Shape::U8 => "u8".into(),
        Shape::U16 => "u16".into(),
        Shape::U32 => "u32".into(),
        Shape::U64 => "u64".into(),
        Shape::S8 => "s8".into(),
        Shape::S16 => "s16".into(),
        Shape::S32 => "s32".into(),
        Shape::S64 => "s64".into(),
        Shape::F32 => "f32".into(),
        Shape::F64 => "f64".into(),
        Shape::Char => "char".into(),
        Shape::String => "string".into(),
        Shape::Handle(_) => "handle".into(),
        Shape::List(_) => "list".into(),
        Shape::FixedList(..) => "fixed-list".into(),
        Shape::Map(..) => "map".into(),
        Shape::Record(_) => "record".into(),
        Shape::Variant(_, VariantKind::Variant) => "variant".into(),
        Shape::Variant(_, VariantKind::Enum) => "enum".into(),
        Shape::Variant(_, VariantKind::Option) => "option".into(),
        Shape::Variant(_, VariantKind::Result) => "result".into(),
        Shape::Flags(_) => "flags".into(),
        Shape::_P(_) => unreachable!(),
    }
}

pub fn decode(abi: &Abi, ty: &Type, r: &mut Reader) -> Result<Val, DecodeError> {
    let inv = |what: String| DecodeError::Invalid { what, class: class_of(abi, ty) };
    if let Some(Tok::Bad(_)) = r.toks.front() {
        if let Some(Tok::Bad(m)) = r.toks.pop_front() {
            return Err(inv(m));
        }
    }
    Ok(match abi.shape(ty) {
        Shape::Bool => match r.u()? {
            0 => Val::Bool(false),
            1 => Val::Bool(true),
            x => return Err(inv(format!("bool with representation {x}"))),
        },
        Shape::U8 => Val::U8(narrow(r.u()?, 8, false).map_err(inv)? as u8),
        Shape::U16 => Val::U16(narrow(r.u()?, 16, false).map_err(inv)? as u16),
        Shape::U32 => Val::U32(narrow(r.u()?, 32, false).map_err(inv)? as u32),
        Shape::U64 => Val::U64(r.u()?),
        Shape::S8 => Val::S8(narrow(r.u()?, 8, true).map_err(inv)? as i8),
        Shape::S16 => Val::S16(narrow(r.u()?, 16, true).map_err(inv)? as i16),
        Shape::S32 => Val::S32(narrow(r.u()?, 32, true).map_err(inv)? as i32),
        Shape::S64 => Val::S64(r.u()? as i64),
        Shape::F32 => Val::F32(narrow(r.u()?, 32, false).map_err(inv)? as u32),
        Shape::F64 => Val::F64(r.u()?),
        Shape::Char => {
            let c = r.u()?;
            if c > 0x10ffff || (0xd800..0xe000).contains(&c) {
                return Err(inv(format!("char {c:#x} is not a unicode scalar value")));
            }
            Val::Char(c as u32)
        }
        Shape::Handle(_) => Val::Handle(narrow(r.u()?, 32, false).map_err(inv)? as u32),
        Shape::String => {
            let units = r.u()? as usize;
            let bytes = r.b()?;
            match abi.enc {
                StringEncoding::Utf8 => {
                    if bytes.len() != units {
                        return Err(DecodeError::Protocol("string byte count".into()));
                    }
                    Val::Str(String::from_utf8(bytes).map_err(|e| inv(format!("ill-formed UTF-8: {e}")))?)
                }
                StringEncoding::Utf16 => {
                    if bytes.len() != units * 2 {
                        return Err(DecodeError::Protocol("string byte count".into()));
                    }
                    let u: Vec<u16> = bytes.chunks(2).map(|c| u16::from_le_bytes([c[0], c[1]])).collect();
                    Val::Str(String::from_utf16(&u).map_err(|e| inv(format!("ill-formed UTF-16: {e}")))?)
                }
            }
        }
        Shape::List(et) => {
            let n = r.u()?;
            if n > 1 << 24 {
                return Err(inv(format!("list length {n}")));
            }
            let mut v = vec![];
            for _ in 0..n {
                v.push(decode(abi, &et, r)?);
            }
            Val::List(v)
        }
        Shape::FixedList(et, k) => {
            let n = r.u()?;
            if n != k as u64 {
                return Err(inv(format!("fixed list length {n}")));
            }
            let mut v = vec![];
            for _ in 0..n {
                v.push(decode(abi, &et, r)?);
            }
            Val::List(v)
        }
        Shape::Map(k, vt) => {
            let n = r.u()?;
            if n > 1 << 24 {
                return Err(inv(format!("map length {n}")));
            }
            let mut v = vec![];
            for _ in 0..n {
                let a = decode(abi, &k, r)?;
                let b = decode(abi, &vt, r)?;
                v.push((a, b));
            }
            Val::Map(v)
        }
        Shape::Record(fs) => {
            let mut v = vec![];
            for f in &fs {
                v.push(decode(abi, f, r)?);
            }
            Val::Record(v)
        }
        Shape::Variant(cases, _) => {
            let c = r.u()?;
            if c as usize >= cases.len() {
                return Err(inv(format!("discriminant {c} of {} cases", cases.len())));
            }
            let p = match &cases[c as usize] {
                Some(t) => Some(Box::new(decode(abi, t, r)?)),
                None => None,
            };
            Val::Variant(c as u32, p)
        }
        Shape::Flags(n) => {
            let m = r.u()?;
            if n < 64 && m >> n != 0 {
                return Err(inv(format!("flags value {m:#x} has bits beyond the {n} members")));
            }
            Val::Flags((0..n).map(|i| m & (1 << i) != 0).collect())
        }
        Shape::_P(_) => unreachable!(),
    })
}

/// The C walkers widen every integer to 64 bits (sign- or zero-extending from
/// the C type), so the upper bits must agree with the C type's width.
fn narrow(x: u64, bits: u32, signed: bool) -> Result<u64, String> {
    if signed {
        let v = x as i64;
        let lo = -(1i64 << (bits - 1));
        let hi = (1i64 << (bits - 1)) - 1;
        if v < lo || v > hi {
            return Err(format!("value {v} does not fit s{bits}"));
        }
        Ok(x)
    } else {
        if bits < 64 && x >> bits != 0 {
            return Err(format!("value {x} does not fit u{bits}"));
        }
        Ok(x)
    }
}

/// Locate the first difference between two values of type `ty`: returns the
/// shape class at the smallest enclosing position and a path.
pub fn first_diff(abi: &Abi, ty: &Type, a: &Val, b: &Val, path: &mut String) -> Option<(String, String)> {
    if a == b {
        return None;
    }
    let here = |p: &String| Some((class_of(abi, ty), p.clone()));
    match (abi.shape(ty), a, b) {
        (Shape::List(et), Val::List(x), Val::List(y)) | (Shape::FixedList(et, _), Val::List(x), Val::List(y)) => {
            if x.len() != y.len() {
                return here(path);
            }
            for (i, (p, q)) in x.iter().zip(y).enumerate() {
                let l = path.len();
                path.push_str(&format!("[{i}]"));
                if let Some(d) = first_diff(abi, &et, p, q, path) {
                    return Some(d);
                }
                path.truncate(l);
            }
            here(path)
        }
        (Shape::Map(k, v), Val::Map(x), Val::Map(y)) => {
            if x.len() != y.len() {
                return here(path);
            }
            for (i, ((pk, pv), (qk, qv))) in x.iter().zip(y).enumerate() {
                let l = path.len();
                path.push_str(&format!("{{{i}}}.key"));
                if let Some(d) = first_diff(abi, &k, pk, qk, path) {
                    return Some(d);
                }
                path.truncate(l);
                path.push_str(&format!("{{{i}}}.value"));
                if let Some(d) = first_diff(abi, &v, pv, qv, path) {
                    return Some(d);
                }
                path.truncate(l);
            }
            here(path)
        }
        (Shape::Record(fs), Val::Record(x), Val::Record(y)) => {
            for (i, (f, (p, q))) in fs.iter().zip(x.iter().zip(y)).enumerate() {
                let l = path.len();
                path.push_str(&format!(".{i}"));
                if let Some(d) = first_diff(abi, f, p, q, path) {
                    return Some(d);
                }
                path.truncate(l);
            }
            here(path)
        }
        (Shape::Variant(cases, _), Val::Variant(c1, p1), Val::Variant(c2, p2)) => {
            if c1 != c2 {
                return here(path);
            }
            match (&cases[*c1 as usize], p1, p2) {
                (Some(t), Some(p), Some(q)) => {
                    let l = path.len();
                    path.push_str(&format!("#{c1}"));
                    let d = first_diff(abi, t, p, q, path);
                    path.truncate(l);
                    d.or_else(|| here(path))
                }
                _ => here(path),
            }
        }
        _ => here(path),
    }
}

/// true iff the two values differ only in NaN payloads (a guest may legally
/// canonicalize NaNs)
pub fn differs_only_in_nan(a: &Val, b: &Val) -> bool {
    fn nan32(x: u32) -> bool {
        (x & 0x7f80_0000) == 0x7f80_0000 && (x & 0x007f_ffff) != 0
    }
    fn nan64(x: u64) -> bool {
        (x & 0x7ff0_0000_0000_0000) == 0x7ff0_0000_0000_0000 && (x & 0x000f_ffff_ffff_ffff) != 0
    }
    match (a, b) {
        (Val::F32(x), Val::F32(y)) => x == y || (nan32(*x) && nan32(*y)),
        (Val::F64(x), Val::F64(y)) => x == y || (nan64(*x) && nan64(*y)),
        (Val::List(x), Val::List(y)) | (Val::Record(x), Val::Record(y)) => x.len() == y.len() && x.iter().zip(y).all(|(p, q)| differs_only_in_nan(p, q)),
        (Val::Map(x), Val::Map(y)) => x.len() == y.len() && x.iter().zip(y).all(|((a, b), (c, d))| differs_only_in_nan(a, c) && differs_only_in_nan(b, d)),
        (Val::Variant(c, p), Val::Variant(d, q)) => {
            c == d
                && match (p, q) {
                    (Some(p), Some(q)) => differs_only_in_nan(p, q),
                    (None, None) => true,
                    _ => false,
                }
        }
        (a, b) => a == b,
    }
}
