//! Which worlds a run looks at: the hand-written boundary corpus (sync subset),
//! random witgen worlds (Names::Simple) minus what the C backend declares
//! unsupported, and — for C11 — resource worlds with single- and multi-word
//! resource names.
use crate::plan::Opts;
use vkit::Rng;

pub struct Picked {
    pub wit: String,
    pub world: String,
    pub opts: Opts,
    pub origin: String,
    pub tags: Vec<String>,
}

pub const VARIANTS: &[&str] = &["default", "no-sig-flattening", "autodrop", "utf16"];

fn excluded(tags: &std::collections::BTreeSet<String>) -> bool {
    ["error-context", "named-fixed-list", "fixed-list", "future", "stream", "async-func"].iter().any(|t| tags.contains(*t))
}

fn sync_corpus() -> Vec<(String, String)> {
    let mut v = vec![];
    for (name, wit) in witgen::boundary_corpus() {
        match name {
            "flags" | "variants" | "maps" => v.push((name.to_string(), wit)),
            "limits" => {
                let w: String = wit.lines().filter(|l| !l.contains("async func")).map(|l| format!("{l}\n")).collect();
                v.push((name.to_string(), w));
            }
            _ => {}
        }
    }
    v.push((
        "strings-lists".to_string(),
        r#"package v:b;
interface i {
  record person { name: string, nick: list<string>, age: u8 }
  variant shape { circle(f32), label(string), many(list<string>), none }
  type names = list<string>;
  type maybe-name = option<string>;
  type alias-names = names;
  str1: func(a: string) -> string;
  str2: func(a: list<string>, b: option<string>, c: result<string, string>) -> list<list<string>>;
  str3: func(a: person, b: list<person>) -> option<person>;
  str4: func(a: shape, b: list<shape>) -> result<shape, list<string>>;
  str5: func(a: names, b: maybe-name, c: alias-names) -> tuple<names, maybe-name>;
  str6: func(a: option<option<string>>, b: result<option<string>, list<u8>>) -> result<option<list<string>>, string>;
  str7: func(a: string, b: string, c: string, d: string, e: string, f: string, g: string, h: string, i: string) -> tuple<string, list<u8>, string>;
  str8: func(a: list<u16>, b: list<s64>, c: list<f64>, d: list<bool>, e: list<char>) -> list<tuple<string, u8>>;
  str9: func(a: map<string, list<string>>) -> map<u8, person>;
}
world w { import i; export i; export wf: func(a: list<string>) -> option<string>; import wg: func(a: option<list<string>>) -> result<string, string>; }
"#
        .to_string(),
    ));
    v.push((
        "scalars".to_string(),
        r#"package v:b;
interface i {
  enum e2 { a, b }
  flags f3 { x, y, z }
  c1: func(a: s8) -> s8;
  c2: func(a: s16) -> s16;
  c3: func(a: u8, b: u16, c: u32, d: u64) -> u64;
  c4: func(a: s8, b: s16, c: s32, d: s64) -> s32;
  c5: func(a: f32, b: f64) -> f32;
  c6: func(a: char, b: bool) -> char;
  c7: func(a: e2, b: f3) -> e2;
  c8: func(a: bool) -> bool;
  c9: func(a: list<s8>, b: list<s16>, c: tuple<s8, s16, u8, u16>) -> tuple<s8, s16>;
  c10: func(a: option<s8>, b: result<s16, s8>) -> option<s16>;
  c11: func() -> f64;
  c12: func(a: f3) -> f3;
  c13: func(a: option<bool>, b: option<char>) -> result<bool, char>;
}
world w { import i; export i; }
"#
        .to_string(),
    ));
    v
}

const RES_WORDS: &[&str] = &["thing", "item", "blob", "node", "cat", "widget", "conn", "file"];

fn res_name(rng: &mut Rng, words: usize) -> String {
    let mut parts: Vec<String> = vec![];
    while parts.len() < words {
        let w = rng.pick(RES_WORDS).to_string();
        if !parts.contains(&w) {
            parts.push(w);
        }
    }
    parts.join("-")
}

/// A resource world built from a template: one imported and one exported
/// interface, each with a resource whose name has 1..3 words.
fn resource_template(rng: &mut Rng, k: usize) -> (String, String) {
    let w_exp = 1 + ((k + 1) % 3);
    let w_imp = 1 + ((k / 2) % 3);
    let r1 = res_name(rng, w_imp);
    let mut r2 = res_name(rng, w_exp);
    if r2 == r1 {
        r2 = format!("{r2}-two");
    }
    let extra = ["u32", "string", "list<u8>", "option<string>", "tuple<u8, string>"];
    let t1 = *rng.pick(&extra);
    let t2 = *rng.pick(&extra);
    let use_imported_in_export = true;
    let mut exp_extra = String::new();
    let mut use_line = String::new();
    if use_imported_in_export {
        use_line = format!("  use imp-api.{{{r1}}};\n");
        // a borrow of the imported resource as one case among siblings that share
        // its flat slot (u32, u64, own, enum, none): only the borrow case lends a handle
        exp_extra.push_str(&format!(
            "  enum sel-kind {{ ka, kb, kc }}\n  variant sel {{ by-handle(borrow<{r1}>), by-id(u32), by-big(u64), by-own({r1}), by-kind(sel-kind), nothing }}\n  variant sel-b {{ first(u64), then-handle(borrow<{r1}>), third(s32) }}\n"
        ));
        exp_extra.push_str("  pick: func(s: sel) -> u32;\n");
        exp_extra.push_str("  pick-two: func(a: sel, n: u32, b: sel-b) -> u32;\n");
        exp_extra.push_str(&format!("  pick-res: func(r: result<borrow<{r1}>, u32>) -> u32;\n"));
        exp_extra.push_str(&format!("  pick-res-err: func(r: result<u64, borrow<{r1}>>, o: option<borrow<{r1}>>) -> u32;\n"));
        exp_extra.push_str(&format!("  pick-nested: func(t: tuple<u8, option<sel>>, r: result<sel-b, u32>) -> u32;\n"));
        exp_extra.push_str(&format!("  with-imported: func(b: borrow<{r1}>, o: {r1}, x: {t1}) -> {r1};\n"));
        exp_extra.push_str(&format!("  with-imported-agg: func(o: option<borrow<{r1}>>, t: tuple<{r1}, u8>) -> option<{r1}>;\n"));
    }
    let fallible = if rng.chance(1, 2) { format!("constructor(a: u32) -> result<{r2}, string>;") } else { "constructor(a: u32);".to_string() };
    let wit = format!(
        r#"package test:res{k};
interface imp-api {{
  resource {r1} {{
    constructor(a: u32);
    get-a: func() -> u32;
    echo: func(s: {t1}) -> {t1};
    make: static func(a: u32) -> {r1};
    merge: static func(a: {r1}, b: borrow<{r1}>) -> {r1};
  }}
  take-own: func(r: {r1}) -> u32;
  take-borrow: func(r: borrow<{r1}>, s: string) -> string;
  give: func(a: u32) -> {r1};
  agg: func(x: tuple<{r1}, u32>, y: option<borrow<{r1}>>) -> result<{r1}, string>;
  lst: func(l: list<{r1}>) -> list<{r1}>;
}}
interface exp-api {{
{use_line}  resource {r2} {{
    {fallible}
    get-a: func() -> u32;
    echo: func(s: {t2}) -> {t2};
    consume: static func(x: {r2}) -> u32;
    dup: func() -> {r2};
  }}
  take-own: func(r: {r2}) -> u32;
  take-borrow: func(r: borrow<{r2}>, s: string) -> string;
  give: func(a: u32) -> {r2};
  two: func(a: borrow<{r2}>, b: borrow<{r2}>) -> {r2};
  agg: func(x: tuple<{r2}, u32>, y: option<borrow<{r2}>>) -> result<{r2}, string>;
  lst: func(l: list<{r2}>) -> list<{r2}>;
{exp_extra}}}
world res-world{k} {{
  import imp-api;
  export exp-api;
}}
"#
    );
    (wit, format!("res-world{k}"))
}

pub fn select(seed: u64, count: usize, resources: bool) -> Vec<Picked> {
    let mut rng = Rng::new(seed ^ if resources { 0xC11 } else { 0xC10 });
    let mut out: Vec<Picked> = vec![];
    let variant = |i: usize| Opts::parse(VARIANTS[(i + seed as usize) % VARIANTS.len()]);
    let corpus = sync_corpus();
    if resources {
        // C11 = the memory-heavy part of the C10 worlds + resource worlds.
        // strings-lists (nested owned memory everywhere) is always present.
        let sl = corpus.iter().position(|c| c.0 == "strings-lists").unwrap();
        let ncorp = if count >= 100 { corpus.len() * 2 } else { 2 };
        for j in 0..ncorp {
            let k = if j == 0 { sl } else { (j + seed as usize) % corpus.len() };
            let (name, wit) = &corpus[k];
            let o = variant(j + if j == 0 { 0 } else { 1 });
            out.push(Picked { wit: wit.clone(), world: "w".into(), opts: o, origin: format!("corpus:{name}"), tags: vec![] });
        }
        // resource templates: enough of them to cover 1/2/3-word names on both sides
        let nt = if count >= 100 { count / 4 } else { 6.min(count) };
        for k in 0..nt {
            let (wit, world) = resource_template(&mut rng, k + (seed as usize % 9) * 9);
            // autodrop on/off alternate; every 4th template also varies flattening
            let mut o = Opts::default();
            o.autodrop = k % 2 == 1;
            o.no_sig_flattening = k % 4 == 2;
            o.utf16 = k % 8 == 5;
            out.push(Picked { wit, world, opts: o, origin: "resource-template".into(), tags: vec!["resource".into()] });
        }
    } else {
        // quick tiers see a rotating part of the corpus, thorough all of it under every variant
        let ncorp = if count >= 100 { corpus.len() * VARIANTS.len() } else { (count / 3).max(2).min(corpus.len()) };
        for j in 0..ncorp {
            let (name, wit) = &corpus[(j + seed as usize * 3) % corpus.len()];
            let o = if count >= 100 { Opts::parse(VARIANTS[j / corpus.len()]) } else { variant(j + 1) };
            out.push(Picked { wit: wit.clone(), world: "w".into(), opts: o, origin: format!("corpus:{name}"), tags: vec![] });
        }
    }
    let mut cfg = witgen::Cfg::default();
    cfg.resources = resources;
    cfg.async_ = false;
    cfg.error_context = false;
    cfg.fixed_lists = false;
    cfg.docs = false;
    cfg.multi_pkg = false;
    let mut i = 0;
    let mut guard = 0;
    while out.len() < count && guard < count * 20 {
        guard += 1;
        let mut r = rng.fork(guard as u64);
        if let Some((w, _, _, _)) = witgen::generate_valid(&mut r, &cfg) {
            if excluded(&w.tags) {
                continue;
            }
            if resources && !w.tags.contains("resource") {
                continue;
            }
            let mut o = variant(i);
            if resources {
                o = Opts::default();
                o.autodrop = i % 2 == 0;
                o.no_sig_flattening = i % 3 == 1;
            }
            out.push(Picked { wit: w.wit.clone(), world: w.world.clone(), opts: o, origin: "witgen".into(), tags: w.tags.iter().cloned().collect() });
            i += 1;
        }
    }
    out
}
