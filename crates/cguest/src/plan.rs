//! Learns, from the generated header and `.c` file, how each WIT function and
//! type of a world is spelled in C.  Names are never predicted from the naming
//! scheme: functions are found through the `__import_module__/__import_name__`
//! and `__export_name__` attributes the generator emitted, types by walking the
//! prototypes and struct definitions *in parallel with the WIT type*.  Only
//! the documented shape rules (README: by-pointer params, option/result
//! flattening, struct member layout names `tag/val/is_some/is_err/ok/err/ptr/len/
//! key/value/f<i>`) are assumed, and each is verified against the header; any
//! disagreement makes the function (or world) *unsupported* = inconclusive.
use crate::chdr::{CSource, CSym, CType, Header, Member, Proto};
use cabi_ref::Abi;
use std::collections::{BTreeMap, BTreeSet, HashMap};
use wit_parser::{
    Function, Handle, InterfaceId, Resolve, Type, TypeDefKind, TypeId, TypeOwner, WorldId, WorldItem, WorldKey,
};

#[derive(Clone, Debug, Default)]
pub struct Opts {
    pub no_sig_flattening: bool,
    pub autodrop: bool,
    pub utf16: bool,
}

impl Opts {
    pub fn cli_args(&self) -> Vec<String> {
        let mut v = vec![];
        if self.no_sig_flattening {
            v.push("--no-sig-flattening".to_string());
        }
        if self.autodrop {
            v.push("--autodrop-borrows=yes".to_string());
        }
        if self.utf16 {
            v.push("--string-encoding=utf16".to_string());
        }
        v
    }
    pub fn label(&self) -> String {
        let mut v = vec![];
        if self.no_sig_flattening {
            v.push("no-sig-flattening");
        }
        if self.autodrop {
            v.push("autodrop");
        }
        if self.utf16 {
            v.push("utf16");
        }
        if v.is_empty() {
            "default".to_string()
        } else {
            v.join("+")
        }
    }
    pub fn parse(s: &str) -> Opts {
        let mut o = Opts::default();
        for p in s.split('+') {
            match p {
                "no-sig-flattening" => o.no_sig_flattening = true,
                "autodrop" => o.autodrop = true,
                "utf16" => o.utf16 = true,
                _ => {}
            }
        }
        o
    }
}

/// One function of the world, in the fixed enumeration order shared by the
/// generator and the host: imports first (world order, interface functions in
/// interface order), then exports.
#[derive(Clone, Debug)]
pub struct FuncRef {
    pub idx: usize,
    pub import: bool,
    pub key: Option<WorldKey>,
    pub iface: Option<InterfaceId>,
    /// the wasm import module / export prefix: `ns:pkg/iface`, a kebab name, or `$root`
    pub module: String,
    pub func: Function,
}

pub fn enumerate(resolve: &Resolve, world: WorldId) -> Vec<FuncRef> {
    let w = &resolve.worlds[world];
    let mut out = vec![];
    for (import, items) in [(true, &w.imports), (false, &w.exports)] {
        for (key, item) in items.iter() {
            match item {
                WorldItem::Interface { id, .. } => {
                    for (_, f) in resolve.interfaces[*id].functions.iter() {
                        out.push(FuncRef {
                            idx: out.len(),
                            import,
                            key: Some(key.clone()),
                            iface: Some(*id),
                            module: resolve.name_world_key(key),
                            func: f.clone(),
                        });
                    }
                }
                WorldItem::Function(f) => out.push(FuncRef {
                    idx: out.len(),
                    import,
                    key: None,
                    iface: None,
                    module: "$root".to_string(),
                    func: f.clone(),
                }),
                WorldItem::Type { .. } => {}
            }
        }
    }
    out
}

/// A resource as seen from one side of the world (the same TypeId can be both
/// imported and exported).
#[derive(Clone, Debug)]
pub struct ResRef {
    pub idx: usize,
    pub id: TypeId,
    pub exported: bool,
    /// kebab-case name as written in WIT
    pub name: String,
    /// `ns:pkg/iface` | kebab | `$root` (without the `[export]` prefix)
    pub module: String,
}

pub fn enumerate_resources(resolve: &Resolve, world: WorldId) -> Vec<ResRef> {
    let w = &resolve.worlds[world];
    let mut out: Vec<ResRef> = vec![];
    for (exported, items) in [(false, &w.imports), (true, &w.exports)] {
        for (key, item) in items.iter() {
            match item {
                WorldItem::Interface { id, .. } => {
                    for (name, tid) in resolve.interfaces[*id].types.iter() {
                        if matches!(resolve.types[*tid].kind, TypeDefKind::Resource) {
                            out.push(ResRef { idx: out.len(), id: *tid, exported, name: name.clone(), module: resolve.name_world_key(key) });
                        }
                    }
                }
                WorldItem::Type { id, .. } => {
                    if matches!(resolve.types[*id].kind, TypeDefKind::Resource) {
                        let name = resolve.types[*id].name.clone().unwrap_or_default();
                        out.push(ResRef { idx: out.len(), id: *id, exported, name, module: "$root".to_string() });
                    }
                }
                WorldItem::Function(_) => {}
            }
        }
    }
    out
}

pub fn dealias_id(resolve: &Resolve, mut id: TypeId) -> TypeId {
    loop {
        match &resolve.types[id].kind {
            TypeDefKind::Type(Type::Id(t)) => id = *t,
            _ => return id,
        }
    }
}

/// Which side's resource does a handle to `rid` denote when it appears in a
/// function of direction `import` (see `imported_types_used_by_exported_interfaces`
/// in the generator's README-level behaviour: an exported interface re-defines
/// its own types; everything else it mentions is the imported one).
pub fn resource_is_exported(resolve: &Resolve, world: WorldId, func_import: bool, world_level: bool, rid: TypeId) -> bool {
    // a world-level function sees interface types through `use`, which always
    // denotes the *imported* instance of that interface
    if func_import || world_level {
        return false;
    }
    let rid = dealias_id(resolve, rid);
    match resolve.types[rid].owner {
        TypeOwner::Interface(i) => resolve.worlds[world].exports.iter().any(|(_, it)| matches!(it, WorldItem::Interface { id, .. } if *id == i)),
        _ => false,
    }
}

#[derive(Clone, Debug, PartialEq, Eq)]
pub enum Prim {
    Bool,
    U8,
    U16,
    U32,
    U64,
    S8,
    S16,
    S32,
    S64,
    F32,
    F64,
}

impl Prim {
    pub fn ctype(&self) -> &'static str {
        match self {
            Prim::Bool => "bool",
            Prim::U8 => "uint8_t",
            Prim::U16 => "uint16_t",
            Prim::U32 => "uint32_t",
            Prim::U64 => "uint64_t",
            Prim::S8 => "int8_t",
            Prim::S16 => "int16_t",
            Prim::S32 => "int32_t",
            Prim::S64 => "int64_t",
            Prim::F32 => "float",
            Prim::F64 => "double",
        }
    }
    pub fn of(ty: &Type) -> Option<Prim> {
        Some(match ty {
            Type::Bool => Prim::Bool,
            Type::U8 => Prim::U8,
            Type::U16 => Prim::U16,
            Type::U32 | Type::Char => Prim::U32,
            Type::U64 => Prim::U64,
            Type::S8 => Prim::S8,
            Type::S16 => Prim::S16,
            Type::S32 => Prim::S32,
            Type::S64 => Prim::S64,
            Type::F32 => Prim::F32,
            Type::F64 => Prim::F64,
            _ => return None,
        })
    }
    pub fn from_ctype(s: &str) -> Option<Prim> {
        Some(match s {
            "bool" => Prim::Bool,
            "uint8_t" => Prim::U8,
            "uint16_t" => Prim::U16,
            "uint32_t" => Prim::U32,
            "uint64_t" => Prim::U64,
            "int8_t" => Prim::S8,
            "int16_t" => Prim::S16,
            "int32_t" => Prim::S32,
            "int64_t" => Prim::S64,
            "float" => Prim::F32,
            "double" => Prim::F64,
            _ => return None,
        })
    }
}

#[derive(Clone, Debug)]
pub enum BindKind {
    Prim(Prim),
    Str { unit: usize },
    Alias(String),
    /// record or tuple: (member name, ctype)
    Record(Vec<(String, String)>),
    Flags { repr: String, n: usize },
    Enum { repr: String, n: usize },
    Variant { tag: String, cases: Vec<Option<(String, String)>> },
    Option(String),
    Result { ok: Option<String>, err: Option<String> },
    List(String),
    Map { entry: String, key: String, value: String },
    Own { res: usize },
    BorrowHandle { res: usize },
    BorrowRep { res: usize, rep: String },
}

#[derive(Clone, Debug)]
pub struct TypeBind {
    pub cname: String,
    pub wit: Type,
    pub shape: String,
    pub kind: BindKind,
    pub free_fn: Option<String>,
    pub has_heap: bool,
    pub has_handles: bool,
    /// in how many binding contexts (import/export x interface) this C type was reached
    pub contexts: BTreeSet<String>,
}

#[derive(Clone, Debug)]
pub enum ParamMode {
    ByValue,
    ByPointer,
    /// flattened `option<T>` parameter: `T *maybe_x`, NULL = none
    Maybe,
}

#[derive(Clone, Debug)]
pub struct ParamPlan {
    pub mode: ParamMode,
    /// C type of the value (for `Maybe`: of the payload)
    pub ctype: String,
    /// WIT type `ctype` denotes
    pub ty: Type,
}

#[derive(Clone, Debug)]
pub enum RetPlan {
    Void,
    Scalar { ctype: String, ty: Type },
    Out { ctype: String, ty: Type },
    OptionBool { ctype: String, ty: Type },
    ResultBool { ok: Option<(String, Type)>, err: Option<(String, Type)> },
}

#[derive(Clone, Debug)]
pub struct FuncPlan {
    pub idx: usize,
    pub import: bool,
    pub module: String,
    pub name: String,
    pub enabled: bool,
    pub skip: Option<String>,
    /// public C function (header)
    pub cname: String,
    pub proto: Option<Proto>,
    /// `__wasm_import_*` / `__wasm_export_*`
    pub wasm: Option<CSym>,
    pub post_return: Option<CSym>,
    pub params: Vec<ParamPlan>,
    pub ret: RetPlan,
}

#[derive(Clone, Debug)]
pub struct ResPlan {
    pub r: ResRef,
    pub ok: bool,
    pub why: Option<String>,
    pub drop_sym: Option<CSym>,
    pub new_sym: Option<CSym>,
    pub rep_sym: Option<CSym>,
    pub base: String,
    pub own_ctype: String,
    pub borrow_ctype: String,
    pub rep_ctype: String,
    pub drop_own: String,
    pub drop_borrow: Option<String>,
    pub borrow_fn: Option<String>,
    pub new_fn: String,
    pub rep_fn: String,
    pub destructor: String,
    /// the `[dtor]` definition: symbol and the export name the generator emitted
    pub dtor: Option<CSym>,
}

pub struct Binding {
    pub funcs: Vec<FuncPlan>,
    /// children before parents
    pub types: Vec<TypeBind>,
    pub resources: Vec<ResPlan>,
    pub link_syms: Vec<String>,
    /// every other import symbol found in the `.c` file that is not accounted for
    pub stray_imports: Vec<CSym>,
    pub world_notes: Vec<String>,
    /// type ids reachable from the world's imports / exports
    pub sides: (BTreeSet<TypeId>, BTreeSet<TypeId>),
}

pub struct Learner<'a> {
    pub resolve: &'a Resolve,
    pub world: WorldId,
    pub hdr: &'a Header,
    pub csrc: &'a CSource,
    pub opts: Opts,
    pub abi: Abi<'a>,
    types: Vec<TypeBind>,
    index: HashMap<String, usize>,
    resources: Vec<ResPlan>,
    cur_ctx: String,
    cur_world_level: bool,
    own_types: BTreeSet<String>,
}

type R<T> = Result<T, String>;

fn fields_only(ms: &[Member]) -> Option<Vec<(&CType, &str)>> {
    ms.iter()
        .map(|m| match m {
            Member::Field { ty, name } => Some((ty, name.as_str())),
            _ => None,
        })
        .collect()
}

impl<'a> Learner<'a> {
    pub fn new(resolve: &'a Resolve, world: WorldId, hdr: &'a Header, csrc: &'a CSource, opts: Opts) -> Learner<'a> {
        let mut abi = Abi::new(resolve, 8);
        if opts.utf16 {
            abi.enc = cabi_ref::StringEncoding::Utf16;
        }
        Learner { resolve, world, hdr, csrc, opts, abi, types: vec![], index: HashMap::new(), resources: vec![], cur_ctx: String::new(), cur_world_level: false, own_types: BTreeSet::new() }
    }

    fn find_import(&self, module: &str, name: &str) -> Option<&'a CSym> {
        self.csrc.syms.iter().find(|s| !s.is_def && s.import_module.as_deref() == Some(module) && s.import_name.as_deref() == Some(name))
    }
    fn find_export(&self, name: &str) -> Option<&'a CSym> {
        self.csrc.syms.iter().find(|s| s.is_def && s.export_name.as_deref() == Some(name))
    }

    fn contains_handle(&self, ty: &Type) -> bool {
        use cabi_ref::Shape;
        match self.abi.shape(ty) {
            Shape::Handle(_) => true,
            Shape::List(t) | Shape::FixedList(t, _) => self.contains_handle(&t),
            Shape::Map(k, v) => self.contains_handle(&k) || self.contains_handle(&v),
            Shape::Record(fs) => fs.iter().any(|f| self.contains_handle(f)),
            Shape::Variant(cs, _) => cs.iter().flatten().any(|t| self.contains_handle(t)),
            _ => false,
        }
    }

    fn register(&mut self, cname: &str, wit: &Type, kind: BindKind) -> R<()> {
        let shape = self.abi.shape_key(wit);
        let free_fn = cname.strip_suffix("_t").map(|p| format!("{p}_free")).filter(|f| match self.hdr.protos.get(f) {
            Some(p) => p.params.len() == 1 && p.params[0].0.ptr == 1 && p.params[0].0.base == cname && p.ret.is_void(),
            None => false,
        });
        let tb = TypeBind {
            cname: cname.to_string(),
            wit: *wit,
            shape,
            kind,
            free_fn,
            has_heap: self.abi.contains_heap(wit),
            has_handles: self.contains_handle(wit),
            contexts: [self.cur_ctx.clone()].into_iter().collect(),
        };
        self.index.insert(cname.to_string(), self.types.len());
        self.types.push(tb);
        Ok(())
    }

    /// chase `typedef A B;` chains (value aliases only)
    fn chase<'h>(&'h self, mut name: &'h str) -> (&'h str, usize) {
        let mut ptr = 0;
        for _ in 0..16 {
            match self.hdr.aliases.get(name) {
                Some(t) if ptr == 0 || t.ptr == 0 => {
                    ptr += t.ptr;
                    name = t.base.as_str();
                }
                _ => break,
            }
        }
        (name, ptr)
    }

    fn res_plan_for(&self, func_import: bool, rid: TypeId) -> R<usize> {
        let exported = resource_is_exported(self.resolve, self.world, func_import, self.cur_world_level, rid);
        let id = dealias_id(self.resolve, rid);
        let found = self.resources.iter().find(|r| r.r.id == id && r.r.exported == exported);
        match found {
            Some(r) if r.ok => Ok(r.r.idx),
            Some(r) => Err(format!("resource `{}` not usable: {}", r.r.name, r.why.clone().unwrap_or_default())),
            None => Err(format!("resource {:?} ({}) not found on the {} side", self.resolve.types[id].name, id.index(), if exported { "export" } else { "import" })),
        }
    }

    /// Walk WIT type `ty`, spelled `cname` in C, in function direction `import`.
    pub fn walk(&mut self, ty: &Type, cname: &str, import: bool) -> R<()> {
        if let Some(&i) = self.index.get(cname) {
            let c = self.cur_ctx.clone();
            self.types[i].contexts.insert(c);
        }
        if let (Some(&i), Some(p)) = (self.index.get(cname), Prim::of(ty)) {
            if matches!(&self.types[i].kind, BindKind::Prim(q) if *q == p) {
                return Ok(());
            }
        }
        if let Some(&i) = self.index.get(cname) {
            let have = &self.types[i];
            let shape = self.abi.shape_key(ty);
            if have.shape != shape {
                return Err(format!("C type `{cname}` reached with two different WIT shapes ({} vs {shape})", have.shape));
            }
            return Ok(());
        }
        if let Some(p) = Prim::of(ty) {
            if p.ctype() != cname {
                return Err(format!("primitive {ty:?} spelled `{cname}`, expected `{}`", p.ctype()));
            }
            return self.register(cname, ty, BindKind::Prim(p));
        }
        match ty {
            Type::String => {
                let ms = self.hdr.structs.get(cname).ok_or_else(|| format!("string type `{cname}` is not a struct in the header"))?;
                let fs = fields_only(ms).ok_or("string struct has a union")?;
                let unit = if self.opts.utf16 { ("uint16_t", 2) } else { ("uint8_t", 1) };
                if fs.len() != 2 || fs[0].1 != "ptr" || fs[0].0.ptr != 1 || fs[0].0.base != unit.0 || fs[1].1 != "len" || fs[1].0.base != "size_t" || fs[1].0.ptr != 0 {
                    return Err(format!("string struct `{cname}` has unexpected members {fs:?}"));
                }
                self.register(cname, ty, BindKind::Str { unit: unit.1 })
            }
            Type::ErrorContext => Err("error-context is not supported by the C backend (declared)".into()),
            Type::Id(id) => self.walk_id(*id, ty, cname, import),
            _ => unreachable!(),
        }
    }

    fn walk_id(&mut self, id: TypeId, ty: &Type, cname: &str, import: bool) -> R<()> {
        let kind = self.resolve.types[id].kind.clone();
        match kind {
            TypeDefKind::Type(inner) => {
                let t = self.hdr.aliases.get(cname).ok_or_else(|| format!("alias type `{cname}` is not a typedef alias in the header"))?.clone();
                if t.ptr != 0 {
                    // alias of a borrow of an exported resource is the only pointer typedef
                    if let Type::Id(iid) = inner {
                        if matches!(self.resolve.types[dealias_id(self.resolve, iid)].kind, TypeDefKind::Handle(Handle::Borrow(_))) {
                            return self.walk_handle(dealias_id(self.resolve, iid), ty, cname, import);
                        }
                    }
                    return Err(format!("alias `{cname}` is a pointer typedef"));
                }
                self.walk(&inner, &t.base, import)?;
                self.register(cname, ty, BindKind::Alias(t.base))
            }
            TypeDefKind::Record(r) => {
                let ms = self.hdr.structs.get(cname).ok_or_else(|| format!("record `{cname}` is not a struct"))?;
                let fs = fields_only(ms).ok_or("record struct has a union member")?;
                if fs.len() != r.fields.len() {
                    return Err(format!("record `{cname}`: {} members in C, {} fields in WIT", fs.len(), r.fields.len()));
                }
                let mut out = vec![];
                for ((ct, name), f) in fs.iter().zip(&r.fields) {
                    if ct.ptr != 0 {
                        return Err(format!("record `{cname}` member `{name}` is a pointer"));
                    }
                    self.walk(&f.ty, &ct.base, import)?;
                    out.push((name.to_string(), ct.base.clone()));
                }
                self.register(cname, ty, BindKind::Record(out))
            }
            TypeDefKind::Tuple(t) => {
                let ms = self.hdr.structs.get(cname).ok_or_else(|| format!("tuple `{cname}` is not a struct"))?;
                let fs = fields_only(ms).ok_or("tuple struct has a union member")?;
                if fs.len() != t.types.len() {
                    return Err(format!("tuple `{cname}`: arity mismatch"));
                }
                let mut out = vec![];
                for (i, ((ct, name), fty)) in fs.iter().zip(&t.types).enumerate() {
                    if ct.ptr != 0 || *name != format!("f{i}") {
                        return Err(format!("tuple `{cname}` member {i} is `{} {name}`", ct.text()));
                    }
                    self.walk(fty, &ct.base, import)?;
                    out.push((name.to_string(), ct.base.clone()));
                }
                self.register(cname, ty, BindKind::Record(out))
            }
            TypeDefKind::Flags(f) => {
                let (base, ptr) = self.chase(cname);
                let n = f.flags.len();
                let want = if n <= 8 { "uint8_t" } else if n <= 16 { "uint16_t" } else if n <= 32 { "uint32_t" } else { "" };
                if ptr != 0 || base != want {
                    return Err(format!("flags `{cname}` ({n} members) has repr `{base}`"));
                }
                let base = base.to_string();
                self.register(cname, ty, BindKind::Flags { repr: base, n })
            }
            TypeDefKind::Enum(e) => {
                let (base, ptr) = self.chase(cname);
                let n = e.cases.len();
                let want = if n <= 256 { "uint8_t" } else if n <= 65536 { "uint16_t" } else { "uint32_t" };
                if ptr != 0 || base != want {
                    return Err(format!("enum `{cname}` ({n} cases) has repr `{base}`"));
                }
                let base = base.to_string();
                self.register(cname, ty, BindKind::Enum { repr: base, n })
            }
            TypeDefKind::Variant(v) => {
                let ms = self.hdr.structs.get(cname).ok_or_else(|| format!("variant `{cname}` is not a struct"))?.clone();
                let n = v.cases.len();
                let want = if n <= 256 { "uint8_t" } else if n <= 65536 { "uint16_t" } else { "uint32_t" };
                match ms.first() {
                    Some(Member::Field { ty: t, name }) if name == "tag" && t.ptr == 0 && t.base == want => {}
                    other => return Err(format!("variant `{cname}`: first member is {other:?}, expected `{want} tag`")),
                }
                let with_payload: Vec<&wit_parser::Case> = v.cases.iter().filter(|c| c.ty.is_some()).collect();
                let mut members: Vec<(String, String)> = vec![];
                if with_payload.is_empty() {
                    if ms.len() != 1 {
                        return Err(format!("variant `{cname}` without payloads has extra members"));
                    }
                } else {
                    match (ms.len(), ms.get(1)) {
                        (2, Some(Member::Union { members: um, name })) if name == "val" => {
                            let fs = fields_only(um).ok_or("nested union")?;
                            if fs.len() != with_payload.len() {
                                return Err(format!("variant `{cname}`: union has {} members, WIT has {} payload cases", fs.len(), with_payload.len()));
                            }
                            for (ct, name) in fs {
                                if ct.ptr != 0 {
                                    return Err(format!("variant `{cname}` member `{name}` is a pointer"));
                                }
                                members.push((name.to_string(), ct.base.clone()));
                            }
                        }
                        _ => return Err(format!("variant `{cname}`: expected `union {{..}} val`")),
                    }
                }
                let mut it = members.into_iter();
                let mut cases = vec![];
                for c in &v.cases {
                    match &c.ty {
                        Some(t) => {
                            let (m, ct) = it.next().unwrap();
                            self.walk(t, &ct, import)?;
                            cases.push(Some((m, ct)));
                        }
                        None => cases.push(None),
                    }
                }
                self.register(cname, ty, BindKind::Variant { tag: want.to_string(), cases })
            }
            TypeDefKind::Option(t) => {
                let ms = self.hdr.structs.get(cname).ok_or_else(|| format!("option `{cname}` is not a struct"))?;
                let fs = fields_only(ms).ok_or("option struct has a union member")?;
                if fs.len() != 2 || fs[0].1 != "is_some" || fs[0].0.base != "bool" || fs[0].0.ptr != 0 || fs[1].1 != "val" || fs[1].0.ptr != 0 {
                    return Err(format!("option `{cname}` has unexpected members {fs:?}"));
                }
                let ct = fs[1].0.base.clone();
                self.walk(&t, &ct, import)?;
                self.register(cname, ty, BindKind::Option(ct))
            }
            TypeDefKind::Result(r) => {
                let ms = self.hdr.structs.get(cname).ok_or_else(|| format!("result `{cname}` is not a struct"))?.clone();
                match ms.first() {
                    Some(Member::Field { ty: t, name }) if name == "is_err" && t.base == "bool" && t.ptr == 0 => {}
                    other => return Err(format!("result `{cname}`: first member is {other:?}")),
                }
                let want: Vec<&str> = [r.ok.map(|_| "ok"), r.err.map(|_| "err")].into_iter().flatten().collect();
                let mut got: Vec<(String, String)> = vec![];
                if want.is_empty() {
                    if ms.len() != 1 {
                        return Err(format!("result `{cname}` without payloads has extra members"));
                    }
                } else {
                    match (ms.len(), ms.get(1)) {
                        (2, Some(Member::Union { members: um, name })) if name == "val" => {
                            let fs = fields_only(um).ok_or("nested union")?;
                            let names: Vec<&str> = fs.iter().map(|f| f.1).collect();
                            if names != want || fs.iter().any(|f| f.0.ptr != 0) {
                                return Err(format!("result `{cname}`: union members {names:?}, expected {want:?}"));
                            }
                            for (ct, name) in fs {
                                got.push((name.to_string(), ct.base.clone()));
                            }
                        }
                        _ => return Err(format!("result `{cname}`: expected `union {{..}} val`")),
                    }
                }
                let mut ok = None;
                let mut err = None;
                for (name, ct) in got {
                    if name == "ok" {
                        self.walk(&r.ok.unwrap(), &ct, import)?;
                        ok = Some(ct);
                    } else {
                        self.walk(&r.err.unwrap(), &ct, import)?;
                        err = Some(ct);
                    }
                }
                self.register(cname, ty, BindKind::Result { ok, err })
            }
            TypeDefKind::List(t) => {
                let ms = self.hdr.structs.get(cname).ok_or_else(|| format!("list `{cname}` is not a struct"))?;
                let fs = fields_only(ms).ok_or("list struct has a union member")?;
                if fs.len() != 2 || fs[0].1 != "ptr" || fs[0].0.ptr != 1 || fs[1].1 != "len" || fs[1].0.base != "size_t" || fs[1].0.ptr != 0 {
                    return Err(format!("list `{cname}` has unexpected members {fs:?}"));
                }
                let ct = fs[0].0.base.clone();
                self.walk(&t, &ct, import)?;
                // C struct layout is passed through as the canonical layout: an
                // exported-resource borrow is a native pointer (8 bytes) but 4
                // bytes canonically, so such lists only work on wasm32.
                if self.contains_rep_borrow(&t, import) {
                    return Err("list of borrows of an exported resource: C layout differs from the canonical one on a 64-bit host (out of reach natively)".into());
                }
                self.register(cname, ty, BindKind::List(ct))
            }
            TypeDefKind::Map(k, v) => {
                let ms = self.hdr.structs.get(cname).ok_or_else(|| format!("map `{cname}` is not a struct"))?;
                let fs = fields_only(ms).ok_or("map struct has a union member")?;
                if fs.len() != 2 || fs[0].1 != "ptr" || fs[0].0.ptr != 1 || fs[1].1 != "len" || fs[1].0.base != "size_t" || fs[1].0.ptr != 0 {
                    return Err(format!("map `{cname}` has unexpected members {fs:?}"));
                }
                let entry = fs[0].0.base.clone();
                let es = self.hdr.structs.get(&entry).ok_or_else(|| format!("map entry `{entry}` is not a struct"))?;
                let efs = fields_only(es).ok_or("map entry has a union member")?;
                if efs.len() != 2 || efs[0].1 != "key" || efs[1].1 != "value" || efs[0].0.ptr != 0 || efs[1].0.ptr != 0 {
                    return Err(format!("map entry `{entry}` has unexpected members {efs:?}"));
                }
                let (kc, vc) = (efs[0].0.base.clone(), efs[1].0.base.clone());
                self.walk(&k, &kc, import)?;
                self.walk(&v, &vc, import)?;
                if self.contains_rep_borrow(&k, import) || self.contains_rep_borrow(&v, import) {
                    return Err("map with borrows of an exported resource: out of reach natively".into());
                }
                self.register(cname, ty, BindKind::Map { entry, key: kc, value: vc })
            }
            TypeDefKind::Handle(_) => self.walk_handle(id, ty, cname, import),
            TypeDefKind::Future(_) | TypeDefKind::Stream(_) => Err("futures/streams are outside the sync-only scope of this check".into()),
            TypeDefKind::FixedLengthList(..) => Err("fixed-length lists: not supported by the C backend in type definitions (declared)".into()),
            TypeDefKind::Resource => Err("bare resource in value position".into()),
            TypeDefKind::Unknown => Err("unknown type".into()),
        }
    }

    fn contains_rep_borrow(&self, ty: &Type, import: bool) -> bool {
        match self.abi.dealias(ty) {
            Type::Id(id) => match &self.resolve.types[id].kind {
                TypeDefKind::Handle(Handle::Borrow(r)) => resource_is_exported(self.resolve, self.world, import, self.cur_world_level, *r),
                TypeDefKind::Handle(_) => false,
                TypeDefKind::Record(r) => r.fields.iter().any(|f| self.contains_rep_borrow(&f.ty, import)),
                TypeDefKind::Tuple(t) => t.types.iter().any(|t| self.contains_rep_borrow(t, import)),
                TypeDefKind::Variant(v) => v.cases.iter().any(|c| c.ty.map_or(false, |t| self.contains_rep_borrow(&t, import))),
                TypeDefKind::Option(t) => self.contains_rep_borrow(t, import),
                TypeDefKind::Result(r) => r.ok.map_or(false, |t| self.contains_rep_borrow(&t, import)) || r.err.map_or(false, |t| self.contains_rep_borrow(&t, import)),
                TypeDefKind::List(t) => self.contains_rep_borrow(t, import),
                TypeDefKind::Map(k, v) => self.contains_rep_borrow(k, import) || self.contains_rep_borrow(v, import),
                _ => false,
            },
            _ => false,
        }
    }

    fn walk_handle(&mut self, hid: TypeId, ty: &Type, cname: &str, import: bool) -> R<()> {
        let h = match &self.resolve.types[hid].kind {
            TypeDefKind::Handle(h) => h.clone(),
            _ => unreachable!(),
        };
        let (rid, borrow) = match h {
            Handle::Own(r) => (r, false),
            Handle::Borrow(r) => (r, true),
        };
        let res = self.res_plan_for(import, rid)?;
        let rp = self.resources[res].clone();
        let (base, ptr) = {
            let (b, p) = self.chase(cname);
            (b.to_string(), p)
        };
        if !borrow {
            if ptr != 0 || base != rp.own_ctype {
                return Err(format!("own handle `{cname}` resolves to `{base}`{}, expected `{}`", "*".repeat(ptr), rp.own_ctype));
            }
            self.register(cname, ty, BindKind::Own { res })
        } else if rp.r.exported {
            if ptr != 1 || base != rp.rep_ctype {
                return Err(format!("borrow of exported resource `{cname}` resolves to `{base}`{}, expected `{} *`", "*".repeat(ptr), rp.rep_ctype));
            }
            self.register(cname, ty, BindKind::BorrowRep { res, rep: rp.rep_ctype.clone() })
        } else {
            if ptr != 0 || base != rp.borrow_ctype {
                return Err(format!("borrow handle `{cname}` resolves to `{base}`, expected `{}`", rp.borrow_ctype));
            }
            self.register(cname, ty, BindKind::BorrowHandle { res })
        }
    }

    fn is_handle_struct(&self, name: &str) -> bool {
        match self.hdr.structs.get(name).and_then(|m| fields_only(m)) {
            Some(fs) => fs.len() == 1 && fs[0].1 == "__handle" && fs[0].0.base == "int32_t" && fs[0].0.ptr == 0,
            None => false,
        }
    }

    fn learn_resource(&self, r: &ResRef) -> ResPlan {
        let mut p = ResPlan {
            r: r.clone(),
            ok: false,
            why: None,
            drop_sym: None,
            new_sym: None,
            rep_sym: None,
            base: String::new(),
            own_ctype: String::new(),
            borrow_ctype: String::new(),
            rep_ctype: String::new(),
            drop_own: String::new(),
            drop_borrow: None,
            borrow_fn: None,
            new_fn: String::new(),
            rep_fn: String::new(),
            destructor: String::new(),
            dtor: None,
        };
        let module = if r.exported { format!("[export]{}", r.module) } else { r.module.clone() };
        let res: R<()> = (|| {
            let drop = self.find_import(&module, &format!("[resource-drop]{}", r.name)).ok_or("no [resource-drop] import emitted (resource unused?)")?;
            p.drop_sym = Some(drop.clone());
            let base = drop.name.strip_prefix("__wasm_import_").and_then(|s| s.strip_suffix("_drop")).ok_or("unexpected [resource-drop] symbol name")?;
            p.base = base.to_string();
            p.drop_own = format!("{base}_drop_own");
            let dp = self.hdr.protos.get(&p.drop_own).ok_or("no *_drop_own prototype")?;
            if dp.params.len() != 1 || dp.params[0].0.ptr != 0 || !dp.ret.is_void() || !self.is_handle_struct(&dp.params[0].0.base) {
                return Err("unexpected *_drop_own prototype".to_string());
            }
            p.own_ctype = dp.params[0].0.base.clone();
            if !r.exported {
                let db = format!("{base}_drop_borrow");
                if let Some(bp) = self.hdr.protos.get(&db) {
                    if bp.params.len() == 1 && bp.params[0].0.ptr == 0 && self.is_handle_struct(&bp.params[0].0.base) {
                        p.drop_borrow = Some(db);
                    }
                }
                // the own -> borrow converter: unique prototype taking the own type by value and returning another handle struct
                let cands: Vec<&Proto> = self
                    .hdr
                    .protos
                    .values()
                    .filter(|q| q.params.len() == 1 && q.params[0].0.ptr == 0 && q.params[0].0.base == p.own_ctype && q.ret.ptr == 0 && !self.own_types.contains(&q.ret.base) && self.is_handle_struct(&q.ret.base))
                    .collect();
                if cands.len() != 1 {
                    return Err(format!("{} candidates for the own->borrow converter", cands.len()));
                }
                p.borrow_fn = Some(cands[0].name.clone());
                p.borrow_ctype = cands[0].ret.base.clone();
                if !self.opts.autodrop && p.drop_borrow.is_none() {
                    return Err("no *_drop_borrow although autodrop is off".into());
                }
            } else {
                p.new_sym = Some(self.find_import(&module, &format!("[resource-new]{}", r.name)).ok_or("no [resource-new] import")?.clone());
                p.rep_sym = Some(self.find_import(&module, &format!("[resource-rep]{}", r.name)).ok_or("no [resource-rep] import")?.clone());
                p.new_fn = format!("{base}_new");
                p.rep_fn = format!("{base}_rep");
                p.destructor = format!("{base}_destructor");
                let np = self.hdr.protos.get(&p.new_fn).ok_or("no *_new prototype")?;
                let rp = self.hdr.protos.get(&p.rep_fn).ok_or("no *_rep prototype")?;
                let dp = self.hdr.protos.get(&p.destructor).ok_or("no *_destructor prototype")?;
                if np.params.len() != 1 || np.params[0].0.ptr != 1 || np.ret.base != p.own_ctype || np.ret.ptr != 0 {
                    return Err("unexpected *_new prototype".into());
                }
                p.rep_ctype = np.params[0].0.base.clone();
                if !self.hdr.opaque.contains_key(&p.rep_ctype) {
                    return Err("rep type is not an opaque struct typedef".into());
                }
                if rp.params.len() != 1 || rp.params[0].0.base != p.own_ctype || rp.ret.base != p.rep_ctype || rp.ret.ptr != 1 {
                    return Err("unexpected *_rep prototype".into());
                }
                if dp.params.len() != 1 || dp.params[0].0.base != p.rep_ctype || dp.params[0].0.ptr != 1 || !dp.ret.is_void() {
                    return Err("unexpected *_destructor prototype".into());
                }
                let dsym = format!("__wasm_export_{base}_dtor");
                let d = self.csrc.syms.iter().find(|s| s.is_def && s.name == dsym).ok_or("no [dtor] export definition found")?;
                if d.params.len() != 1 || d.params[0].0.ptr != 1 || d.export_name.is_none() {
                    return Err("unexpected [dtor] definition".into());
                }
                p.dtor = Some(d.clone());
            }
            Ok(())
        })();
        match res {
            Ok(()) => p.ok = true,
            Err(e) => p.why = Some(e),
        }
        p
    }

    fn by_pointer(&self, ty: &Type) -> bool {
        use cabi_ref::Shape;
        match self.abi.shape(ty) {
            Shape::String | Shape::List(_) | Shape::Map(..) | Shape::Record(_) => true,
            Shape::Variant(_, k) => !matches!(k, cabi_ref::VariantKind::Enum),
            _ => false,
        }
    }

    fn plan_func(&mut self, fr: &FuncRef) -> FuncPlan {
        let mut fp = FuncPlan {
            idx: fr.idx,
            import: fr.import,
            module: fr.module.clone(),
            name: fr.func.name.clone(),
            enabled: false,
            skip: None,
            cname: String::new(),
            proto: None,
            wasm: None,
            post_return: None,
            params: vec![],
            ret: RetPlan::Void,
        };
        self.cur_ctx = format!("{}:{}", if fr.import { "import" } else { "export" }, fr.module);
        self.cur_world_level = fr.iface.is_none();
        let r: R<()> = (|| {
            let f = &fr.func;
            let wasm = if fr.import {
                self.find_import(&fr.module, &f.name).ok_or_else(|| format!("no import declaration for module `{}` name `{}` in the generated C", fr.module, f.name))?
            } else {
                let en = if fr.key.is_some() { format!("{}#{}", fr.module, f.name) } else { f.name.clone() };
                self.find_export(&en).ok_or_else(|| format!("no export definition named `{en}` in the generated C"))?
            };
            fp.wasm = Some(wasm.clone());
            let prefix = if fr.import { "__wasm_import_" } else { "__wasm_export_" };
            fp.cname = wasm.name.strip_prefix(prefix).ok_or("unexpected core symbol name")?.to_string();
            if !fr.import {
                let pr = format!("{}_post_return", wasm.name);
                fp.post_return = self.csrc.syms.iter().find(|s| s.is_def && s.name == pr).cloned();
            }
            let proto = self.hdr.protos.get(&fp.cname).ok_or_else(|| format!("no prototype `{}` in the header", fp.cname))?.clone();
            fp.proto = Some(proto.clone());
            if !matches!(f.kind, wit_parser::FunctionKind::Freestanding | wit_parser::FunctionKind::Method(_) | wit_parser::FunctionKind::Static(_) | wit_parser::FunctionKind::Constructor(_)) {
                return Err("async function kinds are outside the sync-only scope".into());
            }
            let flatten = !self.opts.no_sig_flattening;
            // ---- parameters
            let mut pi = 0;
            for p in &f.params {
                let (ct, _) = proto.params.get(pi).ok_or("prototype has too few parameters")?.clone();
                pi += 1;
                let direct_option = match p.ty {
                    Type::Id(id) => match &self.resolve.types[id].kind {
                        TypeDefKind::Option(t) => Some(*t),
                        _ => None,
                    },
                    _ => None,
                };
                if let (true, Some(payload)) = (flatten, direct_option) {
                    if ct.ptr != 1 {
                        return Err(format!("flattened option parameter `{}` is not a pointer", p.name));
                    }
                    self.walk(&payload, &ct.base, fr.import)?;
                    fp.params.push(ParamPlan { mode: ParamMode::Maybe, ctype: ct.base.clone(), ty: payload });
                } else {
                    let want_ptr = self.by_pointer(&p.ty);
                    if ct.ptr != want_ptr as usize {
                        return Err(format!("parameter `{}`: header passes `{}`, the documented rule says by-{}", p.name, ct.text(), if want_ptr { "pointer" } else { "value" }));
                    }
                    self.walk(&p.ty, &ct.base, fr.import)?;
                    fp.params.push(ParamPlan { mode: if want_ptr { ParamMode::ByPointer } else { ParamMode::ByValue }, ctype: ct.base.clone(), ty: p.ty });
                }
            }
            // ---- result
            let rest: Vec<(CType, String)> = proto.params[pi..].to_vec();
            let out_param = |k: usize| -> R<String> {
                let (ct, _) = rest.get(k).ok_or("prototype lacks an out-parameter")?;
                if ct.ptr != 1 {
                    return Err("out-parameter is not a pointer".into());
                }
                Ok(ct.base.clone())
            };
            match &f.result {
                None => {
                    if !proto.ret.is_void() || !rest.is_empty() {
                        return Err("function without result has a non-void prototype".into());
                    }
                    fp.ret = RetPlan::Void;
                }
                Some(rt) => {
                    use cabi_ref::{Shape, VariantKind};
                    let shape = self.abi.shape(rt);
                    let scalar = match &shape {
                        Shape::String | Shape::List(_) | Shape::Map(..) | Shape::Record(_) | Shape::FixedList(..) => false,
                        Shape::Variant(_, k) => matches!(k, VariantKind::Enum),
                        _ => true,
                    };
                    let d = self.abi.dealias(rt);
                    let dk = match d {
                        Type::Id(id) => Some(self.resolve.types[id].kind.clone()),
                        _ => None,
                    };
                    match (scalar, flatten, dk) {
                        (true, _, _) => {
                            if proto.ret.ptr != 0 || !rest.is_empty() {
                                return Err("scalar result but prototype has out-parameters or returns a pointer".into());
                            }
                            self.walk(rt, &proto.ret.base, fr.import)?;
                            fp.ret = RetPlan::Scalar { ctype: proto.ret.base.clone(), ty: *rt };
                        }
                        (false, true, Some(TypeDefKind::Option(payload))) => {
                            if proto.ret.base != "bool" || proto.ret.ptr != 0 || rest.len() != 1 {
                                return Err("flattened option result: prototype is not `bool f(.., T *ret)`".into());
                            }
                            let ct = out_param(0)?;
                            self.walk(&payload, &ct, fr.import)?;
                            fp.ret = RetPlan::OptionBool { ctype: ct, ty: payload };
                        }
                        (false, true, Some(TypeDefKind::Result(res))) => {
                            let n = res.ok.is_some() as usize + res.err.is_some() as usize;
                            if proto.ret.base != "bool" || proto.ret.ptr != 0 || rest.len() != n {
                                return Err("flattened result: prototype is not `bool f(.., OK *ret, ERR *err)`".into());
                            }
                            let mut k = 0;
                            let mut ok = None;
                            let mut err = None;
                            if let Some(t) = res.ok {
                                let ct = out_param(k)?;
                                k += 1;
                                self.walk(&t, &ct, fr.import)?;
                                ok = Some((ct, t));
                            }
                            if let Some(t) = res.err {
                                let ct = out_param(k)?;
                                self.walk(&t, &ct, fr.import)?;
                                err = Some((ct, t));
                            }
                            fp.ret = RetPlan::ResultBool { ok, err };
                        }
                        _ => {
                            if !proto.ret.is_void() || rest.len() != 1 {
                                return Err("aggregate result: prototype is not `void f(.., T *ret)`".into());
                            }
                            let ct = out_param(0)?;
                            self.walk(rt, &ct, fr.import)?;
                            fp.ret = RetPlan::Out { ctype: ct, ty: *rt };
                        }
                    }
                }
            }
            Ok(())
        })();
        match r {
            Ok(()) => fp.enabled = true,
            Err(e) => fp.skip = Some(e),
        }
        fp
    }

    pub fn learn(mut self) -> Binding {
        let rs = enumerate_resources(self.resolve, self.world);
        // every `*_drop_own(T handle)` prototype names an own-handle type
        self.own_types = self
            .hdr
            .protos
            .values()
            .filter(|p| p.name.ends_with("_drop_own") && p.params.len() == 1 && p.params[0].0.ptr == 0 && p.ret.is_void())
            .map(|p| p.params[0].0.base.clone())
            .collect();
        self.resources = rs.iter().map(|r| self.learn_resource(r)).collect();
        let frs = enumerate(self.resolve, self.world);
        let mut funcs = vec![];
        for fr in &frs {
            let types_mark = self.types.len();
            let fp = self.plan_func(fr);
            if !fp.enabled {
                // forget types registered by the failed walk only if nothing else
                // depends on them: they are complete sub-walks, so they are kept.
                let _ = types_mark;
            }
            funcs.push(fp);
        }
        // import symbols nobody accounted for (need a stub to link)
        let mut used: BTreeSet<String> = BTreeSet::new();
        for f in &funcs {
            if let Some(w) = &f.wasm {
                used.insert(w.name.clone());
            }
        }
        for r in &self.resources {
            for s in [&r.drop_sym, &r.new_sym, &r.rep_sym].into_iter().flatten() {
                used.insert(s.name.clone());
            }
        }
        let stray: Vec<CSym> = self.csrc.syms.iter().filter(|s| !s.is_def && s.import_module.is_some() && !used.contains(&s.name)).cloned().collect();
        let mut notes = vec![];
        if !self.hdr.unparsed.is_empty() {
            notes.push(format!("{} header declarations not parsed", self.hdr.unparsed.len()));
        }
        if !self.csrc.unparsed.is_empty() {
            notes.push(format!("{} attributed C declarations not parsed", self.csrc.unparsed.len()));
        }
        let sides = Binding::side_reach(self.resolve, self.world);
        Binding { funcs, types: self.types, resources: self.resources, link_syms: self.csrc.link_syms.clone(), stray_imports: stray, world_notes: notes, sides }
    }
}

impl Binding {
    pub fn type_index(&self) -> BTreeMap<String, usize> {
        self.types.iter().enumerate().map(|(i, t)| (t.cname.clone(), i)).collect()
    }
}

/// A generated `*_free` helper that does not release a member whose type owns memory.
#[derive(Clone, Debug)]
pub struct Omission {
    pub parent: String,
    pub member: String,
    /// "not-called" | "missing-helper"
    pub kind: &'static str,
    /// the member is an anonymous structural type (no WIT name) that is spelled
    /// with one C name in more than one binding context
    pub shared_anon: bool,
}

pub fn function_body<'s>(src: &'s str, name: &str) -> Option<&'s str> {
    let pat = format!(" {name}(");
    let mut from = 0;
    while let Some(k) = src[from..].find(&pat) {
        let at = from + k;
        // must be a definition: `)` then `{` before any `;`
        let rest = &src[at..];
        let close = rest.find(')')?;
        let after = rest[close + 1..].trim_start();
        if after.starts_with('{') {
            let start = at + close + 1 + (rest[close + 1..].len() - after.len());
            let mut depth = 0;
            for (i, c) in src[start..].char_indices() {
                match c {
                    '{' => depth += 1,
                    '}' => {
                        depth -= 1;
                        if depth == 0 {
                            return Some(&src[start..start + i + 1]);
                        }
                    }
                    _ => {}
                }
            }
            return None;
        }
        from = at + pat.len();
    }
    None
}

impl Binding {
    pub fn members_of(&self, t: &TypeBind) -> Vec<String> {
        match &t.kind {
            BindKind::Alias(c) | BindKind::Option(c) | BindKind::List(c) => vec![c.clone()],
            BindKind::Record(fs) => fs.iter().map(|f| f.1.clone()).collect(),
            BindKind::Variant { cases, .. } => cases.iter().flatten().map(|c| c.1.clone()).collect(),
            BindKind::Result { ok, err } => ok.iter().chain(err.iter()).cloned().collect(),
            BindKind::Map { key, value, .. } => vec![key.clone(), value.clone()],
            _ => vec![],
        }
    }

    /// `t` owns memory but has no (complete) helper *because* the only members that
    /// own memory are anonymous structural types spelled with a C name shared by
    /// several binding contexts (whose helper exists, but is not wired up).
    /// the generator's notion of a world-shareable anonymous type: no WIT name
    /// anywhere inside, only list/option/tuple/map/alias over primitives and strings
    fn anon_prim(resolve: &Resolve, ty: &Type) -> bool {
        match ty {
            Type::Id(id) => {
                let t = &resolve.types[*id];
                if t.name.is_some() {
                    return false;
                }
                match &t.kind {
                    TypeDefKind::List(e) | TypeDefKind::Option(e) | TypeDefKind::Type(e) => Self::anon_prim(resolve, e),
                    TypeDefKind::Tuple(t) => t.types.iter().all(|e| Self::anon_prim(resolve, e)),
                    TypeDefKind::Map(k, v) => Self::anon_prim(resolve, k) && Self::anon_prim(resolve, v),
                    _ => false,
                }
            }
            Type::ErrorContext => false,
            _ => true,
        }
    }

    fn reach(resolve: &Resolve, ty: &Type, out: &mut BTreeSet<TypeId>) {
        if let Type::Id(id) = ty {
            if !out.insert(*id) {
                return;
            }
            match &resolve.types[*id].kind {
                TypeDefKind::Type(t) | TypeDefKind::List(t) | TypeDefKind::Option(t) | TypeDefKind::FixedLengthList(t, _) => Self::reach(resolve, t, out),
                TypeDefKind::Record(r) => r.fields.iter().for_each(|f| Self::reach(resolve, &f.ty, out)),
                TypeDefKind::Tuple(t) => t.types.iter().for_each(|t| Self::reach(resolve, t, out)),
                TypeDefKind::Variant(v) => v.cases.iter().flat_map(|c| c.ty.iter()).for_each(|t| Self::reach(resolve, t, out)),
                TypeDefKind::Result(r) => r.ok.iter().chain(r.err.iter()).for_each(|t| Self::reach(resolve, t, out)),
                TypeDefKind::Map(k, v) => {
                    Self::reach(resolve, k, out);
                    Self::reach(resolve, v, out);
                }
                TypeDefKind::Future(t) | TypeDefKind::Stream(t) => t.iter().for_each(|t| Self::reach(resolve, t, out)),
                _ => {}
            }
        }
    }

    /// type ids reachable from the import side / the export side of the world
    pub fn side_reach(resolve: &Resolve, world: WorldId) -> (BTreeSet<TypeId>, BTreeSet<TypeId>) {
        let w = &resolve.worlds[world];
        let mut sides = (BTreeSet::new(), BTreeSet::new());
        for (k, items) in [(0, &w.imports), (1, &w.exports)] {
            let out = if k == 0 { &mut sides.0 } else { &mut sides.1 };
            for (_, item) in items.iter() {
                match item {
                    WorldItem::Interface { id, .. } => {
                        let i = &resolve.interfaces[*id];
                        for (_, t) in i.types.iter() {
                            Self::reach(resolve, &Type::Id(*t), out);
                        }
                        for (_, f) in i.functions.iter() {
                            f.params.iter().for_each(|p| Self::reach(resolve, &p.ty, out));
                            f.result.iter().for_each(|t| Self::reach(resolve, t, out));
                        }
                    }
                    WorldItem::Function(f) => {
                        f.params.iter().for_each(|p| Self::reach(resolve, &p.ty, out));
                        f.result.iter().for_each(|t| Self::reach(resolve, t, out));
                    }
                    WorldItem::Type { id, .. } => Self::reach(resolve, &Type::Id(*id), out),
                }
            }
        }
        sides
    }

    /// `m` is spelled with a C name that several type ids share: either several
    /// structurally equal anonymous types exist, or one is bound in several contexts
    fn is_shared_anon(&self, resolve: &Resolve, m: &TypeBind) -> bool {
        if !matches!(m.wit, Type::Id(_)) || !Self::anon_prim(resolve, &m.wit) {
            return false;
        }
        if m.contexts.len() >= 2 {
            return true;
        }
        if let Type::Id(id) = m.wit {
            if self.sides.0.contains(&id) && self.sides.1.contains(&id) {
                return true;
            }
        }
        let abi = Abi::new(resolve, 8);
        let n = resolve.types.iter().filter(|(id, t)| t.name.is_none() && Self::anon_prim(resolve, &Type::Id(*id)) && abi.shape_key(&Type::Id(*id)) == m.shape).count();
        n >= 2
    }

    fn cause_shared(&self, resolve: &Resolve, ix: &BTreeMap<String, usize>, t: &TypeBind, depth: usize) -> bool {
        if depth > 12 {
            return false;
        }
        let ms: Vec<&TypeBind> = self.members_of(t).iter().map(|m| &self.types[ix[m]]).filter(|m| m.has_heap).collect();
        !ms.is_empty()
            && ms.iter().all(|m| {
                (self.is_shared_anon(resolve, m) && m.free_fn.is_some()) || (m.free_fn.is_none() && self.cause_shared(resolve, ix, m, depth + 1))
            })
    }

    pub fn omissions(&self, resolve: &Resolve, csrc_text: &str) -> Vec<Omission> {
        let ix = self.type_index();
        let mut out = vec![];
        for t in &self.types {
            if !t.has_heap {
                continue;
            }
            let body = t.free_fn.as_ref().and_then(|f| function_body(csrc_text, f));
            let Some(body) = body else {
                let shared = self.cause_shared(resolve, &ix, t, 0);
                out.push(Omission { parent: t.cname.clone(), member: "<self>".into(), kind: "missing-helper", shared_anon: shared });
                continue;
            };
            for m in self.members_of(t) {
                let mt = &self.types[ix[&m]];
                if !mt.has_heap {
                    continue;
                }
                match &mt.free_fn {
                    // reported on its own as `<self>`
                    None => {}
                    Some(mf) => {
                        if !body.contains(&format!("{mf}(")) {
                            out.push(Omission { parent: t.cname.clone(), member: m.clone(), kind: "not-called", shared_anon: self.is_shared_anon(resolve, mt) });
                        }
                    }
                }
            }
        }
        out
    }

    /// C type names reachable from a function's parameters and result
    pub fn reachable(&self, f: &FuncPlan) -> BTreeSet<String> {
        let ix = self.type_index();
        let mut seen = BTreeSet::new();
        let mut todo: Vec<String> = f.params.iter().map(|p| p.ctype.clone()).collect();
        match &f.ret {
            RetPlan::Void => {}
            RetPlan::Scalar { ctype, .. } | RetPlan::Out { ctype, .. } | RetPlan::OptionBool { ctype, .. } => todo.push(ctype.clone()),
            RetPlan::ResultBool { ok, err } => {
                for x in ok.iter().chain(err.iter()) {
                    todo.push(x.0.clone());
                }
            }
        }
        while let Some(c) = todo.pop() {
            if !seen.insert(c.clone()) {
                continue;
            }
            if let Some(&i) = ix.get(&c) {
                todo.extend(self.members_of(&self.types[i]));
            }
        }
        seen
    }
}
