//! Resource-specific glue (C07): a user type (unique id, drop notification)
//! per exported resource trait, `Obs` impls for generated handle types through
//! their public `handle()` / `from_handle()` / `get()` API, keep/stash hooks.
use crate::analyze::*;
use std::fmt::Write;

const SUP: &str = "::rsguest_support";

pub fn trait_index(an: &Analysis, path: &[String], ident: &str) -> Option<usize> {
    an.traits.iter().position(|x| x.ident == ident && x.path == path)
}

pub fn user_type_name(an: &Analysis, t: &TraitInfo) -> String {
    let idx = trait_index(an, &t.path, &t.ident).unwrap_or(0);
    format!("UserRes{idx}")
}

fn root_path(path: &[String], ident: &str) -> String {
    let mut s = String::from("super");
    for p in path {
        s.push_str("::");
        s.push_str(p);
    }
    s.push_str("::");
    s.push_str(ident);
    s
}

pub fn emit_resource_support(an: &Analysis, res_traits: &[&TraitInfo], o: &mut String, notes: &mut Vec<String>) {
    // user types
    for t in res_traits {
        let name = user_type_name(an, t);
        let k = trait_index(an, &t.path, &t.ident).unwrap_or(0);
        writeln!(o, "pub struct {name} {{ pub id: u32 }}").unwrap();
        writeln!(o, "impl {name} {{ pub fn create(id: u32) -> Self {{ obs::note(&format!(\"new:{k}:{{id}}\")); {name} {{ id }} }} }}").unwrap();
        writeln!(o, "impl Drop for {name} {{ fn drop(&mut self) {{ obs::note(&format!(\"drop:{k}:{{}}\", self.id)); }} }}").unwrap();
        // `-> Self` / `-> Result<Self, E>` of constructors
        writeln!(o, "impl<'obs> {SUP}::Obs<'obs> for {name} {{").unwrap();
        writeln!(o, "    fn ser(&self, s: &mut {SUP}::Ser) {{ s.handle(self.id); }}").unwrap();
        writeln!(o, "    fn de(d: &mut {SUP}::De<'obs>) -> Self {{ let id = d.handle(); {name}::create(id) }}\n}}").unwrap();
    }
    // handle types
    for (ord, h) in an.handles.iter().enumerate() {
        let ty = root_path(&h.path, &h.ident);
        if h.exported {
            let Some(user) = h.bound_trait.as_ref().and_then(|b| trait_index(an, &h.path, b)).map(|i| format!("UserRes{i}")) else {
                notes.push(format!("exported handle type {} has no matching Guest trait", h.ident));
                continue;
            };
            writeln!(o, "impl<'obs> {SUP}::Obs<'obs> for {ty} {{").unwrap();
            writeln!(o, "    fn ser(&self, s: &mut {SUP}::Ser) {{ s.handle(self.get::<{user}>().id); }}").unwrap();
            writeln!(o, "    fn de(d: &mut {SUP}::De<'obs>) -> Self {{ let id = d.handle();").unwrap();
            writeln!(o, "        match obs::stash::take_exported({ord}, id) {{ Some(b) => *b.downcast::<Self>().unwrap(), None => Self::new({user}::create(id)) }} }}").unwrap();
            // keep: stash the handle, or (when the script says so) take the user value out with the
            // generated `into_inner` and drop it: the value must then be destroyed exactly once
            writeln!(o, "    fn keep(self) {{ let id = self.get::<{user}>().id;").unwrap();
            writeln!(o, "        if obs::into_inner_mode() {{ obs::note(&format!(\"into-inner:{ord}:{{id}}\")); let verif_obj: {user} = self.into_inner::<{user}>(); drop(verif_obj); }}").unwrap();
            writeln!(o, "        else {{ obs::stash::put_exported({ord}, id, Box::new(self)); }} }}\n}}").unwrap();
            // its borrow type
            for b in an.borrows.iter().filter(|b| b.path == h.path && b.owner.as_deref() == Some(h.ident.as_str())) {
                let bty = root_path(&b.path, &b.ident);
                writeln!(o, "impl<'a> {SUP}::Obs<'a> for {bty}<'a> {{").unwrap();
                writeln!(o, "    fn ser(&self, s: &mut {SUP}::Ser) {{ s.handle(self.get::<{user}>().id); }}").unwrap();
                writeln!(o, "    fn de(d: &mut {SUP}::De<'a>) -> Self {{ d.unsupported(\"user code cannot create a borrow of its own exported resource\") }}\n}}").unwrap();
            }
        } else {
            writeln!(o, "impl<'obs> {SUP}::Obs<'obs> for {ty} {{").unwrap();
            writeln!(o, "    fn ser(&self, s: &mut {SUP}::Ser) {{ s.handle(self.handle()); }}").unwrap();
            writeln!(o, "    fn de(d: &mut {SUP}::De<'obs>) -> Self {{ let h = d.handle();").unwrap();
            writeln!(o, "        match obs::stash::take_imported({ord}, h) {{ Some(b) => *b.downcast::<Self>().unwrap(), None => d.missing_handle(h, {:?}) }} }}", h.ident).unwrap();
            writeln!(o, "    fn keep(self) {{ let h = self.handle(); obs::stash::put_imported({ord}, h, Box::new(self)); }}\n}}").unwrap();
        }
    }
    if !an.handles.is_empty() {
        writeln!(o, "fn res_clear_stash() {{ obs::stash::clear(); }}").unwrap();
        writeln!(o, "fn res_stash_len() -> usize {{ obs::stash::len() }}").unwrap();
        writeln!(o, "static RES_HOOKS: ::rsguest_host::res::GuestHooks = ::rsguest_host::res::GuestHooks {{ clear_stash: res_clear_stash, stash_len: res_stash_len }};").unwrap();
    }
}

/// `&self` methods of exported resources report which object they reached.
pub fn emit_method_prologue(an: &Analysis, t: &TraitInfo, recv: bool, o: &mut String) {
    if recv {
        let k = trait_index(an, &t.path, &t.ident).unwrap_or(0);
        writeln!(o, "            obs::note(&format!(\"self:{k}:{{}}\", self.id));").unwrap();
    }
}

/// End of life of the received arguments: kept (owned handles go to the stash)
/// or dropped, as the host's script says.
pub fn emit_dispose_args(args: &[String], o: &mut String) {
    for a in args {
        writeln!(o, "            obs::dispose({a});").unwrap();
    }
}

pub fn hooks_expr(an: &Analysis) -> String {
    if an.handles.is_empty() {
        "None".to_string()
    } else {
        "Some(&RES_HOOKS)".to_string()
    }
}
