//! Resource-specific glue (C07): user types for exported resources, serde-like
//! impls for handle types.  Minimal until the C07 harness lands.
use crate::analyze::*;

pub fn user_type_name(an: &Analysis, t: &TraitInfo) -> String {
    let idx = an.traits.iter().position(|x| x.ident == t.ident && x.path == t.path).unwrap_or(0);
    format!("UserRes{idx}")
}

pub fn emit_resource_support(_an: &Analysis, _res_traits: &[&TraitInfo], _o: &mut String, _notes: &mut Vec<String>) {}

pub fn emit_method_prologue(_sig: &syn::Signature, _recv: bool, _o: &mut String) {}

pub fn emit_constructor_body(_o: &mut String) {}

pub fn emit_keep_args(_args: &[String], _o: &mut String) {}

pub fn hooks_expr(_an: &Analysis, _res_traits: &[&TraitInfo]) -> String {
    "None".to_string()
}
