//! Syntactic analysis of the generated bindings (syn): which types exist (for
//! positional `Obs` impls), which `Guest*` traits must be implemented, which
//! public functions wrap which import declaration, which core symbols the
//! export macros define and with which Rust-level flat signature.
//!
//! Nothing here knows the Rust generator's naming scheme: items are found by
//! their syntactic role, and paired with WIT functions through link names /
//! export names, which are spec-level strings.
use anyhow::{anyhow, bail, Result};
use proc_macro2::{Delimiter, TokenStream, TokenTree};
use syn::visit::Visit;
use syn::{FnArg, ForeignItem, ImplItem, Item, ReturnType, Signature, TraitItem, Type, Visibility};

#[derive(Clone, Copy, Debug, PartialEq, Eq)]
pub enum Slot {
    I32,
    I64,
    F32,
    F64,
    Ptr,
    Len,
    PtrOrI64,
}

impl Slot {
    pub fn name(&self) -> &'static str {
        match self {
            Slot::I32 => "I32",
            Slot::I64 => "I64",
            Slot::F32 => "F32",
            Slot::F64 => "F64",
            Slot::Ptr => "Ptr",
            Slot::Len => "Len",
            Slot::PtrOrI64 => "PtrOrI64",
        }
    }
    pub fn rust(&self) -> &'static str {
        match self {
            Slot::I32 => "i32",
            Slot::I64 => "i64",
            Slot::F32 => "f32",
            Slot::F64 => "f64",
            Slot::Ptr => "*mut u8",
            Slot::Len => "usize",
            Slot::PtrOrI64 => "::core::mem::MaybeUninit<u64>",
        }
    }
    pub fn to(&self) -> &'static str {
        match self {
            Slot::I32 => "to_i32",
            Slot::I64 => "to_i64",
            Slot::F32 => "to_f32",
            Slot::F64 => "to_f64",
            Slot::Ptr => "to_ptr",
            Slot::Len => "to_len",
            Slot::PtrOrI64 => "to_ptr64",
        }
    }
    pub fn from(&self) -> &'static str {
        match self {
            Slot::I32 => "from_i32",
            Slot::I64 => "from_i64",
            Slot::F32 => "from_f32",
            Slot::F64 => "from_f64",
            Slot::Ptr => "from_ptr",
            Slot::Len => "from_len",
            Slot::PtrOrI64 => "from_ptr64",
        }
    }
}

pub fn slot_of(ty: &Type) -> Result<Slot> {
    match ty {
        Type::Ptr(_) => Ok(Slot::Ptr),
        Type::Path(p) => {
            let last = p.path.segments.last().map(|s| s.ident.to_string()).unwrap_or_default();
            match last.as_str() {
                "i32" => Ok(Slot::I32),
                "i64" => Ok(Slot::I64),
                "f32" => Ok(Slot::F32),
                "f64" => Ok(Slot::F64),
                "usize" => Ok(Slot::Len),
                "MaybeUninit" => Ok(Slot::PtrOrI64),
                other => bail!("unknown flat slot type `{other}`"),
            }
        }
        Type::Paren(p) => slot_of(&p.elem),
        other => bail!("unknown flat slot type `{}`", quote::quote!(#other)),
    }
}

#[derive(Clone, Debug)]
pub struct StructInfo {
    pub path: Vec<String>,
    pub ident: String,
    pub lifetime: Option<String>,
    pub fields: Vec<String>,
}

#[derive(Clone, Debug)]
pub struct EnumInfo {
    pub path: Vec<String>,
    pub ident: String,
    pub lifetime: Option<String>,
    /// (variant ident, has payload)
    pub variants: Vec<(String, bool)>,
}

#[derive(Clone, Debug)]
pub struct FlagsInfo {
    pub path: Vec<String>,
    pub ident: String,
    pub members: usize,
}

/// `pub struct Thing { handle: _rt::Resource<Thing> }`
#[derive(Clone, Debug)]
pub struct HandleInfo {
    pub path: Vec<String>,
    pub ident: String,
    /// has a generic `new<T: GuestX>(val: T)` constructor: an exported resource
    pub exported: bool,
    /// the `GuestX` bound of that constructor
    pub bound_trait: Option<String>,
}

/// `pub struct ThingBorrow<'a> { rep: *mut u8, _marker: .. }`
#[derive(Clone, Debug)]
pub struct BorrowInfo {
    pub path: Vec<String>,
    pub ident: String,
    /// the owned handle type named in `_marker: PhantomData<&'a Thing>`
    pub owner: Option<String>,
}

#[derive(Clone, Debug)]
pub struct TraitMethod {
    pub sig: Signature,
    pub has_default: bool,
}

#[derive(Clone, Debug)]
pub struct TraitInfo {
    pub path: Vec<String>,
    pub ident: String,
    pub methods: Vec<TraitMethod>,
    /// associated types: (name, last segment of the first bound)
    pub assoc_types: Vec<(String, String)>,
}

#[derive(Clone, Debug)]
pub enum WrapperKind {
    /// free `pub fn` in module `path`
    Free,
    /// `pub fn` in an inherent impl of `self_ty` (module `path`)
    Method { self_ty: String },
}

#[derive(Clone, Debug)]
pub struct Wrapper {
    pub path: Vec<String>,
    pub kind: WrapperKind,
    pub sig: Signature,
    /// `pub async fn` (async-lowered import, C08)
    pub is_async: bool,
}

#[derive(Clone, Debug)]
pub struct ImportDecl {
    pub link: String,
    pub params: Vec<Slot>,
    pub results: Vec<Slot>,
    pub wrapper: Option<usize>,
}

#[derive(Clone, Debug)]
pub struct ExportDecl {
    pub name: String,
    pub params: Vec<Slot>,
    pub results: Vec<Slot>,
}

#[derive(Default, Debug)]
pub struct Analysis {
    pub structs: Vec<StructInfo>,
    pub enums: Vec<EnumInfo>,
    pub flags: Vec<FlagsInfo>,
    pub handles: Vec<HandleInfo>,
    pub borrows: Vec<BorrowInfo>,
    pub traits: Vec<TraitInfo>,
    pub wrappers: Vec<Wrapper>,
    pub imports: Vec<ImportDecl>,
    pub exports: Vec<ExportDecl>,
    pub has_export_macro: bool,
    pub unsupported: Vec<String>,
    /// export names of `[callback][async-lift]..` symbols (C08): `(u32, u32, u32) -> u32`
    pub callbacks: Vec<String>,
}

struct ForeignCollector {
    found: Vec<(String, Vec<Slot>, Vec<Slot>)>,
    errors: Vec<String>,
}

fn link_name(attrs: &[syn::Attribute]) -> Option<String> {
    for a in attrs {
        if a.path().is_ident("link_name") {
            if let syn::Meta::NameValue(nv) = &a.meta {
                if let syn::Expr::Lit(syn::ExprLit { lit: syn::Lit::Str(s), .. }) = &nv.value {
                    return Some(s.value());
                }
            }
        }
    }
    None
}

impl<'ast> Visit<'ast> for ForeignCollector {
    fn visit_item_foreign_mod(&mut self, fm: &'ast syn::ItemForeignMod) {
        for it in &fm.items {
            if let ForeignItem::Fn(f) = it {
                let Some(link) = link_name(&f.attrs) else { continue };
                let mut params = vec![];
                let mut ok = true;
                for a in &f.sig.inputs {
                    if let FnArg::Typed(t) = a {
                        match slot_of(&t.ty) {
                            Ok(s) => params.push(s),
                            Err(e) => {
                                self.errors.push(format!("{link}: {e}"));
                                ok = false;
                            }
                        }
                    }
                }
                let mut results = vec![];
                if let ReturnType::Type(_, t) = &f.sig.output {
                    match slot_of(t) {
                        Ok(s) => results.push(s),
                        Err(e) => {
                            self.errors.push(format!("{link}: {e}"));
                            ok = false;
                        }
                    }
                }
                if ok {
                    self.found.push((link, params, results));
                }
            }
        }
    }
}

fn lifetime_of(g: &syn::Generics, what: &str, an: &mut Analysis) -> Option<Option<String>> {
    let mut lt = None;
    for p in &g.params {
        match p {
            syn::GenericParam::Lifetime(l) if lt.is_none() => lt = Some(l.lifetime.ident.to_string()),
            _ => {
                an.unsupported.push(format!("{what}: generics beyond one lifetime"));
                return None;
            }
        }
    }
    Some(lt)
}

/// an ordinary safe, non-generic function (what a user calls); `async fn`s are
/// the wrappers of async-lowered imports (C08; never present in sync worlds)
fn plain_sig(s: &Signature) -> bool {
    s.generics.params.is_empty() && s.unsafety.is_none()
}

fn is_pub(v: &Visibility) -> bool {
    matches!(v, Visibility::Public(_))
}

fn collect_imports(an: &mut Analysis, found: Vec<(String, Vec<Slot>, Vec<Slot>)>, wrapper: Option<usize>) {
    for (link, params, results) in found {
        if !link.starts_with("verif_import|") {
            continue;
        }
        if let Some(existing) = an.imports.iter_mut().find(|i| i.link == link) {
            if existing.wrapper.is_none() {
                existing.wrapper = wrapper;
            }
            if existing.params != params || existing.results != results {
                an.unsupported.push(format!("import `{link}` declared twice with different signatures"));
            }
            continue;
        }
        an.imports.push(ImportDecl { link, params, results, wrapper });
    }
}

fn foreign_in_block(block: &syn::Block) -> ForeignCollector {
    let mut c = ForeignCollector { found: vec![], errors: vec![] };
    c.visit_block(block);
    c
}

fn walk(items: &[Item], path: &mut Vec<String>, an: &mut Analysis) {
    for item in items {
        match item {
            Item::Mod(m) => {
                let name = m.ident.to_string();
                if name == "_rt" {
                    continue;
                }
                if let Some((_, content)) = &m.content {
                    path.push(name);
                    walk(content, path, an);
                    path.pop();
                }
            }
            Item::Struct(s) => {
                let ident = s.ident.to_string();
                let syn::Fields::Named(named) = &s.fields else { continue };
                let fields: Vec<String> = named.named.iter().map(|f| f.ident.as_ref().unwrap().to_string()).collect();
                if fields == ["handle"] {
                    an.handles.push(HandleInfo { path: path.clone(), ident, exported: false, bound_trait: None });
                    continue;
                }
                if fields.iter().any(|f| f == "rep") && fields.iter().any(|f| f == "_marker") {
                    let owner = named.named.iter().find(|f| f.ident.as_ref().map(|i| i == "_marker").unwrap_or(false)).and_then(|f| {
                        // PhantomData<&'a Thing>
                        let mut found = None;
                        struct V<'x>(&'x mut Option<String>);
                        impl<'ast, 'x> Visit<'ast> for V<'x> {
                            fn visit_type_reference(&mut self, r: &'ast syn::TypeReference) {
                                if let Type::Path(p) = &*r.elem {
                                    *self.0 = p.path.segments.last().map(|s| s.ident.to_string());
                                }
                            }
                        }
                        V(&mut found).visit_type(&f.ty);
                        found
                    });
                    an.borrows.push(BorrowInfo { path: path.clone(), ident, owner });
                    continue;
                }
                if ident.starts_with('_') || !is_pub(&s.vis) {
                    continue;
                }
                let Some(lifetime) = lifetime_of(&s.generics, &ident, an) else { continue };
                an.structs.push(StructInfo { path: path.clone(), ident, lifetime, fields });
            }
            Item::Enum(e) => {
                let ident = e.ident.to_string();
                if !is_pub(&e.vis) {
                    continue;
                }
                let Some(lifetime) = lifetime_of(&e.generics, &ident, an) else { continue };
                let mut variants = vec![];
                let mut ok = true;
                for v in &e.variants {
                    match &v.fields {
                        syn::Fields::Unit => variants.push((v.ident.to_string(), false)),
                        syn::Fields::Unnamed(u) if u.unnamed.len() == 1 => variants.push((v.ident.to_string(), true)),
                        _ => {
                            an.unsupported.push(format!("enum {ident}: variant {} has an unexpected field list", v.ident));
                            ok = false;
                        }
                    }
                }
                if ok {
                    an.enums.push(EnumInfo { path: path.clone(), ident, lifetime, variants });
                }
            }
            Item::Macro(m) => {
                let last = m.mac.path.segments.last().map(|s| s.ident.to_string()).unwrap_or_default();
                if last == "bitflags" {
                    match parse_bitflags(m.mac.tokens.clone()) {
                        Some((ident, members)) => an.flags.push(FlagsInfo { path: path.clone(), ident, members }),
                        None => an.unsupported.push("bitflags! block not understood".into()),
                    }
                } else if last == "macro_rules" {
                    scan_exports(m.mac.tokens.clone(), an);
                }
            }
            Item::Use(u) => {
                // `pub(crate) use __export_x_impl as export;`
                fn renames_to_export(t: &syn::UseTree) -> bool {
                    match t {
                        syn::UseTree::Rename(r) => r.rename == "export",
                        syn::UseTree::Path(p) => renames_to_export(&p.tree),
                        syn::UseTree::Group(g) => g.items.iter().any(renames_to_export),
                        _ => false,
                    }
                }
                if path.is_empty() && renames_to_export(&u.tree) {
                    an.has_export_macro = true;
                }
            }
            Item::Trait(t) => {
                let ident = t.ident.to_string();
                let mut methods = vec![];
                let mut assoc_types = vec![];
                for it in &t.items {
                    match it {
                        TraitItem::Fn(f) => {
                            if let Some(b) = &f.default {
                                let c = foreign_in_block(b);
                                an.unsupported.extend(c.errors);
                                collect_imports(an, c.found, None);
                            }
                            methods.push(TraitMethod { sig: f.sig.clone(), has_default: f.default.is_some() });
                        }
                        TraitItem::Type(ty) => {
                            let bound = ty
                                .bounds
                                .iter()
                                .find_map(|b| if let syn::TypeParamBound::Trait(tb) = b { tb.path.segments.last().map(|s| s.ident.to_string()) } else { None })
                                .unwrap_or_default();
                            assoc_types.push((ty.ident.to_string(), bound));
                        }
                        _ => {}
                    }
                }
                if ident.starts_with("Guest") {
                    an.traits.push(TraitInfo { path: path.clone(), ident, methods, assoc_types });
                }
            }
            Item::Fn(f) => {
                let c = foreign_in_block(&f.block);
                an.unsupported.extend(c.errors);
                let is_wrapper = is_pub(&f.vis) && plain_sig(&f.sig) && c.found.iter().any(|(l, _, _)| l.starts_with("verif_import|"));
                let w = if is_wrapper {
                    an.wrappers.push(Wrapper { path: path.clone(), kind: WrapperKind::Free, sig: f.sig.clone(), is_async: f.sig.asyncness.is_some() });
                    Some(an.wrappers.len() - 1)
                } else {
                    None
                };
                collect_imports(an, c.found, w);
            }
            Item::Impl(i) => {
                let self_ty = match &*i.self_ty {
                    Type::Path(p) => p.path.segments.last().map(|s| s.ident.to_string()).unwrap_or_default(),
                    _ => String::new(),
                };
                for it in &i.items {
                    if let ImplItem::Fn(f) = it {
                        // exported-resource handle types have `new<T: GuestX>(val: T)`
                        if i.trait_.is_none() && f.sig.ident == "new" && !f.sig.generics.params.is_empty() {
                            let bound = f.sig.generics.params.iter().find_map(|p| match p {
                                syn::GenericParam::Type(t) => t.bounds.iter().find_map(|b| match b {
                                    syn::TypeParamBound::Trait(tb) => tb.path.segments.last().map(|s| s.ident.to_string()),
                                    _ => None,
                                }),
                                _ => None,
                            });
                            if let Some(h) = an.handles.iter_mut().find(|h| h.ident == self_ty && h.path == *path) {
                                h.exported = true;
                                h.bound_trait = bound;
                            }
                        }
                        let c = foreign_in_block(&f.block);
                        an.unsupported.extend(c.errors);
                        let is_wrapper = i.trait_.is_none() && is_pub(&f.vis) && plain_sig(&f.sig) && c.found.iter().any(|(l, _, _)| l.starts_with("verif_import|"));
                        let w = if is_wrapper {
                            an.wrappers.push(Wrapper { path: path.clone(), kind: WrapperKind::Method { self_ty: self_ty.clone() }, sig: f.sig.clone(), is_async: f.sig.asyncness.is_some() });
                            Some(an.wrappers.len() - 1)
                        } else {
                            None
                        };
                        collect_imports(an, c.found, w);
                    }
                }
            }
            _ => {}
        }
    }
}

/// `#[derive(..)] pub struct Name: u8 { const A = 1 << 0; ... }`
fn parse_bitflags(ts: TokenStream) -> Option<(String, usize)> {
    let toks: Vec<TokenTree> = ts.into_iter().collect();
    let mut i = 0;
    while i < toks.len() {
        if let TokenTree::Ident(id) = &toks[i] {
            if id == "struct" {
                let name = match toks.get(i + 1) {
                    Some(TokenTree::Ident(n)) => n.to_string(),
                    _ => return None,
                };
                for t in &toks[i + 2..] {
                    if let TokenTree::Group(g) = t {
                        if g.delimiter() == Delimiter::Brace {
                            let members = g.stream().into_iter().filter(|t| matches!(t, TokenTree::Ident(id) if id == "const")).count();
                            return Some((name, members));
                        }
                    }
                }
                return None;
            }
        }
        i += 1;
    }
    None
}

struct ArgList(Vec<Type>);
impl syn::parse::Parse for ArgList {
    fn parse(input: syn::parse::ParseStream) -> syn::Result<Self> {
        let args = syn::punctuated::Punctuated::<FnArg, syn::Token![,]>::parse_terminated(input)?;
        let mut out = vec![];
        for a in args {
            match a {
                FnArg::Typed(t) => out.push(*t.ty),
                FnArg::Receiver(_) => return Err(input.error("receiver in an extern fn")),
            }
        }
        Ok(ArgList(out))
    }
}

fn literal_in(ts: TokenStream) -> Option<String> {
    let mut want = false;
    for t in ts {
        match t {
            TokenTree::Group(g) => {
                if let Some(s) = literal_in(g.stream()) {
                    return Some(s);
                }
            }
            TokenTree::Ident(id) if id == "export_name" => want = true,
            TokenTree::Literal(l) if want => {
                let lit: syn::Lit = syn::parse_str(&l.to_string()).ok()?;
                if let syn::Lit::Str(s) = lit {
                    return Some(s.value());
                }
            }
            _ => {}
        }
    }
    None
}

/// Find `#[unsafe(export_name = "..")] unsafe extern "C" fn name(args) -> ret {`
/// inside a macro body (any nesting).
fn scan_exports(ts: TokenStream, an: &mut Analysis) {
    let toks: Vec<TokenTree> = ts.into_iter().collect();
    let mut i = 0;
    while i < toks.len() {
        match &toks[i] {
            TokenTree::Punct(p) if p.as_char() == '#' => {
                if let Some(TokenTree::Group(g)) = toks.get(i + 1) {
                    if g.delimiter() == Delimiter::Bracket {
                        if let Some(name) = literal_in(g.stream()) {
                            // find `fn`
                            let mut j = i + 2;
                            while j < toks.len() && !matches!(&toks[j], TokenTree::Ident(id) if id == "fn") {
                                j += 1;
                            }
                            // fn ident (args)
                            if let (Some(TokenTree::Ident(_)), Some(TokenTree::Group(args))) = (toks.get(j + 1), toks.get(j + 2)) {
                                let mut k = j + 3;
                                let mut ret = TokenStream::new();
                                let mut arrow = 0;
                                while k < toks.len() {
                                    match &toks[k] {
                                        TokenTree::Group(b) if b.delimiter() == Delimiter::Brace => break,
                                        TokenTree::Punct(p) if arrow < 2 && (p.as_char() == '-' || p.as_char() == '>') => arrow += 1,
                                        t => ret.extend([t.clone()]),
                                    }
                                    k += 1;
                                }
                                if name.contains("[callback]") {
                                    // `(event0: u32, event1: u32, event2: u32) -> u32`: called through dedicated glue
                                    an.callbacks.push(name.clone());
                                    i = k;
                                    continue;
                                }
                                let res = (|| -> Result<ExportDecl> {
                                    let al: ArgList = syn::parse2(args.stream()).map_err(|e| anyhow!("export `{name}`: {e}"))?;
                                    let params = al.0.iter().map(slot_of).collect::<Result<Vec<_>>>()?;
                                    let results = if ret.is_empty() {
                                        vec![]
                                    } else {
                                        let t: Type = syn::parse2(ret).map_err(|e| anyhow!("export `{name}` return type: {e}"))?;
                                        vec![slot_of(&t)?]
                                    };
                                    Ok(ExportDecl { name: name.clone(), params, results })
                                })();
                                match res {
                                    Ok(d) => an.exports.push(d),
                                    Err(e) => an.unsupported.push(format!("{e:#}")),
                                }
                                i = k;
                                continue;
                            }
                        }
                    }
                }
            }
            TokenTree::Group(g) => scan_exports(g.stream(), an),
            _ => {}
        }
        i += 1;
    }
}

pub fn analyze(src: &str) -> Result<Analysis> {
    let file = syn::parse_file(src).map_err(|e| anyhow!("generated bindings do not parse as Rust: {e}"))?;
    let mut an = Analysis::default();
    walk(&file.items, &mut vec![], &mut an);
    Ok(an)
}
