//! Emission of `glue.rs` from the analysis of the generated bindings.
//!
//! `glue.rs` is included as `bindings::verif_glue` (a child of the generated
//! root module, so the generated private items `_rt` and the export macro are
//! visible); `super` is therefore the root of the generated bindings.
use crate::analyze::*;
use quote::ToTokens;
use std::fmt::Write;
use syn::visit_mut::VisitMut;

const SUP: &str = "::rsguest_support";
const HOST: &str = "::rsguest_host";

fn root_path(path: &[String], ident: &str) -> String {
    let mut s = String::from("super");
    for p in path {
        s.push_str("::");
        s.push_str(p);
    }
    if !ident.is_empty() {
        s.push_str("::");
        s.push_str(ident);
    }
    s
}

/// header pieces: (impl generics, type suffix, lifetime name)
fn lt_parts(lifetime: &Option<String>) -> (String, String, String) {
    match lifetime {
        Some(l) => (format!("<'{l}>"), format!("<'{l}>"), format!("'{l}")),
        None => ("<'obs>".to_string(), String::new(), "'obs".to_string()),
    }
}

fn emit_obs_impls(an: &Analysis, o: &mut String) {
    // `keep` only matters when the world has resource handles
    let with_keep = !an.handles.is_empty();
    for s in &an.structs {
        let (ig, suffix, lt) = lt_parts(&s.lifetime);
        let ty = root_path(&s.path, &s.ident);
        writeln!(o, "impl{ig} {SUP}::Obs<{lt}> for {ty}{suffix} {{").unwrap();
        writeln!(o, "    fn ser(&self, s: &mut {SUP}::Ser) {{ s.begin_record();").unwrap();
        for (i, f) in s.fields.iter().enumerate() {
            writeln!(o, "        s.field({i}, &self.{f});").unwrap();
        }
        writeln!(o, "        s.end_record(); }}").unwrap();
        writeln!(o, "    fn de(d: &mut {SUP}::De<{lt}>) -> Self {{ d.begin_record();").unwrap();
        for (i, _) in s.fields.iter().enumerate() {
            writeln!(o, "        let v{i} = d.field({i});").unwrap();
        }
        write!(o, "        d.end_record(); Self {{ ").unwrap();
        for (i, f) in s.fields.iter().enumerate() {
            write!(o, "{f}: v{i}, ").unwrap();
        }
        writeln!(o, "}} }}").unwrap();
        if with_keep {
            write!(o, "    fn keep(self) {{ let Self {{ ").unwrap();
            for (i, f) in s.fields.iter().enumerate() {
                write!(o, "{f}: v{i}, ").unwrap();
            }
            write!(o, "}} = self; ").unwrap();
            for (i, _) in s.fields.iter().enumerate() {
                write!(o, "{SUP}::Obs::keep(v{i}); ").unwrap();
            }
            writeln!(o, "}}").unwrap();
        }
        writeln!(o, "}}").unwrap();
    }
    for e in &an.enums {
        let (ig, suffix, lt) = lt_parts(&e.lifetime);
        let ty = root_path(&e.path, &e.ident);
        writeln!(o, "impl{ig} {SUP}::Obs<{lt}> for {ty}{suffix} {{").unwrap();
        writeln!(o, "    fn ser(&self, s: &mut {SUP}::Ser) {{ match self {{").unwrap();
        for (i, (v, payload)) in e.variants.iter().enumerate() {
            if *payload {
                writeln!(o, "        Self::{v}(p) => s.case_with({i}, p),").unwrap();
            } else {
                writeln!(o, "        Self::{v} => s.case({i}),").unwrap();
            }
        }
        writeln!(o, "    }} }}").unwrap();
        writeln!(o, "    fn de(d: &mut {SUP}::De<{lt}>) -> Self {{ match d.case() {{").unwrap();
        for (i, (v, payload)) in e.variants.iter().enumerate() {
            if *payload {
                writeln!(o, "        {i} => Self::{v}(d.payload()),").unwrap();
            } else {
                writeln!(o, "        {i} => Self::{v},").unwrap();
            }
        }
        writeln!(o, "        n => d.bad_case(n, {:?}),", e.ident).unwrap();
        writeln!(o, "    }} }}").unwrap();
        if with_keep {
            writeln!(o, "    fn keep(self) {{ match self {{").unwrap();
            for (v, payload) in e.variants.iter() {
                if *payload {
                    writeln!(o, "        Self::{v}(p) => {SUP}::Obs::keep(p),").unwrap();
                } else {
                    writeln!(o, "        Self::{v} => {{}}").unwrap();
                }
            }
            writeln!(o, "    }} }}").unwrap();
        }
        writeln!(o, "}}").unwrap();
    }
    for f in &an.flags {
        let ty = root_path(&f.path, &f.ident);
        let n = f.members;
        writeln!(o, "impl<'obs> {SUP}::Obs<'obs> for {ty} {{").unwrap();
        writeln!(o, "    fn ser(&self, s: &mut {SUP}::Ser) {{ s.flags(self.bits() as u128, {n}); }}").unwrap();
        writeln!(o, "    fn de(d: &mut {SUP}::De<'obs>) -> Self {{ Self::from_bits_retain(d.flags({n}) as _) }}\n}}").unwrap();
    }
}

/// Rewrites `self::` / `super::` leading paths of a signature copied out of
/// module `path` so that they resolve from `verif_glue::<some child module>`.
struct Rebase<'a> {
    path: &'a [String],
}

impl<'a> VisitMut for Rebase<'a> {
    fn visit_path_mut(&mut self, p: &mut syn::Path) {
        syn::visit_mut::visit_path_mut(self, p);
        if p.leading_colon.is_some() {
            return;
        }
        let first = p.segments.first().map(|s| s.ident.to_string()).unwrap_or_default();
        if first != "super" && first != "self" {
            return;
        }
        let mut depth = self.path.len();
        let mut segs: Vec<syn::PathSegment> = p.segments.iter().cloned().collect();
        while let Some(s) = segs.first() {
            if s.ident == "super" {
                depth = depth.saturating_sub(1);
                segs.remove(0);
            } else if s.ident == "self" {
                segs.remove(0);
            } else {
                break;
            }
        }
        let mut text = String::from("super::super");
        for m in &self.path[..depth] {
            text.push_str("::");
            text.push_str(m);
        }
        let mut np: syn::Path = syn::parse_str(&text).unwrap();
        for s in segs {
            np.segments.push(s);
        }
        *p = np;
    }
}

fn arg_idents(sig: &syn::Signature) -> Vec<String> {
    sig.inputs
        .iter()
        .filter_map(|a| match a {
            syn::FnArg::Typed(t) => match &*t.pat {
                syn::Pat::Ident(i) => Some(i.ident.to_string()),
                _ => None,
            },
            _ => None,
        })
        .collect()
}

fn has_receiver(sig: &syn::Signature) -> bool {
    sig.inputs.iter().any(|a| matches!(a, syn::FnArg::Receiver(_)))
}

pub struct Glue {
    pub text: String,
    pub notes: Vec<String>,
}

const C08: &str = "::c08_host";

pub fn emit(an: &Analysis, wit: &str, world: &str, opts_json: &str, async_mode: bool) -> Glue {
    let mut o = String::new();
    let mut notes = vec![];
    writeln!(o, "// generated by rsguest: echo machine derived from the syntax of the bindings").unwrap();
    writeln!(o, "use {HOST}::{{conv, CoreVal, ExportEntry, ImportEntry, Slot, Tables}};").unwrap();
    writeln!(o, "use {SUP}::obs;").unwrap();
    writeln!(o, "pub struct Impl;").unwrap();
    emit_obs_impls(an, &mut o);

    // ---- resources (C07): one user type per exported resource trait
    let res_traits: Vec<&TraitInfo> = an.traits.iter().filter(|t| t.ident != "Guest").collect();
    crate::emit_res::emit_resource_support(an, &res_traits, &mut o, &mut notes);

    // ---- Guest trait impls
    let mut ordinal = 0u32;
    for (k, t) in an.traits.iter().enumerate() {
        let module = root_path(&t.path, "").replacen("super", "super::super", 1);
        writeln!(o, "mod g{k} {{").unwrap();
        writeln!(o, "    #![allow(warnings)]").unwrap();
        writeln!(o, "    use {module}::*;").unwrap();
        writeln!(o, "    use super::super::_rt;").unwrap();
        writeln!(o, "    use {SUP}::obs;").unwrap();
        let is_res = t.ident != "Guest";
        let self_ty = if is_res { format!("super::{}", crate::emit_res::user_type_name(an, t)) } else { "super::Impl".to_string() };
        writeln!(o, "    impl {} for {self_ty} {{", t.ident).unwrap();
        for (name, bound) in &t.assoc_types {
            // `type Thing: GuestThing;` -> the user type implementing GuestThing in the same module
            match an.traits.iter().find(|x| x.ident == *bound && x.path == t.path) {
                Some(rt) => writeln!(o, "        type {name} = super::{};", crate::emit_res::user_type_name(an, rt)).unwrap(),
                None => notes.push(format!("associated type {name}: {bound} has no matching trait")),
            }
        }
        for m in &t.methods {
            if m.has_default {
                continue;
            }
            let mut sig = m.sig.clone();
            Rebase { path: &t.path }.visit_signature_mut(&mut sig);
            let args = arg_idents(&sig);
            let recv = has_receiver(&sig);
            ordinal += 1;
            writeln!(o, "        {} {{", sig.to_token_stream()).unwrap();
            writeln!(o, "            obs::enter({ordinal});").unwrap();
            let is_async_fn = sig.asyncness.is_some();
            if is_async_fn && async_mode {
                // suspension points chosen by the host script (C08): before the arguments are observed ...
                writeln!(o, "            for _ in 0..{C08}::guest::yields(0) {{ ::wit_bindgen::yield_async().await; }}").unwrap();
            }
            if is_res {
                crate::emit_res::emit_method_prologue(an, t, recv, &mut o);
            }
            for a in &args {
                writeln!(o, "            obs::arg(&{a});").unwrap();
            }
            writeln!(o, "            let verif_script = obs::next_script();").unwrap();
            writeln!(o, "            let verif_arena = obs::Arena::new();").unwrap();
            writeln!(o, "            let verif_ret = obs::build(&verif_script, &verif_arena);").unwrap();
            if !an.handles.is_empty() {
                crate::emit_res::emit_dispose_args(&args, &mut o);
            }
            if is_async_fn && async_mode {
                // ... and after the result has been built (the result is then held across the suspension)
                writeln!(o, "            for _ in 0..{C08}::guest::yields(1) {{ ::wit_bindgen::yield_async().await; }}").unwrap();
            }
            writeln!(o, "            verif_ret").unwrap();
            writeln!(o, "        }}").unwrap();
        }
        writeln!(o, "    }}\n}}").unwrap();
    }
    if an.has_export_macro {
        writeln!(o, "super::export!(Impl with_types_in super);").unwrap();
    }

    // ---- import drivers
    let mut driver_of: Vec<Option<String>> = vec![None; an.wrappers.len()];
    for (k, w) in an.wrappers.iter().enumerate() {
        let recv = has_receiver(&w.sig);
        let nargs = w.sig.inputs.iter().filter(|a| matches!(a, syn::FnArg::Typed(_))).count();
        let name = format!("drive_{k}");
        if w.is_async {
            // async-lowered import (C08): one async body, run either by `block_on` or as a task
            // (`start_task` + callbacks driven by the mock host)
            writeln!(o, "fn {name}() {{ ::wit_bindgen::rt::async_support::block_on({name}_body()) }}").unwrap();
            writeln!(o, "fn {name}_task() -> u32 {{").unwrap();
            writeln!(o, "    ::wit_bindgen::rt::async_support::start_task(async move {{").unwrap();
            writeln!(o, "        let verif_guard = ::wit_bindgen::rt::async_support::TaskCancelOnDrop::new();").unwrap();
            writeln!(o, "        {name}_body().await;").unwrap();
            writeln!(o, "        {C08}::guest::driver_task_return();").unwrap();
            writeln!(o, "        verif_guard.forget();").unwrap();
            writeln!(o, "    }}) as u32").unwrap();
            writeln!(o, "}}").unwrap();
            writeln!(o, "async fn {name}_body() {{").unwrap();
        } else {
            writeln!(o, "fn {name}() {{").unwrap();
        }
        writeln!(o, "    let arena = obs::Arena::new();").unwrap();
        let callee = match &w.kind {
            WrapperKind::Free => root_path(&w.path, &w.sig.ident.to_string()),
            WrapperKind::Method { self_ty } => format!("{}::{}", root_path(&w.path, self_ty), w.sig.ident),
        };
        let mut call_args = vec![];
        if recv {
            // `&self` of an imported resource: a borrowed handle from the script
            let WrapperKind::Method { self_ty } = &w.kind else { unreachable!() };
            writeln!(o, "    let s_self = obs::next_script();").unwrap();
            writeln!(o, "    let a_self: &{} = obs::build(&s_self, &arena);", root_path(&w.path, self_ty)).unwrap();
            call_args.push("a_self".to_string());
        }
        for i in 0..nargs {
            writeln!(o, "    let s{i} = obs::next_script();").unwrap();
            writeln!(o, "    let a{i} = obs::build(&s{i}, &arena);").unwrap();
            call_args.push(format!("a{i}"));
        }
        writeln!(o, "    let r = {callee}({}){};", call_args.join(", "), if w.is_async { ".await" } else { "" }).unwrap();
        writeln!(o, "    obs::result(&r);").unwrap();
        if !an.handles.is_empty() {
            writeln!(o, "    obs::dispose(r);").unwrap();
        }
        writeln!(o, "}}").unwrap();
        driver_of[k] = Some(name);
    }

    // ---- native call glue for exports
    for (k, e) in an.exports.iter().enumerate() {
        writeln!(o, "unsafe fn call_exp_{k}(a: &[CoreVal]) -> Option<CoreVal> {{").unwrap();
        let params: Vec<String> = e.params.iter().map(|s| format!("_: {}", s.rust())).collect();
        let ret = e.results.first().map(|s| format!(" -> {}", s.rust())).unwrap_or_default();
        writeln!(o, "    unsafe extern \"C\" {{ #[link_name = {:?}] fn f({}){ret}; }}", e.name, params.join(", ")).unwrap();
        let args: Vec<String> = e.params.iter().enumerate().map(|(i, s)| format!("conv::{}(&a[{i}])", s.to())).collect();
        match e.results.first() {
            Some(s) => writeln!(o, "    let r = f({}); Some(conv::{}(r))", args.join(", "), s.from()).unwrap(),
            None => writeln!(o, "    f({}); None", args.join(", ")).unwrap(),
        }
        writeln!(o, "}}").unwrap();
    }
    // ---- import symbols
    for (k, i) in an.imports.iter().enumerate() {
        let params: Vec<String> = i.params.iter().enumerate().map(|(j, s)| format!("a{j}: {}", s.rust())).collect();
        let ret = i.results.first().map(|s| format!(" -> {}", s.rust())).unwrap_or_default();
        writeln!(o, "#[unsafe(export_name = {:?})]", i.link).unwrap();
        writeln!(o, "unsafe extern \"C\" fn imp_{k}({}){ret} {{", params.join(", ")).unwrap();
        let vals: Vec<String> = i.params.iter().enumerate().map(|(j, s)| format!("conv::{}(a{j})", s.from())).collect();
        writeln!(o, "    let flat: [CoreVal; {}] = [{}];", vals.len(), vals.join(", ")).unwrap();
        writeln!(o, "    let r = {}::import_called({k}, &flat);", if async_mode { C08 } else { HOST }).unwrap();
        if let Some(s) = i.results.first() {
            writeln!(o, "    conv::{}(&r.unwrap_or(CoreVal::I64(0)))", s.to()).unwrap();
        }
        writeln!(o, "}}").unwrap();
    }
    // ---- tables
    let slots = |v: &[Slot]| v.iter().map(|s| format!("Slot::{}", s.name())).collect::<Vec<_>>().join(", ");
    writeln!(o, "pub static EXPORTS: &[ExportEntry] = &[").unwrap();
    for (k, e) in an.exports.iter().enumerate() {
        writeln!(o, "    ExportEntry {{ name: {:?}, params: &[{}], results: &[{}], call: call_exp_{k} }},", e.name, slots(&e.params), slots(&e.results)).unwrap();
    }
    writeln!(o, "];").unwrap();
    writeln!(o, "pub static IMPORTS: &[ImportEntry] = &[").unwrap();
    for i in an.imports.iter() {
        let d = i.wrapper.and_then(|w| driver_of[w].clone()).map(|d| format!("Some({d})")).unwrap_or("None".into());
        writeln!(o, "    ImportEntry {{ link: {:?}, params: &[{}], results: &[{}], driver: {d} }},", i.link, slots(&i.params), slots(&i.results)).unwrap();
    }
    writeln!(o, "];").unwrap();
    if async_mode {
        for (k, name) in an.callbacks.iter().enumerate() {
            writeln!(o, "unsafe fn call_cb_{k}(e0: u32, e1: u32, e2: u32) -> u32 {{").unwrap();
            writeln!(o, "    unsafe extern \"C\" {{ #[link_name = {name:?}] fn f(a: u32, b: u32, c: u32) -> u32; }}").unwrap();
            writeln!(o, "    f(e0, e1, e2)").unwrap();
            writeln!(o, "}}").unwrap();
        }
        writeln!(o, "unsafe fn rt_callback(e0: u32, e1: u32, e2: u32) -> u32 {{ ::wit_bindgen::rt::async_support::callback(e0, e1, e2) }}").unwrap();
        writeln!(o, "pub static ASYNC_TABLES: {C08}::AsyncTables = {C08}::AsyncTables {{").unwrap();
        writeln!(o, "    callbacks: &[").unwrap();
        for (k, name) in an.callbacks.iter().enumerate() {
            writeln!(o, "        ({name:?}, call_cb_{k}),").unwrap();
        }
        writeln!(o, "    ],").unwrap();
        writeln!(o, "    task_drivers: &[").unwrap();
        for i in an.imports.iter() {
            if let Some(w) = i.wrapper {
                if an.wrappers[w].is_async {
                    if let Some(d) = &driver_of[w] {
                        writeln!(o, "        ({:?}, {d}_task),", i.link).unwrap();
                    }
                }
            }
        }
        writeln!(o, "    ],").unwrap();
        writeln!(o, "    rt_callback,").unwrap();
        writeln!(o, "}};").unwrap();
    }
    let hooks = crate::emit_res::hooks_expr(an);
    writeln!(
        o,
        "pub static TABLES: Tables = Tables {{ wit: {wit:?}, world: {world:?}, opts: {opts_json:?}, exports: EXPORTS, imports: IMPORTS, res_hooks: {hooks} }};"
    )
    .unwrap();

    // pretty-print when the text parses (it always should); keep raw otherwise
    let text = match syn::parse_file(&o) {
        Ok(f) => prettyplease::unparse(&f),
        Err(e) => {
            notes.push(format!("glue does not parse: {e}"));
            o
        }
    };
    Glue { text, notes }
}
