//! C08 (`--mode async`): every world is emitted in several *variants* that
//! differ only in how functions are bound:
//!
//! * `s` — everything sync (the reference run),
//! * `i` — every import async (`--async import:<f>` per function),
//! * `e` — every export async (`--async export:<f>`),
//! * `b` — everything async (`--async all`),
//! * `m` — a random subset of imports and exports async (thorough),
//! * `w` — no `--async` directive, but a random subset of the functions is
//!         declared `async func` in the WIT itself (the `s` variant of the same
//!         world is the same text without the keyword).
//!
//! Package `a<NNN><variant>`; all variants of one world share the generator
//! configuration.  Stream / future *types* are not generated (first version of
//! C08: async functions only), fixed-length lists are left out (their defects
//! are C05/C06 findings).
use crate::{build_world_ex, write_if_changed, GenOpts, WorldSrc};
use serde_json::{json, Value};
use std::fs;
use std::path::Path;
use vkit::{Args, Rng};
use wit_parser::{WorldItem, WorldKey};

/// Directed world: the canonical-ABI limits that matter for async glue
/// (4/5 flat async-lower params, 16/17 flat lift params, 0/1/16/17 flat
/// results), with and without heap data.  Runs at every seed, so the known
/// finding `rust-async:export:indirect-param-record-never-freed` (p17*) is
/// re-observed at every seed.
fn directed_world() -> WorldSrc {
    let u = |n: usize| (0..n).map(|i| format!("p{i}: u32")).collect::<Vec<_>>().join(", ");
    let t = |n: usize| vec!["u32"; n].join(", ");
    let mut b = String::new();
    b.push_str("  p0: func() -> u32;\n");
    b.push_str("  p0-r0: func();\n");
    b.push_str("  p1-s: func(a: string) -> string;\n");
    b.push_str(&format!("  p4: func({}) -> u64;\n", u(4)));
    b.push_str(&format!("  p5: func({}) -> tuple<u32, u32>;\n", u(5)));
    b.push_str("  p4-s: func(a: string, b: list<u8>) -> list<string>;\n");
    b.push_str("  p5-s: func(a: string, b: string, c: u8) -> string;\n");
    b.push_str(&format!("  p16: func({}) -> u32;\n", u(16)));
    b.push_str(&format!("  p17: func({}) -> u32;\n", u(17)));
    b.push_str("  p17-s: func(a: string, b: string, c: string, d: string, e: string, f: string, g: string, h: string, i: u8) -> list<string>;\n");
    b.push_str("  r0-s: func(a: list<string>);\n");
    b.push_str(&format!("  r16: func() -> tuple<{}>;\n", t(16)));
    b.push_str(&format!("  r17: func() -> tuple<{}>;\n", t(17)));
    b.push_str("  mixed: func(a: u8, b: f32, c: u64, d: f64, e: list<u8>, f: option<u64>, g: result<f32, u64>, h: tuple<u8, u64>, i: char, j: bool) -> result<tuple<u8, u64>, string>;\n");
    b.push_str("  opt: func(a: option<string>, b: result<list<u16>, string>) -> option<list<string>>;\n");
    let wit = format!("package verif:directed;\n\ninterface lim {{\n{b}}}\n\nworld async-limits {{\n  import lim;\n  export lim;\n  import wf: func(a: string, n: u64) -> string;\n  export wf2: func(a: list<string>) -> u32;\n}}\n");
    WorldSrc { wit, origin: "directed:async-limits".into(), tags: vec!["directed".into()] }
}

/// Directed world for the canonical-ABI rule "a task holds no borrows when it
/// calls task.return": exports taking `borrow<R>` of an *imported* resource
/// (lifted through a temporary own-like handle whose drop is `resource.drop`).
fn directed_borrow_world() -> WorldSrc {
    let wit = "package verif:borrows;\n\ninterface things {\n  resource thing;\n}\n\nworld async-borrows {\n  import things;\n  use things.{thing};\n  export use-one: func(t: borrow<thing>) -> u32;\n  export use-two: func(a: borrow<thing>, s: string, b: borrow<thing>) -> string;\n  export use-none: func(t: borrow<thing>);\n  export in-opt: func(o: option<borrow<thing>>, n: u64) -> u32;\n  export in-tuple: func(p: tuple<borrow<thing>, string>, q: borrow<thing>) -> list<string>;\n  export no-handle: func(s: string) -> string;\n}\n".to_string();
    WorldSrc { wit, origin: "directed:async-borrows".into(), tags: vec!["directed".into(), "resource".into()] }
}

fn witgen_cfg(rng: &mut Rng) -> witgen::Cfg {
    let mut c = witgen::Cfg::default();
    c.names = witgen::Names::Simple;
    c.resources = false;
    c.async_ = false;
    c.error_context = false;
    c.fixed_lists = false;
    // maps and world-level functions do not compile together (lead for C09)
    c.maps = rng.chance(1, 3);
    c.world_funcs = !c.maps;
    c.docs = false;
    c.multi_pkg = false;
    c.max_depth = 3;
    c.ifaces = 2;
    c.funcs = 5;
    c.types = 5;
    c.max_params = 6;
    c
}

/// (is_import, `--async` name of the function: `iface#f` or `f`)
fn function_keys(wit: &str) -> Result<Vec<(bool, String)>, String> {
    let (resolve, world) = witgen::parse(wit).map_err(|e| format!("{e:#}"))?;
    let w = &resolve.worlds[world];
    let mut out = vec![];
    for (is_import, items) in [(true, &w.imports), (false, &w.exports)] {
        for (key, item) in items.iter() {
            match item {
                WorldItem::Interface { id, .. } => {
                    let k = match key {
                        WorldKey::Name(n) => n.clone(),
                        WorldKey::Interface(_) => resolve.name_world_key(key),
                    };
                    for (_, f) in resolve.interfaces[*id].functions.iter() {
                        out.push((is_import, format!("{k}#{}", f.name)));
                    }
                }
                WorldItem::Function(f) => out.push((is_import, f.name.clone())),
                _ => {}
            }
        }
    }
    Ok(out)
}

/// Known generator defect (lead for C09): with `raw_strings`, lowering an owned
/// string (export results; every parameter of an async import) emits
/// `.into_bytes()` on a `Vec<u8>`, which does not compile.
fn any_string(wit: &str) -> bool {
    let Ok((resolve, world)) = witgen::parse(wit) else { return false };
    let abi = cabi_ref::Abi::new(&resolve, 4);
    let w = &resolve.worlds[world];
    for (_, item) in w.imports.iter().chain(w.exports.iter()) {
        let funcs: Vec<&wit_parser::Function> = match item {
            WorldItem::Interface { id, .. } => resolve.interfaces[*id].functions.values().collect(),
            WorldItem::Function(f) => vec![f],
            _ => vec![],
        };
        for f in funcs {
            if f.params.iter().map(|p| &p.ty).chain(f.result.iter()).any(|t| crate::contains_string(&abi, t, 0)) {
                return true;
            }
        }
    }
    false
}

/// `name: func(` -> `name: async func(` for the occurrences selected by `pick`
fn wit_async(wit: &str, mut pick: impl FnMut(usize) -> bool) -> (String, usize) {
    let mut out = String::new();
    let mut rest = wit;
    let mut k = 0;
    let mut n = 0;
    while let Some(i) = rest.find(": func(") {
        out.push_str(&rest[..i]);
        if pick(k) {
            out.push_str(": async func(");
            n += 1;
        } else {
            out.push_str(": func(");
        }
        k += 1;
        rest = &rest[i + ": func(".len()..];
    }
    out.push_str(rest);
    (out, n)
}

pub fn strip_async(wit: &str) -> String {
    wit.replace(": async func(", ": func(")
}

fn directives(keys: &[(bool, String)], variant: char, rng: &mut Rng) -> Vec<String> {
    match variant {
        'i' => keys.iter().filter(|k| k.0).map(|k| format!("import:{}", k.1)).collect(),
        'e' => keys.iter().filter(|k| !k.0).map(|k| format!("export:{}", k.1)).collect(),
        'b' => vec!["all".to_string()],
        'm' => {
            let mut v: Vec<String> = keys.iter().filter(|_| rng.chance(1, 2)).map(|k| format!("{}:{}", if k.0 { "import" } else { "export" }, k.1)).collect();
            if v.is_empty() {
                if let Some(k) = keys.first() {
                    v.push(format!("{}:{}", if k.0 { "import" } else { "export" }, k.1));
                }
            }
            v
        }
        _ => vec![],
    }
}

pub fn run(args: &Args, dir: &Path, seed: u64, count: usize, crates: &str, repo: &str) {
    let mut rng = Rng::new(seed ^ 0x6173_796e_6330_38);
    let variants: Vec<char> = args.str("variants", "sieb").chars().collect();
    let mut entries: Vec<Value> = vec![];
    let mut discarded = 0usize;
    let mut avoided: std::collections::BTreeMap<String, u64> = Default::default();
    let mut sources: Vec<(WorldSrc, GenOpts, Option<Vec<String>>)> = vec![];

    if let Some(witfile) = args.get("wit") {
        // replay: the given WIT (may contain `async func`) + options (may contain `async` directives)
        let wit = fs::read_to_string(witfile).expect("read --wit");
        let opts = args.get("opts").map(|s| GenOpts::from_json(&serde_json::from_str(s).expect("--opts json"))).unwrap_or_else(|| GenOpts::all()[0].clone());
        let d = opts.async_.clone();
        sources.push((WorldSrc { wit, origin: format!("file:{witfile}"), tags: vec![] }, opts, Some(d)));
    } else {
        let mut combos = GenOpts::all();
        rng.shuffle(&mut combos);
        let mut corp: Vec<WorldSrc> = witgen::boundary_corpus()
            .into_iter()
            .filter(|(n, _)| matches!(*n, "variants" | "flags" | "limits"))
            .map(|(n, wit)| WorldSrc { wit: strip_async(&wit), origin: format!("corpus:{n}"), tags: vec![format!("corpus-{n}")] })
            .collect();
        rng.shuffle(&mut corp);
        let ncorp = if count >= 12 { (count / 8).min(corp.len()) } else { 0 };
        for i in 0..count {
            let opts = combos[i % combos.len()].clone();
            if i == 0 {
                sources.push((directed_world(), GenOpts::all()[0].clone(), None));
                continue;
            }
            if i == 1 {
                sources.push((directed_borrow_world(), GenOpts::all()[0].clone(), None));
                continue;
            }
            if i <= ncorp {
                sources.push((corp.pop().unwrap(), opts, None));
                continue;
            }
            let mut found = None;
            for attempt in 0..20u64 {
                let cfg = witgen_cfg(&mut rng);
                let mut wrng = rng.fork(i as u64 * 64 + attempt);
                if let Some((w, _, _, d)) = witgen::generate_valid(&mut wrng, &cfg) {
                    discarded += d;
                    if !w.wit.contains(": func(") {
                        continue;
                    }
                    found = Some(WorldSrc { wit: w.wit, origin: "witgen".into(), tags: w.tags.into_iter().collect() });
                    break;
                }
            }
            match found {
                Some(s) => sources.push((s, opts, None)),
                None => entries.push(json!({"name": format!("a{i:03}"), "status": "witgen-failed"})),
            }
        }
    }

    for (i, (src, base, replay_directives)) in sources.iter().enumerate() {
        let sync_wit = strip_async(&src.wit);
        let keys = match function_keys(&sync_wit) {
            Ok(k) => k,
            Err(e) => {
                entries.push(json!({"name": format!("a{i:03}"), "status": "wit-error", "error": e, "wit": src.wit}));
                continue;
            }
        };
        let mut base = base.clone();
        if base.raw_strings && any_string(&sync_wit) {
            base.raw_strings = false;
            *avoided.entry("raw_strings with a string in any function signature (generated `.into_bytes()` on Vec<u8> does not compile: lead for C09)".into()).or_insert(0) += 1;
        }
        let base = &base;
        let mut vrng = rng.fork(0x7700 + i as u64);
        let todo: Vec<char> = if replay_directives.is_some() { vec!['s', 'x'] } else { variants.clone() };
        for v in todo {
            let name = format!("a{i:03}{v}");
            let mut opts = base.clone();
            let mut wit = sync_wit.clone();
            match v {
                's' => opts.async_ = vec![],
                'x' => {
                    opts.async_ = replay_directives.clone().unwrap_or_default();
                    wit = src.wit.clone();
                }
                'w' => {
                    opts.async_ = vec![];
                    let nfuncs = sync_wit.matches(": func(").count();
                    let forced = vrng.usize(nfuncs.max(1));
                    let mut picks: Vec<bool> = (0..nfuncs).map(|k| k == forced || vrng.chance(1, 2)).collect();
                    if picks.is_empty() {
                        picks.push(true);
                    }
                    let (w2, _) = wit_async(&sync_wit, |k| picks.get(k).copied().unwrap_or(false));
                    if witgen::parse(&w2).is_err() {
                        entries.push(json!({"name": name, "status": "wit-error", "error": "async variant of the WIT does not parse", "wit": w2, "world_index": i, "variant": v.to_string()}));
                        continue;
                    }
                    wit = w2;
                }
                other => {
                    opts.async_ = directives(&keys, other, &mut vrng);
                    if opts.async_.is_empty() {
                        // nothing to bind async in this direction: the variant would be the sync one
                        continue;
                    }
                }
            }
            let vsrc = WorldSrc { wit, origin: src.origin.clone(), tags: src.tags.clone() };
            let mut e = build_world_ex(dir, &name, &vsrc, &opts, crates, repo, &mut avoided, true);
            e["world_index"] = json!(i);
            e["variant"] = json!(v.to_string());
            e["functions"] = json!(keys.len());
            entries.push(e);
        }
    }
    let members: Vec<String> = entries.iter().filter(|e| e["status"] == "ok").map(|e| format!("\"{}\"", e["name"].as_str().unwrap())).collect();
    let ws = format!(
        "[workspace]\nresolver = \"2\"\nmembers = [{}]\n\n[profile.dev]\nopt-level = 0\ndebug = 0\nincremental = false\n[profile.dev.package.\"*\"]\nopt-level = 1\ndebug = 0\n[profile.release]\nopt-level = 2\ndebug = 1\ndebug-assertions = false\nincremental = false\n",
        members.join(", ")
    );
    write_if_changed(&dir.join("Cargo.toml"), &ws);
    let index = json!({"seed": seed, "mode": "async", "worlds": entries, "witgen_discarded": discarded, "avoided": avoided});
    fs::write(dir.join("index.json"), serde_json::to_string_pretty(&index).unwrap()).unwrap();
    println!("{}", dir.join("index.json").display());
}
