//! rsguest: build echo-machine test crates for the Rust guest bindings.
//!
//! `rsguest gen --seed S --count N --out DIR --crates /verif/crates --repo /repo
//!              --mode values|resources [--wit FILE --opts JSON]`
//!
//! For every world: WIT (witgen / boundary corpus / replay file) + a generator
//! configuration -> bindings from the working-tree `wit-bindgen-rust` (linked
//! in, built with hook H1) -> `glue.rs` derived from the generated Rust with syn
//! -> a cargo package `DIR/wNNN`.  `DIR/index.json` lists what was produced.
mod analyze;
mod c08;
mod emit;
mod emit_res;

use serde_json::{json, Value};
use std::fs;
use std::path::Path;
use vkit::{Args, Rng};
use wit_bindgen_core::{Files, WorldGenerator};

#[derive(Clone, Debug)]
struct GenOpts {
    ownership: &'static str,
    /// `--std-feature`: generated code is conditional on the crate feature `std`
    std_feature: bool,
    /// whether the test crate enables that feature
    std_enabled: bool,
    merge_equal: bool,
    hashmap: bool,
    raw_strings: bool,
    /// `--async` directives (C08); empty: every function bound as the WIT declares it
    async_: Vec<String>,
}

impl GenOpts {
    fn json(&self) -> Value {
        let mut v = json!({"ownership": self.ownership, "std_feature": self.std_feature, "std_enabled": self.std_enabled,
               "merge_structurally_equal_types": self.merge_equal, "map_type": if self.hashmap { "std::collections::HashMap" } else { "default" },
               "raw_strings": self.raw_strings});
        if !self.async_.is_empty() {
            v["async"] = json!(self.async_);
        }
        v
    }
    fn from_json(v: &Value) -> GenOpts {
        let own = match v["ownership"].as_str().unwrap_or("owning") {
            "borrowing" => "borrowing",
            "borrowing-duplicate-if-necessary" => "borrowing-duplicate-if-necessary",
            _ => "owning",
        };
        GenOpts {
            ownership: own,
            std_feature: v["std_feature"].as_bool().unwrap_or(false),
            std_enabled: v["std_enabled"].as_bool().unwrap_or(true),
            merge_equal: v["merge_structurally_equal_types"].as_bool().unwrap_or(false),
            hashmap: v["map_type"].as_str() == Some("std::collections::HashMap"),
            raw_strings: v["raw_strings"].as_bool().unwrap_or(false),
            async_: v["async"].as_array().map(|a| a.iter().filter_map(|x| x.as_str().map(String::from)).collect()).unwrap_or_default(),
        }
    }
    fn to_opts(&self) -> wit_bindgen_rust::Opts {
        let mut o = wit_bindgen_rust::Opts::default();
        o.ownership = match self.ownership {
            "borrowing" => wit_bindgen_rust::Ownership::Borrowing { duplicate_if_necessary: false },
            "borrowing-duplicate-if-necessary" => wit_bindgen_rust::Ownership::Borrowing { duplicate_if_necessary: true },
            _ => wit_bindgen_rust::Ownership::Owning,
        };
        o.std_feature = self.std_feature;
        o.raw_strings = self.raw_strings;
        if self.hashmap {
            o.map_type = Some("std::collections::HashMap".to_string());
        }
        if self.merge_equal {
            o.merge_structurally_equal_types = Some(Some(true));
        }
        o.generate_all = true;
        for d in &self.async_ {
            o.async_.push(d);
        }
        o
    }
    /// all combinations the property quantifies over (HashMap needs std)
    fn all() -> Vec<GenOpts> {
        let mut v = vec![];
        for ownership in ["owning", "borrowing", "borrowing-duplicate-if-necessary"] {
            for (std_feature, std_enabled) in [(false, true), (true, true), (true, false)] {
                for merge_equal in [false, true] {
                    for hashmap in [false, true] {
                        for raw_strings in [false, true] {
                            if hashmap && !std_enabled {
                                continue;
                            }
                            v.push(GenOpts { ownership, std_feature, std_enabled, merge_equal, hashmap, raw_strings, async_: vec![] });
                        }
                    }
                }
            }
        }
        v
    }
}

struct WorldSrc {
    wit: String,
    origin: String,
    tags: Vec<String>,
}

fn corpus(mode: &str) -> Vec<WorldSrc> {
    let mut out = vec![];
    if mode == "resources" {
        out.push(resource_corpus());
    }
    for (name, wit) in witgen::boundary_corpus() {
        let keep = match (mode, name) {
            ("values", "handles") => false,
            ("values", _) => true,
            ("resources", "handles") => false, // futures/streams/error-context in it: C08/C19 territory
            _ => false,
        };
        if !keep {
            continue;
        }
        // async functions belong to C08
        // async functions belong to C08; `x4` of the fixed-list corpus does not compile (flat
        // lowering of [String; 2]: lead for C09) and would take the whole crate with it
        let wit: String = wit.lines().filter(|l| !l.contains("async func") && !(name == "fixed" && l.trim_start().starts_with("x4:"))).map(|l| format!("{l}\n")).collect();
        out.push(WorldSrc { wit, origin: format!("corpus:{name}"), tags: vec![format!("corpus-{name}")] });
    }
    out
}

/// Hand-written resource world: every handle position the property names, once
/// for a host-defined (imported) and once for a guest-defined (exported) resource.
fn resource_corpus() -> WorldSrc {
    let body = r#"
  resource thing {
    constructor(a: u32);
    get: func() -> u32;
    same: func(other: borrow<thing>) -> bool;
    make: static func(n: u32) -> thing;
    merge: static func(a: thing, b: thing) -> thing;
    clone-into: func(l: list<thing>) -> list<thing>;
  }
  resource fallible {
    constructor(ok: bool) -> result<fallible, string>;
    id: func() -> u32;
  }
  record holder { t: thing, n: u8 }
  record lender { t: borrow<thing>, n: u8 }
  variant choice { none, one(thing), name(string), two(tuple<thing, thing>) }
  take-own: func(t: thing);
  give-own: func() -> thing;
  pass-own: func(t: thing) -> thing;
  borrow-it: func(t: borrow<thing>) -> u32;
  in-record: func(h: holder) -> holder;
  lend-record: func(h: lender, l: list<lender>) -> u8;
  in-variant: func(c: choice) -> choice;
  in-option: func(o: option<thing>) -> option<thing>;
  in-result: func(r: result<thing, string>) -> result<thing, string>;
  in-list: func(l: list<thing>) -> list<thing>;
  in-tuple: func(t: tuple<thing, u32, thing>) -> tuple<thing, string>;
  borrow-list: func(l: list<borrow<thing>>, o: option<borrow<thing>>) -> u32;
  mixed: func(a: thing, b: borrow<thing>, c: list<thing>, d: fallible) -> result<list<thing>, string>;
  nested: func(x: list<option<result<thing, fallible>>>) -> list<option<result<fallible, thing>>>;
"#;
    let wit = format!("package verif:res;\n\ninterface shapes-imp {{{body}}}\n\ninterface shapes-exp {{{body}}}\n\nworld res-corpus {{\n  import shapes-imp;\n  export shapes-exp;\n}}\n");
    WorldSrc { wit, origin: "corpus:resources".into(), tags: vec!["corpus-resources".into(), "resource".into()] }
}

/// Directed world for a known generator defect (known_findings.json): runs on
/// every invocation with fixed options, so the finding is re-observed at every seed.
fn directed_fixed_list_world() -> WorldSrc {
    let pad: String = (1..=15).map(|i| format!(", p{i}: u64")).collect();
    let wit = format!(
        "package verif:directed;\n\nworld fixed-list-heap {{\n  import dangling-strings: func(a: tuple<u8, list<string, 2>>{pad});\n  import dangling-lists: func(a: tuple<list<list<u8>, 2>, u8>{pad});\n  export leaky-strings: func() -> list<string, 2>;\n  export leaky-lists: func() -> tuple<u8, list<list<u16>, 2>>;\n}}\n"
    );
    WorldSrc { wit, origin: "directed:fixed-list-heap".into(), tags: vec!["directed".into(), "fixed-list".into()] }
}

fn witgen_cfg(mode: &str, rng: &mut Rng) -> witgen::Cfg {
    let mut c = witgen::Cfg::default();
    c.names = witgen::Names::Simple;
    c.resources = mode == "resources";
    c.async_ = false;
    c.error_context = false;
    c.fixed_lists = rng.chance(1, 4);
    // Known generator defect (lead for C09): lowering a map in a *world-level*
    // function does not compile (`WitMap` is not imported at the root module).
    // Such worlds can never be executed, so a world gets maps or world-level
    // functions, not both.
    c.maps = rng.chance(1, 2);
    c.world_funcs = !c.maps;
    c.docs = false;
    c.multi_pkg = false;
    c.max_depth = 3;
    c.ifaces = 3;
    c.funcs = 6;
    c.types = 6;
    c.max_params = 5;
    if mode == "resources" {
        // one direction per interface: which copy of a resource a handle type means is then unambiguous
        c.same_iface_both = false;
        c.max_params = 3;
        c.fixed_lists = false;
    }
    c
}

fn write_if_changed(path: &Path, text: &str) {
    if fs::read_to_string(path).ok().as_deref() == Some(text) {
        return;
    }
    fs::write(path, text).unwrap_or_else(|e| panic!("write {}: {e}", path.display()));
}

fn main_rs() -> &'static str {
    r#"#![allow(warnings)]
#[global_allocator]
static ALLOC: rsguest_support::alloc::Checking = rsguest_support::alloc::Checking;

mod bindings {
    include!("bindings.rs");
    pub mod verif_glue {
        include!("glue.rs");
    }
}

fn main() {
    rsguest_host::run(&bindings::verif_glue::TABLES);
}
"#
}

fn cargo_toml(name: &str, opts: &GenOpts, crates: &str, repo: &str, async_mode: bool) -> String {
    let default = if opts.std_enabled { "[\"std\"]" } else { "[]" };
    if async_mode {
        // C08: the async runtime (feature `async`) + the mock component-model host (rt-host, through c08-host)
        return format!(
            r#"[package]
name = "{name}"
version = "0.0.0"
edition = "2021"

[features]
default = {default}
std = []

[dependencies]
wit-bindgen = {{ path = "{repo}/crates/guest-rust", default-features = false, features = ["std", "bitflags", "realloc", "async"] }}
rsguest-host = {{ path = "{crates}/rsguest-host" }}
rsguest-support = {{ path = "{crates}/rsguest-support" }}
c08-host = {{ path = "{crates}/c08-host" }}
"#
        );
    }
    format!(
        r#"[package]
name = "{name}"
version = "0.0.0"
edition = "2021"

[features]
default = {default}
std = []

[dependencies]
wit-bindgen = {{ path = "{repo}/crates/guest-rust", default-features = false, features = ["std", "bitflags", "realloc"] }}
rsguest-host = {{ path = "{crates}/rsguest-host" }}
rsguest-support = {{ path = "{crates}/rsguest-support" }}
"#
    )
}

fn contains_string(abi: &cabi_ref::Abi, ty: &wit_parser::Type, depth: usize) -> bool {
    use cabi_ref::Shape;
    if depth > 10 {
        return false;
    }
    match abi.shape(ty) {
        Shape::String => true,
        Shape::List(t) | Shape::FixedList(t, _) => contains_string(abi, &t, depth + 1),
        Shape::Map(k, v) => contains_string(abi, &k, depth + 1) || contains_string(abi, &v, depth + 1),
        Shape::Record(fs) => fs.iter().any(|f| contains_string(abi, f, depth + 1)),
        Shape::Variant(cs, _) => cs.iter().flatten().any(|f| contains_string(abi, f, depth + 1)),
        _ => false,
    }
}

/// Known generator defect (lead for C09): with `raw_strings`, lowering a string
/// with realloc (export results) emits `.into_bytes()` on a `Vec<u8>`, which
/// does not compile.  Such a world/option pair can never be executed.
fn raw_strings_defect(resolve: &wit_parser::Resolve, world: wit_parser::WorldId) -> bool {
    let abi = cabi_ref::Abi::new(resolve, 4);
    let w = &resolve.worlds[world];
    for (_, item) in w.exports.iter() {
        let funcs: Vec<&wit_parser::Function> = match item {
            wit_parser::WorldItem::Interface { id, .. } => resolve.interfaces[*id].functions.values().collect(),
            wit_parser::WorldItem::Function(f) => vec![f],
            _ => vec![],
        };
        for f in funcs {
            if let Some(t) = &f.result {
                if contains_string(&abi, t, 0) {
                    return true;
                }
            }
        }
    }
    false
}

fn build_world(dir: &Path, name: &str, src: &WorldSrc, opts: &GenOpts, crates: &str, repo: &str, avoided: &mut std::collections::BTreeMap<String, u64>) -> Value {
    build_world_ex(dir, name, src, opts, crates, repo, avoided, false)
}

fn build_world_ex(dir: &Path, name: &str, src: &WorldSrc, opts: &GenOpts, crates: &str, repo: &str, avoided: &mut std::collections::BTreeMap<String, u64>, async_mode: bool) -> Value {
    let mut opts = opts.clone();
    let opts = &mut opts;
    let mut entry = json!({"name": name, "origin": src.origin, "tags": src.tags, "wit": src.wit});
    let parsed = witgen::parse(&src.wit);
    let (mut resolve, world) = match parsed {
        Ok(x) => x,
        Err(e) => {
            entry["status"] = json!("wit-error");
            entry["error"] = json!(format!("{e:#}"));
            return entry;
        }
    };
    let world_name = resolve.worlds[world].name.clone();
    if opts.raw_strings && raw_strings_defect(&resolve, world) {
        opts.raw_strings = false;
        *avoided.entry("raw_strings with a string in an export result (generated `.into_bytes()` on Vec<u8> does not compile)".into()).or_insert(0) += 1;
    }
    entry["opts"] = opts.json();
    let o = opts.to_opts();
    let generated = vkit::catch(std::panic::AssertUnwindSafe(|| {
        let mut files = Files::default();
        let mut g = o.build();
        g.generate(&mut resolve, world, &mut files).map(|_| files.iter().map(|(n, b)| (n.to_string(), String::from_utf8_lossy(b).to_string())).collect::<Vec<_>>())
    }));
    let files = match generated {
        Ok(Ok(f)) => f,
        Ok(Err(e)) => {
            entry["status"] = json!("bindgen-error");
            entry["error"] = json!(format!("{e:#}"));
            return entry;
        }
        Err((msg, loc)) => {
            entry["status"] = json!("bindgen-panic");
            entry["error"] = json!(format!("{msg} at {loc}"));
            return entry;
        }
    };
    let Some((_, bindings)) = files.iter().find(|(n, _)| n.ends_with(".rs")) else {
        entry["status"] = json!("bindgen-error");
        entry["error"] = json!("no .rs file generated");
        return entry;
    };
    let an = match analyze::analyze(bindings) {
        Ok(a) => a,
        Err(e) => {
            entry["status"] = json!("bindings-unparsable");
            entry["error"] = json!(format!("{e:#}"));
            return entry;
        }
    };
    let opts_json = opts.json().to_string();
    let glue = emit::emit(&an, &src.wit, &world_name, &opts_json, async_mode);
    let src_dir = dir.join(name).join("src");
    fs::create_dir_all(&src_dir).unwrap();
    write_if_changed(&dir.join(name).join("Cargo.toml"), &cargo_toml(name, opts, crates, repo, async_mode));
    write_if_changed(&dir.join(name).join("world.wit"), &src.wit);
    write_if_changed(&src_dir.join("bindings.rs"), bindings);
    write_if_changed(&src_dir.join("glue.rs"), &glue.text);
    write_if_changed(&src_dir.join("main.rs"), &if async_mode { main_rs().replace("rsguest_host::run(&bindings::verif_glue::TABLES)", "c08_host::run(&bindings::verif_glue::TABLES, &bindings::verif_glue::ASYNC_TABLES)") } else { main_rs().to_string() });
    entry["status"] = json!("ok");
    entry["notes"] = json!(glue.notes.iter().chain(an.unsupported.iter()).collect::<Vec<_>>());
    entry["counts"] = json!({"structs": an.structs.len(), "enums": an.enums.len(), "flags": an.flags.len(), "handles": an.handles.len(),
        "traits": an.traits.len(), "wrappers": an.wrappers.len(), "imports": an.imports.len(), "exports": an.exports.len(),
        "async_wrappers": an.wrappers.iter().filter(|w| w.is_async).count(), "callbacks": an.callbacks.len(),
        "bindings_bytes": bindings.len()});
    entry
}

fn main() {
    let args = Args::parse();
    if args.free.first().map(|s| s.as_str()) != Some("gen") {
        eprintln!("usage: rsguest gen --seed S --count N --out DIR --crates PATH --repo PATH [--mode values|resources] [--wit FILE --opts JSON]");
        std::process::exit(2);
    }
    let seed = args.seed();
    let count = args.u64("count", 4) as usize;
    let mode = args.str("mode", "values");
    let out = args.str("out", "/var/tmp/rsguest-out");
    let crates = args.str("crates", "/verif/crates");
    let repo = args.str("repo", &std::env::var("VERIF_REPO").unwrap_or("/repo".into()));
    let dir = Path::new(&out);
    fs::create_dir_all(dir).unwrap();
    let mut rng = Rng::new(seed ^ 0x7273_6775_6573_74);
    let mut entries = vec![];
    let mut discarded = 0usize;
    let prefix = args.str("prefix", "w");
    let mut avoided: std::collections::BTreeMap<String, u64> = Default::default();
    avoided.insert("maps together with world-level functions (`WitMap` not in scope at the bindings root: does not compile)".into(), 0);

    if mode == "async" {
        c08::run(&args, dir, seed, count, &crates, &repo);
        return;
    }
    if let Some(witfile) = args.get("wit") {
        // replay / hand-written world
        let wit = fs::read_to_string(witfile).expect("read --wit");
        let opts = args.get("opts").map(|s| GenOpts::from_json(&serde_json::from_str(s).expect("--opts json"))).unwrap_or_else(|| GenOpts::all()[0].clone());
        let src = WorldSrc { wit, origin: format!("file:{witfile}"), tags: vec![] };
        entries.push(build_world(dir, &format!("{prefix}000"), &src, &opts, &crates, &repo, &mut avoided));
    } else {
        let mut combos = GenOpts::all();
        rng.shuffle(&mut combos);
        let mut corp = corpus(&mode);
        rng.shuffle(&mut corp);
        // about one world in five comes from the boundary corpus (each at most once)
        let ncorp = (count / 5).max(if count >= 4 { 1 } else { 0 }).min(corp.len());
        for i in 0..count {
            let name = format!("{prefix}{i:03}");
            let opts = combos[i % combos.len()].clone();
            if i == 0 && mode == "values" {
                entries.push(build_world(dir, &name, &directed_fixed_list_world(), &GenOpts::all()[0], &crates, &repo, &mut avoided));
                continue;
            }
            let src = if i < ncorp + 1 && !corp.is_empty() {
                corp.pop().unwrap()
            } else {
                let mut found = None;
                for attempt in 0..20u64 {
                    let cfg = witgen_cfg(&mode, &mut rng);
                    let mut wrng = rng.fork(i as u64 * 64 + attempt);
                    if let Some((w, _, _, d)) = witgen::generate_valid(&mut wrng, &cfg) {
                        discarded += d;
                        // resource histories need a resource with some way to get hold of one
                        // a world without any function gives nothing to call
                        if !w.wit.contains("func(") {
                            continue;
                        }
                        if mode == "resources" && !(w.tags.contains("resource") && (w.wit.contains("constructor(") || w.tags.contains("own"))) {
                            continue;
                        }
                        found = Some(WorldSrc { wit: w.wit, origin: "witgen".into(), tags: w.tags.into_iter().collect() });
                        break;
                    }
                }
                match found {
                    Some(s) => s,
                    None => {
                        entries.push(json!({"name": name, "status": "witgen-failed"}));
                        continue;
                    }
                }
            };
            entries.push(build_world(dir, &name, &src, &opts, &crates, &repo, &mut avoided));
        }
    }
    // workspace manifest
    let members: Vec<String> = entries.iter().filter(|e| e["status"] == "ok").map(|e| format!("\"{}\"", e["name"].as_str().unwrap())).collect();
    let ws = format!(
        "[workspace]\nresolver = \"2\"\nmembers = [{}]\n\n[profile.dev]\nopt-level = 0\ndebug = 0\nincremental = false\n[profile.dev.package.\"*\"]\nopt-level = 1\ndebug = 0\n[profile.release]\nopt-level = 2\ndebug = 1\ndebug-assertions = false\nincremental = false\n",
        members.join(", ")
    );
    write_if_changed(&dir.join("Cargo.toml"), &ws);
    let index = json!({"seed": seed, "mode": mode, "worlds": entries, "witgen_discarded": discarded, "avoided": avoided});
    fs::write(dir.join("index.json"), serde_json::to_string_pretty(&index).unwrap()).unwrap();
    println!("{}", dir.join("index.json").display());
}
