//! developer tool: dump what the extractor sees (`exdump [outdir]`)
fn main() {
    let ex = exprsem::extract::run_all();
    for (b, w, e) in &ex.failures {
        println!("FAIL {b} {w}: {e}");
    }
    let mut obs = ex.obs.clone();
    obs.sort_by(|a, b| (a.backend.clone(), a.is_cast, a.inst.clone()).cmp(&(b.backend.clone(), b.is_cast, b.inst.clone())));
    for o in &obs {
        println!("{:8} {:10} {:28} x{:<3} {:30} => {}", o.backend, o.world, o.inst, o.occurrences, format!("{:?}", o.operand), format!("{:?}", o.result));
    }
    if let Some(dir) = std::env::args().nth(1) {
        for ((b, w), files) in &ex.files {
            for (n, c) in files {
                let p = std::path::Path::new(&dir).join(b).join(w).join(n);
                std::fs::create_dir_all(p.parent().unwrap()).unwrap();
                std::fs::write(p, c).unwrap();
            }
        }
    }
}
