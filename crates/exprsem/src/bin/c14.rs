//! C14 (`--mode scalars`) and C04 part 3 (`--mode casts`): evaluate the scalar
//! conversion / Bitcast expressions every backend emits against the canonical
//! ABI.  `--seed N --tier quick|thorough --out PATH [--backends a,b]
//! [--replay-backend B --replay-inst I --replay-input N]`
use exprsem::extract;
use exprsem::native::{self, NLang};
use exprsem::oracle::*;
use exprsem::run::*;
use serde_json::{json, Value};
use std::collections::{BTreeMap, BTreeSet};
use std::io::Write;
use std::path::{Path, PathBuf};

struct Opts {
    seed: u64,
    thorough: bool,
    casts: bool,
    exhaustive_interp: bool,
    replay: Option<(String, String, u64)>,
    /// after this instant the remaining cases of a thorough run use the quick domains
    deadline: std::time::Instant,
}

fn domains_for(p: &Prepared, o: &Opts) -> Vec<(Domain, bool)> {
    let native = matches!(p.eval, Evaluator::Native(_));
    // Rust debug profile: panics are slow, keep the quick domain.  An identity
    // expression (the operand passed through) cannot depend on the input: quick domain.
    // Past the work budget the remaining cases fall back to the quick domain (counted).
    let thorough = o.thorough && p.profile != "debug" && p.case.template.trim() != VAR && std::time::Instant::now() < o.deadline;
    let exhaustive = if native { true } else { o.exhaustive_interp };
    let mut d = domain_for(&p.sem, thorough, o.seed, exhaustive);
    if p.profile == "release" && matches!(p.sem, Sem::Lift(Scalar::Char)) {
        // release `char_lift` is `from_u32_unchecked`: feeding an invalid scalar would be UB in the harness itself
        d = Domain::CharScalars;
    }
    let mut v = vec![];
    // --replay: the recorded input of the recorded (backend, instruction) first, then the normal domain
    if let Some((b, i, x)) = &o.replay {
        if &p.case.backend == b && (&p.case.inst == i || i.split('+').any(|k| k == p.case.inst)) {
            v.push((Domain::List(vec![*x]), false));
        }
    }
    v.push((d.clone(), false));
    // 32-bit pointer/length operand carried in a 64-bit type: also sign-extended
    if let Sem::Cast { steps, .. } = &p.sem {
        if matches!(steps[0].0, W::P | W::L) && p.operand_ty.bits() == 64 {
            v.push((d, true));
        }
    }
    v
}

/// Evaluate all prepared cases of one backend (+ round trips in casts mode).
fn evaluate(prepared: &[Prepared], o: &Opts, skip: &BTreeSet<String>, before: &mut dyn FnMut(&str), sink: &mut dyn FnMut(Outcome)) {
    // casts: the expected function depends only on the source / destination widths, so the same
    // expression on the same operand type with the same widths is evaluated once
    let mut memo: BTreeMap<String, Outcome> = BTreeMap::new();
    for p in prepared {
        let key = format!("{}|{}", p.case.key(), p.profile);
        if skip.contains(&key) {
            continue;
        }
        before(&key);
        let memo_key = match &p.sem {
            Sem::Cast { steps, .. } if o.replay.is_none() => {
                let (f, t) = (steps[0].0, steps.last().unwrap().1);
                Some(format!("{}|{:?}|{:?}|{}|{}|{}|{}|{}", p.case.template, p.operand_ty, p.result_ty, p.profile, f.bits(), t.bits(), matches!(t, W::F32 | W::F64), matches!(f, W::P | W::L)))
            }
            _ => None,
        };
        if let Some(prev) = memo_key.as_ref().and_then(|k| memo.get(k)) {
            let mut out = Outcome { key: key.clone(), prepared_backend: prev.prepared_backend.clone(), inst: p.case.inst.clone(), is_cast: true, template: prev.template.clone(), profile: prev.profile.clone(), stats: prev.stats.clone(), domain: prev.domain.clone(), witness: prev.witness.clone(), soft: prev.soft.clone(), reused: true };
            for w in out.witness.values_mut() {
                if let Some(m) = w.as_object_mut() {
                    m.insert("instruction".into(), json!(p.case.inst));
                    m.insert("expression".into(), json!(p.case.sample_result));
                    m.insert("operand".into(), json!(p.case.sample_operand));
                }
            }
            sink(out);
            continue;
        }
        let mut total: Option<Outcome> = None;
        for (d, sext) in domains_for(p, o) {
            let st = run_case(p, &d, sext);
            let out = outcome_of(p, st, &d);
            total = Some(match total {
                None => out,
                Some(mut t) => {
                    t.stats.evaluated += out.stats.evaluated;
                    t.stats.ok += out.stats.ok;
                    // second pass = 32-bit pointer/length fed sign-extended in a 64-bit native type:
                    // its high bits say nothing about the expression
                    t.stats.ok += out.stats.ok_zero_ext + out.stats.ok_sign_ext;
                    t.stats.nan_payload += out.stats.nan_payload;
                    t.stats.unencodable += out.stats.unencodable;
                    for (k, v) in out.stats.bad {
                        t.stats.bad.entry(k).or_insert(v);
                    }
                    for (k, v) in out.witness {
                        t.witness.entry(k).or_insert(v);
                    }
                    t
                }
            });
        }
        let mut out = total.unwrap();
        out.key = key;
        if let Some(k) = memo_key {
            memo.insert(k, Outcome { key: out.key.clone(), prepared_backend: out.prepared_backend.clone(), inst: out.inst.clone(), is_cast: out.is_cast, template: out.template.clone(), profile: out.profile.clone(), stats: out.stats.clone(), domain: out.domain.clone(), witness: out.witness.clone(), soft: out.soft.clone(), reused: false });
        }
        sink(out);
    }
    if o.casts {
        let pairs = [("F32ToI32", "I32ToF32"), ("I32ToI64", "I64ToI32"), ("F32ToI64", "I64ToF32"), ("F64ToI64", "I64ToF64")];
        for (u, dn) in pairs {
            for up in prepared.iter().filter(|p| p.case.inst == u) {
                for down in prepared.iter().filter(|p| p.case.inst == dn && p.profile == up.profile) {
                    let key = format!("{}:{}+{}:{} ; {}|{}", up.case.backend, u, dn, up.case.template, down.case.template, up.profile);
                    if skip.contains(&key) {
                        continue;
                    }
                    before(&key);
                    let thorough = o.thorough && up.profile != "debug" && std::time::Instant::now() < o.deadline;
                    let d = domain_for(&up.sem, thorough, o.seed, matches!(up.eval, Evaluator::Native(_)) || o.exhaustive_interp);
                    let st = run_roundtrip(up, down, &d);
                    let mut w = BTreeMap::new();
                    for (class, (_, _, input, got)) in &st.bad {
                        w.insert(
                            class.clone(),
                            json!({"backend": up.case.backend, "instruction": format!("{u}+{dn}"), "expression": format!("{}  then  {}", up.case.sample_result, down.case.sample_result),
                                   "template": format!("{} ; {}", up.case.template, down.case.template), "profile": up.profile, "class": class, "input": hex(*input), "expected": hex(*input),
                                   "got": got.map(hex).unwrap_or_else(|| "trap".into()), "domain": d.describe()}),
                        );
                    }
                    sink(Outcome { key, prepared_backend: up.case.backend.clone(), inst: format!("{u}+{dn}"), is_cast: true, template: format!("{} ; {}", up.case.template, down.case.template), profile: up.profile.clone(), stats: st, domain: d.describe(), witness: w, soft: None, reused: false });
                }
            }
        }
    }
}

fn cstr(p: &Path) -> std::ffi::CString {
    std::ffi::CString::new(p.to_str().unwrap()).unwrap()
}

/// Run the native cases of one backend in forked children.  Returns outcomes and
/// (case key, message) for crashed cases.
fn run_native_forked(plan: &NativePlan, libs: &[(String, PathBuf)], o: &Opts, dir: &Path, backend: &str) -> (Vec<Outcome>, Vec<(String, String)>, Vec<String>) {
    let results = dir.join(format!("{backend}.results.jsonl"));
    let progress = dir.join(format!("{backend}.progress"));
    let stderr_f = dir.join(format!("{backend}.stderr"));
    let _ = std::fs::remove_file(&results);
    let mut crashed: Vec<(String, String)> = vec![];
    let mut problems = vec![];
    let mut skip: BTreeSet<String> = BTreeSet::new();
    for _attempt in 0..12 {
        let _ = std::fs::remove_file(&progress);
        let _ = std::io::stdout().flush();
        let pid = unsafe { native::fork() };
        if pid < 0 {
            problems.push("fork failed".to_string());
            break;
        }
        if pid == 0 {
            // ---- child
            unsafe {
                let fd = native::open(cstr(&stderr_f).as_ptr(), 0o1101 /* O_WRONLY|O_CREAT|O_TRUNC */, 0o644);
                if fd >= 0 {
                    native::dup2(fd, 2);
                }
            }
            let code = (|| -> i32 {
                let mut prepared = vec![];
                for (profile, libp) in libs {
                    let lib = match native::Lib::open(libp) {
                        Ok(l) => l,
                        Err(e) => {
                            eprintln!("dlopen: {e}");
                            return 3;
                        }
                    };
                    lib.init();
                    for np in &plan.prepared {
                        let id = np.id;
                        if let Some(f) = lib.batch(id) {
                            let (rt, soft) = if np.infer {
                                match lib.tag(id) {
                                    Some(t) => (t, Some(format!("the expression has type {} and does not type-check against the declared type `{}`", t.name(), np.rname))),
                                    None => {
                                        eprintln!("symbol case_{id}_tag missing");
                                        return 4;
                                    }
                                }
                            } else {
                                (np.result_ty, None)
                            };
                            prepared.push(Prepared { case: np.case.clone(), sem: np.sem.clone(), operand_ty: np.operand_ty, result_ty: rt, eval: Evaluator::Native(f), profile: profile.clone(), soft });
                        } else {
                            eprintln!("symbol case_{id} missing");
                            return 4;
                        }
                    }
                    std::mem::forget(lib);
                }
                let mut rf = std::fs::OpenOptions::new().create(true).append(true).open(&results).unwrap();
                let mut before = |k: &str| {
                    let _ = std::fs::write(&progress, k);
                };
                let mut sink = |out: Outcome| {
                    let _ = writeln!(rf, "{}", outcome_to_json(&out));
                    let _ = rf.flush();
                };
                evaluate(&prepared, o, &skip, &mut before, &mut sink);
                0
            })();
            unsafe { native::_exit(code) };
        }
        // ---- parent
        let mut status: i32 = 0;
        unsafe { native::waitpid(pid, &mut status, 0) };
        let done: BTreeSet<String> = std::fs::read_to_string(&results).unwrap_or_default().lines().filter_map(|l| serde_json::from_str::<Value>(l).ok()).filter_map(|v| v["key"].as_str().map(|s| s.to_string())).collect();
        if status == 0 {
            break;
        }
        let exited = status & 0x7f == 0;
        let code = (status >> 8) & 0xff;
        if exited && (code == 3 || code == 4) {
            problems.push(format!("native worker could not load the compiled expressions: {}", std::fs::read_to_string(&stderr_f).unwrap_or_default().chars().take(300).collect::<String>()));
            break;
        }
        let cur = std::fs::read_to_string(&progress).unwrap_or_default();
        let err = std::fs::read_to_string(&stderr_f).unwrap_or_default();
        let msg = err.lines().find(|l| l.contains("runtime error:")).map(|l| l.to_string()).unwrap_or_else(|| format!("worker died (wait status {status:#x}) without a sanitizer report: {}", err.lines().last().unwrap_or("")));
        if cur.is_empty() || done.contains(&cur) {
            problems.push(format!("native worker died outside a case: {msg}"));
            break;
        }
        crashed.push((cur.clone(), msg));
        skip = done;
        skip.insert(cur);
    }
    let outs = std::fs::read_to_string(&results).unwrap_or_default().lines().filter_map(|l| serde_json::from_str::<Value>(l).ok()).map(|v| outcome_from_json(&v)).collect();
    (outs, crashed, problems)
}

fn main() {
    let args = vkit::Args::parse();
    let casts = args.str("mode", "scalars") == "casts";
    let replay = match (args.get("replay-backend"), args.get("replay-inst"), args.get("replay-input")) {
        (Some(b), Some(i), Some(x)) => {
            let x = x.trim();
            let v = if let Some(h) = x.strip_prefix("0x") { u64::from_str_radix(h, 16).ok() } else { x.parse::<u64>().ok() };
            v.map(|v| (b.to_string(), i.to_string(), v))
        }
        _ => None,
    };
    let o = Opts { seed: args.seed(), thorough: args.thorough(), casts, exhaustive_interp: std::env::var("VERIF_EXPRSEM_EXHAUSTIVE").map(|v| v != "0").unwrap_or(true), replay,
        deadline: std::time::Instant::now() + std::time::Duration::from_secs(std::env::var("VERIF_EXPRSEM_BUDGET_S").ok().and_then(|s| s.parse().ok()).unwrap_or(2400)) };
    let strict_zext = std::env::var("VERIF_C04_STRICT_ZEXT").map(|v| v == "1").unwrap_or(false);
    let prop = if casts { "C04" } else { "C14" };
    let mut rep = vkit::Report::new(if casts {
        "every distinct (backend, Bitcast kind, expression template) emitted for the cast/variants boundary worlds is one case; distinct = cases with >= 1 judged evaluation; evaluations = judged (input, output) pairs"
    } else {
        "every distinct (backend, scalar instruction, expression template) emitted for the fixed scalar world + variants world is one case; distinct = cases with >= 1 judged evaluation; evaluations = judged (input, output) pairs"
    });
    rep.max_samples = 12;
    let scratch = PathBuf::from(args.str("scratch", &format!("/var/tmp/verif-exprsem-{}", std::process::id())));
    let _ = std::fs::create_dir_all(&scratch);

    match exprsem::selftest::run() {
        Ok(n) => rep.count_n("model_selftest_vectors_passed", n as u64),
        Err(e) => {
            // a model that fails its own vectors must not judge anything
            rep.inconclusive(&format!("exprsem self-test failed, nothing judged: {e}"));
            rep.write(&args.out());
            std::process::exit(3);
        }
    }
    let t_start = std::time::Instant::now();
    let mut timings: BTreeMap<String, f64> = BTreeMap::new();
    let ex = extract::run_all();
    timings.insert("extract".into(), t_start.elapsed().as_secs_f64());
    for (b, w, e) in &ex.failures {
        rep.inconclusive(&format!("{b}: generator failed on world `{w}`: {e}"));
    }
    rep.extra.insert("emitted_instructions_seen".into(), json!(ex.emitted_total));
    let selected: Vec<String> = match args.get("backends") {
        Some(s) => s.split(',').map(|x| x.trim().to_string()).collect(),
        None => extract::BACKENDS.iter().map(|s| s.to_string()).collect(),
    };
    let (cases, temps) = cases_from(&ex, casts);

    let mut outcomes: Vec<Outcome> = vec![];
    let mut inconclusive: Vec<(String, String, String, String)> = vec![]; // backend, inst, template, why
    let mut expr_table: BTreeMap<String, BTreeMap<String, Vec<String>>> = BTreeMap::new();
    let mut type_table: BTreeMap<String, Value> = BTreeMap::new();
    let mut ub: Vec<(String, String)> = vec![];

    for backend in &selected {
        let t_b = std::time::Instant::now();
        let cx = backend_ctx(&ex, backend);
        type_table.insert(backend.clone(), json!({"declared": cx.types.declared, "core": cx.types.core}));
        for n in &cx.types.notes {
            rep.count("type_probe_misses");
            let _ = n;
        }
        for (h, why) in &cx.helper_problems {
            rep.count("helpers_not_understood");
            let _ = (h, why);
        }
        let bcases: Vec<Case> = cases.iter().filter(|c| &c.backend == backend).cloned().collect();
        for c in &bcases {
            expr_table.entry(backend.clone()).or_default().entry(c.inst.clone()).or_default().push(c.template.clone());
        }
        if let Some(_nl) = NLang::of(backend) {
            let mut plan = plan_native(&bcases, &cx);
            let dir = scratch.join(backend);
            let _ = std::fs::create_dir_all(&dir);
            match build_native(&mut plan, &cx, &dir) {
                Ok(libs) => {
                    let (outs, crashed, problems) = run_native_forked(&plan, &libs, &o, &dir, backend);
                    outcomes.extend(outs);
                    for (k, m) in crashed {
                        ub.push((k, m));
                    }
                    for p in problems {
                        rep.inconclusive(&format!("{backend}: {p}"));
                    }
                }
                Err(e) => {
                    for np in &plan.prepared {
                        inconclusive.push((backend.clone(), np.case.inst.clone(), np.case.template.clone(), e.clone()));
                    }
                }
            }
            for (c, why) in &plan.inconclusive {
                inconclusive.push((backend.clone(), c.inst.clone(), c.template.clone(), why.clone()));
            }
        } else {
            let mut prepared = vec![];
            for c in &bcases {
                if c.is_cast && c.inst == "None" {
                    continue;
                }
                match prepare_interp(c, &cx) {
                    Ok(p) => prepared.push(p),
                    Err(why) => inconclusive.push((backend.clone(), c.inst.clone(), c.template.clone(), why)),
                }
            }
            if !casts {
                let mut seen = BTreeSet::new();
                for (ob, why) in temps.iter().filter(|(ob, _)| &ob.backend == backend) {
                    if backend == "go" {
                        match prepare_go_temp(ob, &cx) {
                            Ok(p) => {
                                if seen.insert(p.case.key()) {
                                    expr_table.entry(backend.clone()).or_default().entry(ob.inst.clone()).or_default().push(p.case.template.clone());
                                    prepared.push(p);
                                }
                            }
                            Err(e) => inconclusive.push((backend.clone(), ob.inst.clone(), ob.result.clone(), format!("{why}; {e}"))),
                        }
                    } else {
                        inconclusive.push((backend.clone(), ob.inst.clone(), ob.result.clone(), why.clone()));
                    }
                }
            }
            let skip = BTreeSet::new();
            evaluate(&prepared, &o, &skip, &mut |_| {}, &mut |out| outcomes.push(out));
        }
        timings.insert(backend.clone(), t_b.elapsed().as_secs_f64());
    }
    // temporaries of native backends
    for (ob, why) in &temps {
        if NLang::of(&ob.backend).is_some() && selected.contains(&ob.backend) {
            inconclusive.push((ob.backend.clone(), ob.inst.clone(), ob.result.clone(), why.clone()));
        }
    }

    // ------------------------------------------------------------- aggregate
    let mut judged: BTreeMap<String, BTreeSet<String>> = BTreeMap::new();
    let mut bad: BTreeMap<(String, String), Vec<(String, Value, u64, u64)>> = BTreeMap::new();
    let mut slot_high: BTreeMap<String, String> = BTreeMap::new();
    let mut lenient: BTreeMap<String, Value> = BTreeMap::new();
    let mut per_case: Vec<Value> = vec![];
    for oc in &outcomes {
        let s = &oc.stats;
        if oc.reused {
            rep.count("cast_kinds_sharing_an_identical_expression_run");
        } else {
            rep.evals(s.evaluated);
        }
        if let (Some(soft), true) = (&oc.soft, s.bad.is_empty()) {
            // values agree but the generated code would not type-check: not a verdict of this property
            inconclusive.push((oc.prepared_backend.clone(), oc.inst.clone(), oc.template.clone(), format!("{soft}; all {} evaluated values agree with the canonical mapping", s.evaluated)));
        } else if s.evaluated > 0 {
            // identity expressions (the operand passed through unchanged) are the trivial cases
            if oc.template.trim() != VAR {
                rep.distinct(&oc.key);
            } else {
                rep.count("identity_expressions_judged");
            }
            judged.entry(oc.prepared_backend.clone()).or_default().insert(oc.inst.clone());
        } else {
            inconclusive.push((oc.prepared_backend.clone(), oc.inst.clone(), oc.template.clone(), format!("no input could be represented in the operand type ({} skipped)", s.unencodable)));
        }
        if s.nan_payload > 0 {
            rep.inconclusive(&format!("{} {}: {} NaN inputs came back as a NaN with a different payload (`{}`)", oc.prepared_backend, oc.inst, s.nan_payload, oc.template));
        }
        if s.ok_sign_ext + s.ok_zero_ext > 0 {
            let k = format!("{}:{}{}", oc.prepared_backend, oc.inst, if oc.profile.is_empty() { String::new() } else { format!(":{}", oc.profile) });
            let v = if s.ok_sign_ext > 0 { "sign-extended when bit 31 is set (spec: zero-extended; equal after the peer's wrap_i64_to_i32)" } else { "zero-extended" };
            slot_high.insert(k, v.to_string());
            if strict_zext && s.ok_sign_ext > 0 {
                rep.violation(&format!("cast:{}:{}:sign-extends", oc.prepared_backend, oc.inst), &format!("{} {}: `{}` sign-extends into the 64-bit slot where the spec zero-extends", oc.prepared_backend, oc.inst, oc.template), json!({"template": oc.template}));
            }
        }
        if s.lenient > 0 {
            lenient.insert(format!("{}:{}{}", oc.prepared_backend, oc.inst, if oc.profile.is_empty() { String::new() } else { format!(":{}", oc.profile) }), json!({"inputs": s.lenient, "nonzero/true": s.lenient_true, "zero/false": s.lenient_false, "trap": s.lenient_trap}));
        }
        for (class, (count, _, _, _)) in &s.bad {
            bad.entry((oc.prepared_backend.clone(), oc.inst.clone())).or_default().push((class.clone(), oc.witness.get(class).cloned().unwrap_or(Value::Null), *count, s.evaluated));
        }
        if args.thorough() && !oc.domain.starts_with("exhaustive") && oc.domain.starts_with("2^16") && oc.template.trim() != VAR && oc.profile != "debug" {
            rep.count("thorough_cases_on_quick_domain_after_budget");
        }
        per_case.push(json!({"case": oc.key, "domain": oc.domain, "evaluated": s.evaluated, "ok": s.ok + s.ok_zero_ext + s.ok_sign_ext, "lenient": s.lenient, "bad": s.bad.values().map(|v| v.0).sum::<u64>()}));
    }
    for (k, m) in &ub {
        // key = backend:inst:template|profile
        let mut it = k.splitn(3, ':');
        let (b, i) = (it.next().unwrap_or("?").to_string(), it.next().unwrap_or("?").to_string());
        let rest = it.next().unwrap_or("?");
        let (template, profile) = rest.rsplit_once('|').unwrap_or((rest, ""));
        // keep the sanitizer's diagnosis, drop the scratch path / line
        let diag = m.split("runtime error:").nth(1).map(|d| format!("UBSan runtime error:{d}")).unwrap_or_else(|| m.clone());
        let w = json!({"backend": b, "instruction": i, "expression": template, "template": template, "operand": VAR, "operand_type": "declared type", "profile": profile,
                       "class": "undefined-behaviour", "got": diag, "input": "some input of the domain (the sanitizer aborted the worker)", "expected": "a defined value", "sanitizer": m});
        bad.entry((b, i)).or_default().push(("undefined-behaviour".into(), w, 1, 1));
    }
    for ((backend, inst), mut v) in bad {
        v.sort_by_key(|x| class_priority(&x.0));
        let (class, w, count, evaluated) = v[0].clone();
        let sig = if casts {
            if class == "round-trip" || inst.contains('+') {
                format!("cast:{backend}:{inst}:round-trip")
            } else {
                format!("cast:{backend}:{inst}")
            }
        } else {
            format!("scalar:{backend}:{inst}:{class}")
        };
        let what = format!(
            "{backend} {inst}: `{}` on operand `{}` ({}) gives {} for input {}; the canonical ABI requires {} [{class}]",
            w["expression"].as_str().unwrap_or("?"),
            w["operand"].as_str().unwrap_or("?"),
            w["operand_type"].as_str().unwrap_or("?"),
            w["got"].as_str().or(w["sanitizer"].as_str()).unwrap_or("?"),
            w["input"].as_str().unwrap_or("?"),
            w["expected"].as_str().unwrap_or("?"),
        );
        let mut replay = w.clone();
        if let Some(m) = replay.as_object_mut() {
            m.insert("failing_inputs".into(), json!(count));
            m.insert("evaluated_inputs".into(), json!(evaluated));
            m.insert("all_classes".into(), json!(v.iter().map(|x| x.0.clone()).collect::<BTreeSet<_>>()));
            m.insert("mode".into(), json!(if casts { "casts" } else { "scalars" }));
        }
        rep.violation(&sig, &what, replay);
    }
    // inconclusive (backend, instruction) pairs
    let mut inc_pairs: BTreeMap<(String, String), Vec<String>> = BTreeMap::new();
    for (b, i, t, why) in &inconclusive {
        inc_pairs.entry((b.clone(), i.clone())).or_default().push(format!("`{t}`: {why}"));
    }
    for ((b, i), whys) in &inc_pairs {
        let mut w = whys.clone();
        w.sort();
        w.dedup();
        rep.inconclusive(&format!("{prop} {b} {i}: not judged: {}", w.join(" | ").chars().take(400).collect::<String>()));
    }
    let mut per_backend = serde_json::Map::new();
    for b in &selected {
        let j: Vec<String> = judged.get(b).map(|s| s.iter().cloned().collect()).unwrap_or_default();
        let inc: Vec<String> = inc_pairs.keys().filter(|k| &k.0 == b).map(|k| k.1.clone()).collect();
        per_backend.insert(b.clone(), json!({"judged": j, "inconclusive": inc}));
    }
    rep.extra.insert("per_backend".into(), Value::Object(per_backend));
    rep.extra.insert("expressions".into(), json!(expr_table));
    rep.extra.insert("types".into(), json!(type_table));
    rep.extra.insert("slot_high_bits".into(), json!(slot_high));
    rep.extra.insert("lenient_inputs".into(), json!(lenient));
    rep.extra.insert("trusted_base".into(), json!(trusted_base_all()));
    rep.extra.insert("cases".into(), json!(per_case));
    rep.extra.insert("timings_s".into(), json!(timings));
    for oc in outcomes.iter().take(8) {
        rep.sample(json!({"backend": oc.prepared_backend, "instruction": oc.inst, "expression": oc.template, "profile": oc.profile, "domain": oc.domain, "evaluated": oc.stats.evaluated}));
    }
    for a in trusted_base_all().iter().take(6) {
        rep.assume(a);
    }
    rep.assume("C#, Go, MoonBit and D expressions are evaluated by a model of each language's integer/float conversion rules (coverage.trusted_base lists every rule relied upon); only shapes the model understands are judged, anything else is inconclusive");
    let _ = std::fs::remove_dir_all(&scratch);
    rep.write(&args.out());
}
