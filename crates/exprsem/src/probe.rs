//! Type probes: read, from the generated bindings of the fixed scalar world,
//! which language type each backend declares for every WIT scalar and for the
//! core i32/i64/f32/f64 values.  Nothing is guessed: when a probe does not match,
//! the cases that need that type are inconclusive.
use std::collections::BTreeMap;

fn normalise(text: &str) -> String {
    text.split_whitespace().collect::<Vec<_>>().join(" ")
}

fn plausible_type(s: &str) -> bool {
    !s.is_empty() && s.len() <= 40 && s.chars().all(|c| c.is_ascii_alphanumeric() || matches!(c, '_' | '*' | ' ' | ':' | '<' | '>'))
}

/// Match `pattern` (literals with `{}` captures) anywhere in `text`.
pub fn capture(text: &str, pattern: &str) -> Option<Vec<String>> {
    let lits: Vec<&str> = pattern.split("{}").collect();
    let first = lits[0];
    let mut from = 0;
    while let Some(p) = text[from..].find(first) {
        let start = from + p;
        from = start + 1;
        let mut pos = start + first.len();
        let mut caps = vec![];
        let mut ok = true;
        for lit in &lits[1..] {
            if lit.is_empty() {
                ok = false;
                break;
            }
            match text[pos..].find(lit) {
                Some(q) => {
                    let cap = text[pos..pos + q].trim();
                    if !plausible_type(cap) {
                        ok = false;
                        break;
                    }
                    caps.push(cap.to_string());
                    pos += q + lit.len();
                }
                None => {
                    ok = false;
                    break;
                }
            }
        }
        if ok {
            return Some(caps);
        }
    }
    None
}

#[derive(Default, Debug, Clone)]
pub struct Types {
    /// WIT scalar name -> declared language type (param and result agree)
    pub declared: BTreeMap<String, String>,
    /// WIT scalar name -> core type used for it in the raw import/export signature
    pub core: BTreeMap<String, String>,
    pub notes: Vec<String>,
}

fn camel(n: &str) -> String {
    let mut c = n.chars();
    match c.next() {
        Some(f) => f.to_ascii_uppercase().to_string() + c.as_str(),
        None => String::new(),
    }
}

pub fn probe(backend: &str, files: &[(String, String)]) -> Types {
    let mut t = Types::default();
    let texts: Vec<String> = files.iter().map(|(_, c)| normalise(c)).collect();
    for n in crate::extract::SCALARS {
        let u = camel(n);
        let (decl, core): (String, String) = match backend {
            "rust" => (format!("pub fn f_{n}(x: {{}},) -> {{}}{{"), format!("_export_f_{n}_cabi<T_: Guest>(arg0: {{}},) -> {{}} {{")),
            "c" => (format!("extern {{}} v_s_sc_f_{n}({{}} x);"), format!("extern {{}} __wasm_import_v_s_sc_f_{n}({{}});")),
            "cpp" => (format!(" {{}} F{u}({{}} x);"), format!("))) {{}} __wasm_import_vX3AsX2FscX00f_{n}({{}});")),
            "csharp" => (format!("public static unsafe {{}} F{u}({{}} x)"), format!("public static extern {{}} wasmImportF{u}({{}} p0);")),
            "go" => (format!("func F{u}(x {{}}) {{}} {{"), format!("func wasm_import_f_{n}(arg0 {{}}) {{}} func")),
            "moonbit" => (format!("pub fn f_{n}(x : {{}}) -> {{}} {{"), format!("fn wasmImportF{u}(p0 : {{}}) -> {{}} =")),
            "d" => (format!("+/ {{}} f{u}({{}} x)"), format!("private extern(C) {{}} __import_f{u}({{}}) nothrow;")),
            _ => continue,
        };
        let find = |pat: &str| texts.iter().find_map(|tx| capture(tx, pat));
        match find(&decl) {
            Some(c) if c.len() == 2 && c[0] == c[1] => {
                t.declared.insert(n.to_string(), c[0].clone());
            }
            Some(c) => t.notes.push(format!("{backend}: declared type probe for {n} is ambiguous: {c:?}")),
            None => t.notes.push(format!("{backend}: declared type probe for {n} did not match")),
        }
        match find(&core) {
            Some(c) if c.len() == 2 && c[0] == c[1] => {
                t.core.insert(n.to_string(), c[0].clone());
            }
            Some(c) => t.notes.push(format!("{backend}: core type probe for {n} is ambiguous: {c:?}")),
            None => t.notes.push(format!("{backend}: core type probe for {n} did not match")),
        }
    }
    t
}
