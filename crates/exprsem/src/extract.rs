//! Extractor: run every backend in-process under hook H4 on a fixed scalar
//! world and on the variant-heavy boundary world, and collect what each scalar
//! conversion instruction and each `Bitcast` was turned into.
use std::collections::BTreeMap;
use wit_bindgen_core::{abi::verif, Files, WorldGenerator};
use wit_parser::{Resolve, WorldId};

pub const BACKENDS: [&str; 7] = ["rust", "c", "cpp", "csharp", "go", "moonbit", "d"];

pub const SCALARS: [&str; 12] = ["bool", "u8", "s8", "u16", "s16", "u32", "s32", "u64", "s64", "f32", "f64", "char"];

/// The 26 scalar conversion instructions.
pub const SCALAR_INSTS: [&str; 24] = [
    "I32FromBool", "I32FromU8", "I32FromS8", "I32FromU16", "I32FromS16", "I32FromU32", "I32FromS32", "I32FromChar",
    "I64FromU64", "I64FromS64", "CoreF32FromF32", "CoreF64FromF64",
    "BoolFromI32", "U8FromI32", "S8FromI32", "U16FromI32", "S16FromI32", "U32FromI32", "S32FromI32", "CharFromI32",
    "U64FromI64", "S64FromI64", "F32FromCoreF32", "F64FromCoreF64",
];

/// One import and one export per scalar type and direction.
pub fn scalar_world() -> String {
    let mut s = String::from("package v:s;\ninterface sc {\n");
    for t in SCALARS {
        s.push_str(&format!("  f-{t}: func(x: {t}) -> {t};\n"));
    }
    s.push_str("}\nworld w { import sc; export sc; }\n");
    s
}

/// Extra variant shapes so that every Bitcast kind a backend can meet is emitted
/// (in addition to witgen::boundary_corpus() "variants").
pub fn cast_world() -> String {
    r#"package v:k;
interface k {
  variant a1 { a(s32), b(f32) }
  variant a2 { a(s32), b(s64) }
  variant a3 { a(f32), b(s64) }
  variant a4 { a(f64), b(s64) }
  variant a5 { a(f32), b(f64) }
  variant a6 { a(s32), b(f64) }
  variant a7 { a(string), b(s32) }
  variant a8 { a(string), b(f32) }
  variant a9 { a(string), b(s64) }
  variant a10 { a(string), b(f64) }
  variant a11 { a(tuple<u8, string>), b(tuple<u8, u8, s32>), c(tuple<u8, u8, f32>), d(tuple<u8, u8, s64>), e(tuple<u8, u8, f64>) }
  variant a12 { a(tuple<string, string>), b(tuple<s64, f64>), c(tuple<f32, s32>), d(tuple<f64, f32>) }
  variant a13 { a(tuple<s64, s64>), b(tuple<string, u8>), c(tuple<f32, f32>) }
  g1: func(a: a1, b: a2, c: a3) -> tuple<a1, a2, a3>;
  g2: func(a: a4, b: a5, c: a6) -> tuple<a4, a5, a6>;
  g3: func(a: a7, b: a8) -> tuple<a7, a8>;
  g4: func(a: a9, b: a10) -> tuple<a9, a10>;
  g5: func(a: a11) -> a11;
  g6: func(a: a12) -> a12;
  g7: func(a: a13) -> a13;
  variant a14 { a(tuple<u8, string>), b(tuple<u8, u8, s32>), c(tuple<u8, u8, f32>) }
  variant a15 { a(tuple<string, u8>), b(tuple<u8, string>) }
  variant a16 { a(tuple<u8, string>), b(tuple<u8, u8, string>), c(tuple<u8, u8, s64>) }
  variant a17 { a(tuple<u8, string>), b(tuple<u8, u8, f64>) }
  g8: func(a: a14) -> a14;
  g9: func(a: a15) -> a15;
  g10: func(a: a16) -> a16;
  g11: func(a: a17) -> a17;
}
world w { import k; export k; }
"#
    .to_string()
}

#[derive(Clone, Debug)]
pub struct Obs {
    pub backend: String,
    pub world: String,
    /// instruction name (`S8FromI32`) or, for casts, the Bitcast kind (`F32ToI64`, `Sequence(F32ToI64,I64ToP64)`)
    pub inst: String,
    pub is_cast: bool,
    pub operand: String,
    pub result: String,
    /// index into Extraction.files[backend][world]
    pub occurrences: u64,
}

#[derive(Default)]
pub struct Extraction {
    /// (backend, world) -> generated files
    pub files: BTreeMap<(String, String), Vec<(String, String)>>,
    /// deduplicated observations
    pub obs: Vec<Obs>,
    /// backend failures (message) – reported as inconclusive
    pub failures: Vec<(String, String, String)>,
    pub emitted_total: u64,
}

fn build(backend: &str) -> Box<dyn WorldGenerator> {
    match backend {
        "rust" => Box::new(wit_bindgen_rust::Opts::default().build()),
        "c" => wit_bindgen_c::Opts::default().build(),
        "cpp" => wit_bindgen_cpp::Opts::default().build(None),
        "csharp" => wit_bindgen_csharp::Opts::default().build(),
        "go" => {
            let mut o = wit_bindgen_go::Opts::default();
            o.format = wit_bindgen_go::Format::False;
            o.build()
        }
        "moonbit" => {
            // the CLI default (clap) for --gen-dir is "gen"; `Default` gives ""
            let mut o = wit_bindgen_moonbit::Opts::default();
            o.gen_dir = "gen".to_string();
            o.build()
        }
        "d" => wit_bindgen_d::Opts::default().build(None),
        _ => unreachable!(),
    }
}

pub fn parse_world(wit: &str) -> anyhow::Result<(Resolve, WorldId)> {
    let mut resolve = Resolve::default();
    let pkg = resolve.push_str("verif.wit", wit)?;
    let world = resolve.select_world(&[pkg], None)?;
    Ok((resolve, world))
}

/// split the top-level comma separated list inside `Bitcasts { casts: [ ... ] }`
pub fn parse_casts(inst: &str) -> Option<Vec<String>> {
    let start = inst.find('[')?;
    let end = inst.rfind(']')?;
    let body = &inst[start + 1..end];
    let mut out = vec![];
    let mut depth = 0i32;
    let mut cur = String::new();
    for ch in body.chars() {
        match ch {
            '(' | '[' => {
                depth += 1;
                cur.push(ch)
            }
            ')' | ']' => {
                depth -= 1;
                cur.push(ch)
            }
            ',' if depth == 0 => {
                out.push(norm_cast(&cur));
                cur.clear();
            }
            _ => cur.push(ch),
        }
    }
    if !cur.trim().is_empty() {
        out.push(norm_cast(&cur));
    }
    Some(out)
}

/// `Sequence([F32ToI64, I64ToP64])` -> `Sequence(F32ToI64,I64ToP64)`
fn norm_cast(s: &str) -> String {
    s.chars().filter(|c| !c.is_whitespace() && *c != '[' && *c != ']').collect()
}

/// Undo `{:?}` of a String operand ("\"foo\\n\"" -> foo\n).  Non-string operands
/// (backends whose Operand is not String) are returned unchanged.
pub fn unquote(s: &str) -> String {
    if s.len() >= 2 && s.starts_with('"') && s.ends_with('"') {
        match serde_json::from_str::<String>(s) {
            Ok(v) => return v,
            Err(_) => {
                // Rust Debug escapes differ from JSON only for \' and \u{..}
                let inner = &s[1..s.len() - 1];
                let mut out = String::new();
                let mut it = inner.chars().peekable();
                while let Some(c) = it.next() {
                    if c != '\\' {
                        out.push(c);
                        continue;
                    }
                    match it.next() {
                        Some('n') => out.push('\n'),
                        Some('t') => out.push('\t'),
                        Some('r') => out.push('\r'),
                        Some('0') => out.push('\0'),
                        Some('\\') => out.push('\\'),
                        Some('"') => out.push('"'),
                        Some('\'') => out.push('\''),
                        Some('u') => {
                            let mut hex = String::new();
                            if it.peek() == Some(&'{') {
                                it.next();
                                for h in it.by_ref() {
                                    if h == '}' {
                                        break;
                                    }
                                    hex.push(h);
                                }
                            }
                            if let Some(ch) = u32::from_str_radix(&hex, 16).ok().and_then(char::from_u32) {
                                out.push(ch);
                            }
                        }
                        Some(o) => {
                            out.push('\\');
                            out.push(o)
                        }
                        None => {}
                    }
                }
                return out;
            }
        }
    }
    s.to_string()
}

pub fn worlds() -> Vec<(String, String)> {
    let mut w = vec![("scalars".to_string(), scalar_world()), ("casts".to_string(), cast_world())];
    for (name, wit) in witgen::boundary_corpus() {
        if name == "variants" {
            w.push(("variants".to_string(), wit));
        }
    }
    w
}

pub fn run_all() -> Extraction {
    let mut ex = Extraction::default();
    let mut dedup: BTreeMap<(String, String, bool, String, String), usize> = BTreeMap::new();
    for (wname, wit) in worlds() {
        for backend in BACKENDS {
            let parsed = parse_world(&wit);
            let (mut resolve, world) = match parsed {
                Ok(x) => x,
                Err(e) => {
                    ex.failures.push((backend.to_string(), wname.clone(), format!("world does not parse: {e:#}")));
                    continue;
                }
            };
            let r = vkit::catch(std::panic::AssertUnwindSafe(move || -> Result<(Vec<(String, String)>, Vec<verif::Emitted>), String> {
                let mut generator = build(backend);
                let mut files = Files::default();
                verif::start();
                let r = generator.generate(&mut resolve, world, &mut files);
                let emitted = verif::take();
                r.map_err(|e| format!("{e:#}"))?;
                Ok((files.iter().map(|(n, c)| (n.to_string(), String::from_utf8_lossy(c).to_string())).collect(), emitted))
            }));
            let (files, emitted) = match r {
                Ok(Ok(x)) => x,
                Ok(Err(e)) => {
                    ex.failures.push((backend.to_string(), wname.clone(), format!("generate error: {e}")));
                    continue;
                }
                Err((msg, loc)) => {
                    let _ = verif::take();
                    ex.failures.push((backend.to_string(), wname.clone(), format!("generator panicked: {msg} at {loc}")));
                    continue;
                }
            };
            ex.emitted_total += emitted.len() as u64;
            for e in &emitted {
                let name = e.inst.split(|c: char| !c.is_alphanumeric()).next().unwrap_or("").to_string();
                if SCALAR_INSTS.contains(&name.as_str()) {
                    if e.operands.len() != 1 || e.results.len() != 1 {
                        continue;
                    }
                    let key = (backend.to_string(), name.clone(), false, unquote(&e.operands[0]), unquote(&e.results[0]));
                    add(&mut ex, &mut dedup, key, &wname);
                } else if name == "Bitcasts" {
                    let Some(casts) = parse_casts(&e.inst) else { continue };
                    if casts.len() != e.operands.len() || casts.len() != e.results.len() {
                        continue;
                    }
                    for (i, c) in casts.iter().enumerate() {
                        let key = (backend.to_string(), c.clone(), true, unquote(&e.operands[i]), unquote(&e.results[i]));
                        add(&mut ex, &mut dedup, key, &wname);
                    }
                }
            }
            ex.files.insert((backend.to_string(), wname.clone()), files);
        }
    }
    ex
}

fn add(ex: &mut Extraction, dedup: &mut BTreeMap<(String, String, bool, String, String), usize>, key: (String, String, bool, String, String), world: &str) {
    if let Some(i) = dedup.get(&key) {
        ex.obs[*i].occurrences += 1;
        return;
    }
    dedup.insert(key.clone(), ex.obs.len());
    ex.obs.push(Obs { backend: key.0, world: world.to_string(), inst: key.1, is_cast: key.2, operand: key.3, result: key.4, occurrences: 1 });
}
