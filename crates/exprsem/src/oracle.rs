//! The oracle: canonical-ABI semantics of scalar lowering / lifting
//! (`lower_flat` / `lift_flat` for scalars) and of the variant slot coercions
//! (`cabi_ref::Abi::coerce_into_slot` / `coerce_from_slot`), the input domains,
//! and the judge that classifies each observed (input, output) pair.
use crate::ir::{int_value, mask, Ty};
use cabi_ref::{Abi, CoreTy, CoreVal};

#[derive(Clone, Copy, Debug, PartialEq, Eq)]
pub enum Scalar {
    Bool,
    U8,
    S8,
    U16,
    S16,
    U32,
    S32,
    U64,
    S64,
    F32,
    F64,
    Char,
}

impl Scalar {
    pub fn wit(self) -> &'static str {
        match self {
            Scalar::Bool => "bool",
            Scalar::U8 => "u8",
            Scalar::S8 => "s8",
            Scalar::U16 => "u16",
            Scalar::S16 => "s16",
            Scalar::U32 => "u32",
            Scalar::S32 => "s32",
            Scalar::U64 => "u64",
            Scalar::S64 => "s64",
            Scalar::F32 => "f32",
            Scalar::F64 => "f64",
            Scalar::Char => "char",
        }
    }
    /// value width in bits
    pub fn bits(self) -> u8 {
        match self {
            Scalar::Bool => 1,
            Scalar::U8 | Scalar::S8 => 8,
            Scalar::U16 | Scalar::S16 => 16,
            Scalar::U32 | Scalar::S32 | Scalar::F32 | Scalar::Char => 32,
            _ => 64,
        }
    }
    pub fn signed(self) -> bool {
        matches!(self, Scalar::S8 | Scalar::S16 | Scalar::S32 | Scalar::S64)
    }
    pub fn core_bits(self) -> u8 {
        if self.bits() == 64 {
            64
        } else {
            32
        }
    }
    pub fn is_float(self) -> bool {
        matches!(self, Scalar::F32 | Scalar::F64)
    }
}

/// (instruction name) -> (is_lower, scalar)
pub fn scalar_inst(name: &str) -> Option<(bool, Scalar)> {
    Some(match name {
        "I32FromBool" => (true, Scalar::Bool),
        "I32FromU8" => (true, Scalar::U8),
        "I32FromS8" => (true, Scalar::S8),
        "I32FromU16" => (true, Scalar::U16),
        "I32FromS16" => (true, Scalar::S16),
        "I32FromU32" => (true, Scalar::U32),
        "I32FromS32" => (true, Scalar::S32),
        "I32FromChar" => (true, Scalar::Char),
        "I64FromU64" => (true, Scalar::U64),
        "I64FromS64" => (true, Scalar::S64),
        "CoreF32FromF32" => (true, Scalar::F32),
        "CoreF64FromF64" => (true, Scalar::F64),
        "BoolFromI32" => (false, Scalar::Bool),
        "U8FromI32" => (false, Scalar::U8),
        "S8FromI32" => (false, Scalar::S8),
        "U16FromI32" => (false, Scalar::U16),
        "S16FromI32" => (false, Scalar::S16),
        "U32FromI32" => (false, Scalar::U32),
        "S32FromI32" => (false, Scalar::S32),
        "CharFromI32" => (false, Scalar::Char),
        "U64FromI64" => (false, Scalar::U64),
        "S64FromI64" => (false, Scalar::S64),
        "F32FromCoreF32" => (false, Scalar::F32),
        "F64FromCoreF64" => (false, Scalar::F64),
        _ => return None,
    })
}

/// Wasm value types as wit-bindgen's `WasmType`
#[derive(Clone, Copy, Debug, PartialEq, Eq, PartialOrd, Ord)]
pub enum W {
    I32,
    I64,
    F32,
    F64,
    P,
    P64,
    L,
}

impl W {
    pub fn bits(self) -> u8 {
        match self {
            W::I64 | W::F64 | W::P64 => 64,
            _ => 32,
        }
    }
    pub fn core(self) -> CoreTy {
        match self {
            W::I32 | W::P | W::L => CoreTy::I32,
            W::I64 | W::P64 => CoreTy::I64,
            W::F32 => CoreTy::F32,
            W::F64 => CoreTy::F64,
        }
    }
    pub fn name(self) -> &'static str {
        match self {
            W::I32 => "I32",
            W::I64 => "I64",
            W::F32 => "F32",
            W::F64 => "F64",
            W::P => "Pointer",
            W::P64 => "PointerOrI64",
            W::L => "Length",
        }
    }
}

pub fn atomic_cast(kind: &str) -> Option<(W, W)> {
    Some(match kind {
        "F32ToI32" => (W::F32, W::I32),
        "F64ToI64" => (W::F64, W::I64),
        "I32ToI64" => (W::I32, W::I64),
        "F32ToI64" => (W::F32, W::I64),
        "I32ToF32" => (W::I32, W::F32),
        "I64ToF64" => (W::I64, W::F64),
        "I64ToI32" => (W::I64, W::I32),
        "I64ToF32" => (W::I64, W::F32),
        "P64ToI64" => (W::P64, W::I64),
        "I64ToP64" => (W::I64, W::P64),
        "P64ToP" => (W::P64, W::P),
        "PToP64" => (W::P, W::P64),
        "I32ToP" => (W::I32, W::P),
        "PToI32" => (W::P, W::I32),
        "PToL" => (W::P, W::L),
        "LToP" => (W::L, W::P),
        "I32ToL" => (W::I32, W::L),
        "LToI32" => (W::L, W::I32),
        "I64ToL" => (W::I64, W::L),
        "LToI64" => (W::L, W::I64),
        _ => return None,
    })
}

/// `F32ToI64` or `Sequence(A,B)` -> list of atomic steps
pub fn cast_steps(kind: &str) -> Option<Vec<(W, W)>> {
    if let Some(inner) = kind.strip_prefix("Sequence(").and_then(|s| s.strip_suffix(')')) {
        // nested sequences are not produced by `cast`, but handle one level of nesting on either side
        let mut depth = 0;
        let mut split = None;
        for (i, c) in inner.char_indices() {
            match c {
                '(' => depth += 1,
                ')' => depth -= 1,
                ',' if depth == 0 => {
                    split = Some(i);
                    break;
                }
                _ => {}
            }
        }
        let s = split?;
        let mut a = cast_steps(&inner[..s])?;
        let b = cast_steps(&inner[s + 1..])?;
        if a.last()?.1 != b.first()?.0 {
            return None;
        }
        a.extend(b);
        return Some(a);
    }
    atomic_cast(kind).map(|x| vec![x])
}

/// One atomic step on core bits, by the spec's coercions.  Pointer/Length are
/// i32, PointerOrI64 is i64 (wasm32).  Uses cabi-ref for the joined-slot
/// coercions so that this file adds no second definition of them.
fn step(from: W, to: W, bits: u64) -> u64 {
    let v = match from.core() {
        CoreTy::I32 => CoreVal::I32(bits as u32),
        CoreTy::I64 => CoreVal::I64(bits),
        CoreTy::F32 => CoreVal::F32(bits as u32),
        CoreTy::F64 => CoreVal::F64(bits),
    };
    let (fc, tc) = (from.core(), to.core());
    let out = if fc == tc {
        v
    } else if matches!((fc, tc), (CoreTy::F32, CoreTy::I32) | (CoreTy::I32, CoreTy::I64) | (CoreTy::F32, CoreTy::I64) | (CoreTy::F64, CoreTy::I64)) {
        Abi::coerce_into_slot(v, tc)
    } else {
        Abi::coerce_from_slot(v, tc)
    };
    match out {
        CoreVal::I32(x) | CoreVal::F32(x) => x as u64,
        CoreVal::I64(x) | CoreVal::F64(x) => x,
    }
}

pub fn cast_expected(steps: &[(W, W)], bits: u64) -> u64 {
    let mut b = bits;
    for (f, t) in steps {
        b = step(*f, *t, b);
    }
    b
}

#[derive(Clone, Debug)]
pub enum Sem {
    Lower(Scalar),
    Lift(Scalar),
    Cast { kind: String, steps: Vec<(W, W)> },
}

impl Sem {
    pub fn from_w(&self) -> Option<W> {
        match self {
            Sem::Cast { steps, .. } => Some(steps[0].0),
            _ => None,
        }
    }
    pub fn to_w(&self) -> Option<W> {
        match self {
            Sem::Cast { steps, .. } => Some(steps.last().unwrap().1),
            _ => None,
        }
    }
    /// width in bits of the abstract input
    pub fn input_bits(&self) -> u8 {
        match self {
            Sem::Lower(s) => s.bits().max(if *s == Scalar::Bool { 1 } else { 0 }),
            Sem::Lift(s) => s.core_bits(),
            Sem::Cast { steps, .. } => steps[0].0.bits(),
        }
    }
}

// ---------------------------------------------------------------------- domains

#[derive(Clone, Debug)]
pub enum Domain {
    /// all patterns of `bits` bits (1, 8, 16 or 32)
    Exhaustive(u8),
    /// all 2^16 low halves crossed with the listed high halves
    LowHigh(Vec<u16>),
    /// all unicode scalar values
    CharScalars,
    /// boundary values followed by `n` pseudo-random 64-bit values
    Random64 { boundary: Vec<u64>, n: u64, seed: u64 },
    List(Vec<u64>),
}

#[inline]
fn mix(mut z: u64) -> u64 {
    z = z.wrapping_add(0x9E3779B97F4A7C15);
    z = (z ^ (z >> 30)).wrapping_mul(0xBF58476D1CE4E5B9);
    z = (z ^ (z >> 27)).wrapping_mul(0x94D049BB133111EB);
    z ^ (z >> 31)
}

impl Domain {
    pub fn len(&self) -> u64 {
        match self {
            Domain::Exhaustive(b) => 1u64 << b,
            Domain::LowHigh(h) => (h.len() as u64) << 16,
            Domain::CharScalars => 0x110000 - 0x800,
            Domain::Random64 { boundary, n, .. } => boundary.len() as u64 + n,
            Domain::List(v) => v.len() as u64,
        }
    }
    #[inline]
    pub fn get(&self, i: u64) -> u64 {
        match self {
            Domain::Exhaustive(_) => i,
            Domain::LowHigh(h) => ((h[(i >> 16) as usize] as u64) << 16) | (i & 0xffff),
            Domain::CharScalars => {
                if i < 0xD800 {
                    i
                } else {
                    i + 0x800
                }
            }
            Domain::Random64 { boundary, seed, .. } => {
                if (i as usize) < boundary.len() {
                    boundary[i as usize]
                } else {
                    let r = mix(seed.wrapping_mul(0x2545F4914F6CDD1D) ^ mix(i));
                    // a quarter of the values get a "structured" shape: sign/zero extended 32-bit
                    match r & 7 {
                        0 => r >> 32,
                        1 => (r >> 32) as u32 as i32 as i64 as u64,
                        _ => r,
                    }
                }
            }
            Domain::List(v) => v[i as usize],
        }
    }
    pub fn describe(&self) -> String {
        match self {
            Domain::Exhaustive(b) => format!("exhaustive 2^{b}"),
            Domain::LowHigh(h) => format!("2^16 low halves x {} high halves", h.len()),
            Domain::CharScalars => "all 1112064 unicode scalar values".into(),
            Domain::Random64 { boundary, n, .. } => format!("{} boundary + {} random 64-bit values", boundary.len(), n),
            Domain::List(v) => format!("{} listed values", v.len()),
        }
    }
}

pub fn boundary64() -> Vec<u64> {
    let mut v = vec![0u64, 1, 2, 0x7f, 0x80, 0xff, 0x100, 0x7fff, 0x8000, 0xffff, 0x10000, 0x7fff_ffff, 0x8000_0000, 0xffff_ffff, 0x1_0000_0000, 0x7fff_ffff_ffff_ffff, 0x8000_0000_0000_0000, u64::MAX];
    for k in 0..64 {
        v.push(1u64 << k);
        v.push((1u64 << k).wrapping_sub(1));
        v.push(!(1u64 << k));
    }
    // f64 / f32-in-low-half NaNs, infinities, signalling NaNs, negative zero
    v.extend([
        0x7ff0_0000_0000_0000,
        0xfff0_0000_0000_0000,
        0x7ff8_0000_0000_0000,
        0x7ff0_0000_0000_0001,
        0xfff8_0000_dead_beef,
        0x7ff4_0000_0000_0000,
        0x8000_0000_0000_0000,
        0x0000_0000_7fc0_0000,
        0x0000_0000_7f80_0001,
        0x0000_0000_ffc0_1234,
        0xffff_ffff_7fc0_0000,
        0xffff_ffff_ff80_0001,
        0x0000_0000_8000_0000,
        0xffff_ffff_8000_0000,
    ]);
    v.sort();
    v.dedup();
    v
}

pub fn high_halves(seed: u64) -> Vec<u16> {
    let mut h: Vec<u16> = vec![0, 1, 0x7fff, 0x8000, 0xffff, 0x7fc0, 0xff80, 0x7f80];
    let mut i = 0u64;
    while h.len() < 16 {
        let r = (mix(seed.wrapping_mul(0x9E37_79B9).wrapping_add(i)) >> 20) as u16;
        i += 1;
        if !h.contains(&r) {
            h.push(r);
        }
    }
    h
}

pub fn domain_for(sem: &Sem, thorough: bool, seed: u64, exhaustive32: bool) -> Domain {
    let d32 = |seed: u64| if thorough && exhaustive32 { Domain::Exhaustive(32) } else { Domain::LowHigh(high_halves(seed)) };
    let d64 = |seed: u64| Domain::Random64 { boundary: boundary64(), n: if thorough { 100_000_000 } else { 1_000_000 }, seed };
    match sem {
        Sem::Lower(s) => match s {
            Scalar::Bool => Domain::Exhaustive(1),
            Scalar::U8 | Scalar::S8 => Domain::Exhaustive(8),
            Scalar::U16 | Scalar::S16 => Domain::Exhaustive(16),
            Scalar::Char => Domain::CharScalars,
            Scalar::U32 | Scalar::S32 | Scalar::F32 => d32(seed),
            _ => d64(seed),
        },
        Sem::Lift(s) => {
            if s.core_bits() == 32 {
                d32(seed)
            } else {
                d64(seed)
            }
        }
        Sem::Cast { steps, .. } => {
            if steps[0].0.bits() == 32 {
                d32(seed)
            } else {
                d64(seed)
            }
        }
    }
}

// ------------------------------------------------------------------------ judge

#[derive(Clone, Copy, Debug, PartialEq, Eq, PartialOrd, Ord, Hash)]
pub enum Verdict {
    Ok,
    /// matches, and the upper half of a widened slot is the zero extension
    OkZeroExt,
    /// matches in the low half; upper half is the sign extension (a spec
    /// conforming peer wraps, so this is observationally equivalent)
    OkSignExt,
    /// input outside the set of encodings a conforming host sends and the
    /// backend is allowed to assume validity (bool ∉ {0,1}, invalid char)
    Lenient,
    /// only a NaN payload differs
    NanPayload,
    Bad(&'static str),
}

/// Encode abstract input `x` (see `Sem::input_bits`) as raw bits of the operand
/// type.  `None` = this operand type cannot represent the value (inconclusive).
pub fn encode_input(sem: &Sem, operand: Ty, x: u64, ptr_sext: bool) -> Option<u64> {
    match sem {
        Sem::Lower(s) => {
            let v: i128 = if s.signed() { int_value(Ty::Int { bits: s.bits(), signed: true }, x) } else { x as i128 };
            match (s, operand) {
                (Scalar::Bool, Ty::Bool) => Some(x & 1),
                (Scalar::F32, Ty::F32) | (Scalar::F64, Ty::F64) => Some(x),
                (Scalar::Char, Ty::Char) => Some(x),
                (Scalar::Bool | Scalar::F32 | Scalar::F64, _) => None,
                (_, Ty::Int { bits, .. }) => {
                    let raw = (v as u64) & mask(bits);
                    if int_value(operand, raw) == v {
                        Some(raw)
                    } else {
                        None
                    }
                }
                _ => None,
            }
        }
        Sem::Lift(s) => {
            let want = s.core_bits();
            match operand {
                Ty::Int { bits, .. } if bits == want && !s.is_float() => Some(x & mask(bits)),
                Ty::F32 if *s == Scalar::F32 => Some(x & 0xffff_ffff),
                Ty::F64 if *s == Scalar::F64 => Some(x),
                _ => None,
            }
        }
        Sem::Cast { steps, .. } => {
            let from = steps[0].0;
            match (from, operand) {
                (W::F32, Ty::F32) | (W::F64, Ty::F64) => Some(x & mask(from.bits())),
                (W::F32 | W::F64, _) => None,
                (W::P64, Ty::P64) => Some(x),
                (_, Ty::Int { bits, signed }) if bits == from.bits() => {
                    let _ = signed;
                    Some(x & mask(bits))
                }
                // 32-bit pointer/length held in a wider native type
                (W::P | W::L, Ty::Int { bits: 64, .. }) | (W::P | W::L, Ty::Ptr { bits: 64 }) => Some(if ptr_sext { x as u32 as i32 as i64 as u64 } else { x & 0xffff_ffff }),
                (W::P | W::L, Ty::Ptr { bits: 32 }) => Some(x & 0xffff_ffff),
                _ => None,
            }
        }
    }
}

#[derive(Clone, Debug, PartialEq)]
pub enum TypeCheck {
    Ok,
    /// the expression's type is not the declared one and does not convert to it
    /// implicitly (the generated code would not compile as is): values are still
    /// judged; a value mismatch is a violation, agreement is inconclusive
    Soft(String),
    /// results of this type cannot be judged at all
    Hard(String),
}

/// Can results of type `result` be judged for this semantics?
pub fn result_type_problem(sem: &Sem, result: Ty, declared: Option<Ty>, lang_allows_bool_to_int: bool) -> TypeCheck {
    match sem {
        Sem::Lower(s) => {
            let cb = s.core_bits();
            match result {
                Ty::Int { bits, .. } if bits <= cb && !s.is_float() => TypeCheck::Ok,
                Ty::Bool if lang_allows_bool_to_int && !s.is_float() => TypeCheck::Ok,
                Ty::Char if cb == 32 && !s.is_float() => TypeCheck::Ok,
                Ty::F32 if *s == Scalar::F32 => TypeCheck::Ok,
                Ty::F64 if *s == Scalar::F64 => TypeCheck::Ok,
                _ => TypeCheck::Hard(format!("result type {} cannot be passed as core {}", result.name(), if s.is_float() { "float" } else { "integer" })),
            }
        }
        Sem::Lift(s) => {
            let ok = match (s, result) {
                (Scalar::Bool, Ty::Bool) => true,
                (Scalar::F32, Ty::F32) | (Scalar::F64, Ty::F64) => true,
                (Scalar::Char, Ty::Char) => true,
                (Scalar::Bool | Scalar::F32 | Scalar::F64, _) => false,
                (_, Ty::Int { .. }) => true,
                _ => false,
            };
            if !ok {
                return TypeCheck::Hard(format!("result type {} cannot hold a {}", result.name(), s.wit()));
            }
            if let Some(d) = declared {
                if d != result {
                    // only value-preserving implicit widenings are accepted
                    let fine = match (result, d) {
                        (Ty::Int { bits: rb, signed: rs }, Ty::Int { bits: db, signed: ds }) => (rs == ds && db >= rb) || (!rs && ds && db > rb),
                        (Ty::Int { bits: 32, signed: false }, Ty::Char) | (Ty::Char, Ty::Int { bits: 32, signed: false }) => true,
                        _ => false,
                    };
                    if !fine {
                        return TypeCheck::Soft(format!("the expression has type {} which does not convert implicitly to the declared type {}", result.name(), d.name()));
                    }
                }
            }
            TypeCheck::Ok
        }
        Sem::Cast { steps, .. } => {
            let to = steps.last().unwrap().1;
            let ok = match (to, result) {
                (W::F32, Ty::F32) | (W::F64, Ty::F64) => true,
                (W::F32 | W::F64, _) => false,
                (W::P64, Ty::P64) => true,
                (_, Ty::Int { .. }) | (_, Ty::Ptr { .. }) => true,
                _ => false,
            };
            if ok {
                TypeCheck::Ok
            } else {
                TypeCheck::Hard(format!("result type {} cannot hold a {}", result.name(), to.name()))
            }
        }
    }
}

#[inline]
fn is_nan32(b: u64) -> bool {
    (b as u32 & 0x7f80_0000) == 0x7f80_0000 && (b as u32 & 0x007f_ffff) != 0
}
#[inline]
fn is_nan64(b: u64) -> bool {
    (b & 0x7ff0_0000_0000_0000) == 0x7ff0_0000_0000_0000 && (b & 0x000f_ffff_ffff_ffff) != 0
}

/// expected canonical core bits of a lowering
#[inline]
pub fn lower_expected(s: Scalar, x: u64) -> u64 {
    match s {
        Scalar::Bool => x & 1,
        Scalar::S8 => x as u8 as i8 as i32 as u32 as u64,
        Scalar::S16 => x as u16 as i16 as i32 as u32 as u64,
        Scalar::U8 => x & 0xff,
        Scalar::U16 => x & 0xffff,
        Scalar::U32 | Scalar::S32 | Scalar::F32 | Scalar::Char => x & 0xffff_ffff,
        _ => x,
    }
}

/// expected WIT value of a lift as (mathematical value | bits)
#[inline]
pub fn lift_expected(s: Scalar, x: u64) -> i128 {
    match s {
        Scalar::Bool => ((x as u32) != 0) as i128,
        Scalar::U8 => (x & 0xff) as i128,
        Scalar::S8 => (x as u8 as i8) as i128,
        Scalar::U16 => (x & 0xffff) as i128,
        Scalar::S16 => (x as u16 as i16) as i128,
        Scalar::U32 | Scalar::Char | Scalar::F32 => (x & 0xffff_ffff) as i128,
        Scalar::S32 => (x as u32 as i32) as i128,
        Scalar::U64 | Scalar::F64 => x as i128,
        Scalar::S64 => (x as i64) as i128,
    }
}

/// Is `x` (core bits) an encoding a spec-conforming peer produces for this type?
#[inline]
pub fn canonical_core(s: Scalar, x: u64) -> bool {
    match s {
        Scalar::Bool => x as u32 <= 1,
        Scalar::U8 => x as u32 <= 0xff,
        Scalar::U16 => x as u32 <= 0xffff,
        Scalar::S8 => (x as u32 as i32) >= -128 && (x as u32 as i32) <= 127,
        Scalar::S16 => (x as u32 as i32) >= -32768 && (x as u32 as i32) <= 32767,
        Scalar::Char => char::from_u32(x as u32).is_some(),
        _ => true,
    }
}

/// Judge one evaluation.  `x` is the abstract input, `res` the evaluation
/// result (raw bits of `result_ty`, or a trap).
#[inline]
pub fn judge(sem: &Sem, x: u64, res: Result<u64, ()>, result_ty: Ty) -> Verdict {
    match sem {
        Sem::Lower(s) => {
            let Ok(raw) = res else { return Verdict::Bad("traps") };
            let cb = s.core_bits();
            let got = match result_ty {
                Ty::F32 | Ty::F64 => raw,
                Ty::Bool => (raw != 0) as u64,
                _ => (int_value(result_ty, raw) as u64) & mask(cb),
            };
            let exp = lower_expected(*s, x);
            if got == exp {
                return Verdict::Ok;
            }
            match s {
                Scalar::F32 if is_nan32(exp) && is_nan32(got) => Verdict::NanPayload,
                Scalar::F64 if is_nan64(exp) && is_nan64(got) => Verdict::NanPayload,
                Scalar::Bool => Verdict::Bad("bool-not-0-or-1"),
                Scalar::S8 | Scalar::S16 | Scalar::S32 | Scalar::S64 => {
                    let vb = s.bits();
                    if got & mask(vb) == exp & mask(vb) {
                        Verdict::Bad("no-sign-extension")
                    } else {
                        Verdict::Bad("wrong-value")
                    }
                }
                Scalar::U8 | Scalar::U16 => {
                    let vb = s.bits();
                    if got & mask(vb) == exp & mask(vb) {
                        Verdict::Bad("not-zero-extended")
                    } else {
                        Verdict::Bad("wrong-value")
                    }
                }
                Scalar::F32 | Scalar::F64 => Verdict::Bad("bits-changed"),
                _ => Verdict::Bad("wrong-value"),
            }
        }
        Sem::Lift(s) => {
            let canonical = canonical_core(*s, x);
            let lenient = matches!(s, Scalar::Bool | Scalar::Char) && !canonical;
            let Ok(raw) = res else { return if lenient { Verdict::Lenient } else { Verdict::Bad("traps") } };
            if lenient {
                return Verdict::Lenient;
            }
            let exp = lift_expected(*s, x);
            let got: i128 = match result_ty {
                Ty::F32 | Ty::F64 => raw as i128,
                Ty::Bool => (raw != 0) as i128,
                _ => int_value(result_ty, raw),
            };
            if got == exp {
                return Verdict::Ok;
            }
            match s {
                Scalar::F32 if is_nan32(exp as u64) && is_nan32(got as u64) => Verdict::NanPayload,
                Scalar::F64 if is_nan64(exp as u64) && is_nan64(got as u64) => Verdict::NanPayload,
                Scalar::F32 | Scalar::F64 => Verdict::Bad("bits-changed"),
                _ if canonical => Verdict::Bad("wrong-on-canonical-input"),
                _ => Verdict::Bad("high-bits-not-ignored"),
            }
        }
        Sem::Cast { steps, .. } => {
            let Ok(raw) = res else { return Verdict::Bad("traps") };
            let from = steps[0].0;
            let to = steps.last().unwrap().1;
            let exp = cast_expected(steps, x & mask(from.bits()));
            // value of the result as it lands in a slot of the destination width
            let got = match result_ty {
                Ty::F32 | Ty::F64 | Ty::P64 => raw,
                Ty::Ptr { .. } => raw,
                _ => int_value(result_ty, raw) as u64, // implicit (value preserving) widening
            };
            if to.bits() == 32 {
                // low 32 bits are what a wasm32 slot holds
                if got & 0xffff_ffff == exp & 0xffff_ffff {
                    return Verdict::Ok;
                }
                if to == W::F32 && is_nan32(exp) && is_nan32(got) {
                    return Verdict::NanPayload;
                }
                return Verdict::Bad("wrong-value");
            }
            if from.bits() == 64 {
                if got == exp {
                    return Verdict::Ok;
                }
                if to == W::F64 && is_nan64(exp) && is_nan64(got) {
                    return Verdict::NanPayload;
                }
                return Verdict::Bad("wrong-value");
            }
            // 32 -> 64: spec zero-extends; a peer wraps on the way out
            if got & 0xffff_ffff != exp & 0xffff_ffff {
                return Verdict::Bad("low-bits-wrong");
            }
            let hi = got >> 32;
            if hi == 0 {
                Verdict::OkZeroExt
            } else if hi == 0xffff_ffff && (got & 0x8000_0000) != 0 {
                Verdict::OkSignExt
            } else {
                Verdict::Bad("high-bits-garbage")
            }
        }
    }
}

pub fn describe_expected(sem: &Sem, x: u64) -> String {
    match sem {
        Sem::Lower(s) => format!("core value 0x{:x}", lower_expected(*s, x)),
        Sem::Lift(s) => {
            if s.is_float() {
                format!("bits 0x{:x}", lift_expected(*s, x))
            } else {
                format!("{}", lift_expected(*s, x))
            }
        }
        Sem::Cast { steps, .. } => format!("0x{:x}", cast_expected(steps, x & mask(steps[0].0.bits()))),
    }
}

pub fn describe_got(res: Result<u64, ()>, ty: Ty) -> String {
    match res {
        Err(()) => "trap / panic / undefined behaviour".into(),
        Ok(raw) => match ty {
            Ty::Int { .. } => format!("{} (0x{:x} as {})", int_value(ty, raw), raw, ty.name()),
            Ty::Bool => format!("{}", raw != 0),
            _ => format!("0x{:x} ({})", raw, ty.name()),
        },
    }
}
