//! Typed compilation of parsed expressions into closure trees, with each
//! language's conversion / promotion / overflow rules.  The rules relied upon
//! are listed by `trusted_base()` and copied into the evidence file.
use crate::ir::*;
use crate::parse::{Ast, Lang};
use std::collections::BTreeMap;
use std::sync::Arc;

/// A helper function found in the generated output (MoonBit `extern "wasm"`
/// helpers, D templates) that expressions may call.
#[derive(Clone)]
pub enum Helper {
    /// params, result, compiled body over slots 0..n
    Func { params: Vec<Ty>, result: Ty, body: EvalFn },
    /// D `reinterpretCast!T`: bit reinterpretation between equally sized types
    /// (body verified textually by the extractor)
    DReinterpret,
}

pub struct Cx<'a> {
    pub lang: Lang,
    pub vars: BTreeMap<String, (Ty, usize)>,
    pub helpers: &'a BTreeMap<String, Helper>,
    pub checked: bool,
}

pub fn trusted_base(lang: Lang) -> Vec<&'static str> {
    match lang {
        Lang::CSharp => vec![
            "C#: sbyte/byte/short/ushort/int/uint/long/ulong are 8/16/32/64-bit two's complement; char is 16-bit unsigned; float/double are IEEE binary32/64",
            "C# (ECMA-334 §12.8.20): a non-constant expression not enclosed in checked/unchecked is evaluated in the default context, which is unchecked unless the compiler option CheckForOverflowUnderflow is set (the generated .csproj does not set it)",
            "C# (§10.3.2): explicit integral conversions in an unchecked context discard excess high-order bits when narrowing and sign-extend (signed source) or zero-extend (unsigned source) when widening; in a checked context an out-of-range value throws OverflowException",
            "C# (§12.4.7): binary numeric promotion: ulong if either is ulong (the other must not be a signed non-constant), else long if either is long or if uint meets sbyte/short/int, else uint if either is uint, else int",
            "C# (§6.4.5.3): an unsuffixed integer literal has the first of int, uint, long, ulong that can hold it; U → uint/ulong, L → long/ulong, UL → ulong; a constant int expression converts implicitly to a narrower integral type when in range",
            "C# (§10.2.3): implicit numeric conversions exist only for value-preserving widenings (sbyte→short/int/long, byte→short/ushort/int/uint/long/ulong, short→int/long, ushort→int/uint/long/ulong, int→long, uint→long/ulong, char→ushort/int/uint/long/ulong)",
            "C#: System.BitConverter.SingleToInt32Bits/Int32BitsToSingle/DoubleToInt64Bits/Int64BitsToDouble (and the UInt32/UInt64 variants) reinterpret the IEEE bits unchanged, including NaN payloads",
            "C#/Go/D: an explicit conversion from a floating-point to an integer type truncates toward zero; for NaN or a value outside the target range the result is unspecified (C# unchecked), implementation-dependent (Go) or undefined (D) and is modelled as a trap; integer to floating-point conversions round to nearest-even",
            "C#: shift counts are masked to 5 bits (int/uint) or 6 bits (long/ulong); >> is arithmetic on signed and logical on unsigned operands",
        ],
        Lang::Go => vec![
            "Go spec (Numeric types): int8..int64/uint8..uint64 are two's complement of the stated width; rune = int32, byte = uint8; on GOARCH=wasm int/uint/uintptr are 64 bits wide (uintptr is truncated to i32 at a go:wasmimport/wasmexport boundary, so pointer-typed results are judged modulo 2^32)",
            "Go spec (Conversions): converting between integer types sign-extends a signed source / zero-extends an unsigned source to implicit infinite precision and then truncates to the result size; no overflow indication",
            "Go spec (Constants): an untyped integer constant converted to a typed value (explicitly or as an operand) must be representable in that type, otherwise the program does not compile",
            "Go spec (Operators): operands of binary operators must have identical types (after untyped-constant conversion); integer + - * << wrap around silently; x >> n is arithmetic for signed x and logical for unsigned x; a shift count >= width yields 0 (or -1 for negative signed x); a negative count panics",
            "Go spec (Operator precedence): 5: * / % << >> & &^; 4: + - | ^; 3: == != < <= > >=; 2: &&; 1: ||; unary ^ is bitwise complement",
            "Go math.Float32bits/Float32frombits/Float64bits/Float64frombits reinterpret IEEE bits unchanged (uint32/uint64 <-> float32/float64)",
            "Go: `var r T` zero-initialises; `if c { r = a } else { r = b }` assigns exactly one branch",
        ],
        Lang::MoonBit => vec![
            "MoonBit: Int is a 32-bit two's complement integer whose + - * wrap (wasm i32.add/sub/mul); UInt is 32-bit unsigned; Int64/UInt64 are 64-bit; Byte is 8-bit unsigned; Float/Double are IEEE binary32/64; Char is a 32-bit code point; Bool is true/false",
            "MoonBit core: Int::to_byte keeps the low 8 bits; Byte::to_int / Byte::to_uint zero-extend; Int::to_int64 sign-extends; UInt::to_uint64 zero-extends; Int64::to_int / UInt64::to_int / UInt64::to_uint keep the low 32 bits; Char::to_int / Char::to_uint give the code point; Int::unsafe_to_char reinterprets the Int as a code point without a check; Bool::to_int is 0/1",
            "MoonBit core: reinterpret_as_int/uint/int64/uint64 change signedness without changing bits; Int::to_uint, UInt::to_int, Int64::to_uint64 and UInt64::to_int64 are (deprecated) aliases of those; Int|UInt::reinterpret_as_float, Float::reinterpret_as_int|uint, Int64|UInt64::reinterpret_as_double, Double::reinterpret_as_int64|uint64 reinterpret IEEE bits unchanged",
            "MoonBit core: land/lor/lxor are bitwise and/or/xor; lsl/shl shift left, asr arithmetic shift right, lsr/shr logical (UInt) shift right, counts taken modulo the width (wasm semantics); lnot complements",
            "MoonBit: an unsuffixed integer literal takes the integer type expected by its context (default Int) and must fit; suffix L = Int64, U = UInt, UL = UInt64; both operands of a binary operator have the same type; `if c { a } else { b }` is an expression",
            "MoonBit operator precedence assumed (high to low): unary; * / %; + -; << >>; &; ^; |; comparisons; &&; ||",
            "MoonBit `extern \"wasm\" fn f(..) -> T = #|(func ...)` helpers are interpreted from the WebAssembly text in the generated output with core-spec semantics (i32.extend8_s/16_s, wrap, extend, reinterpret, integer arithmetic); Int/UInt/Byte/Bool/Char map to i32, Int64/UInt64 to i64, Float to f32, Double to f64",
        ],
        Lang::D => vec![
            "D spec (Types): byte/ubyte 8, short/ushort 16, int/uint 32, long/ulong 64 bits two's complement; char/wchar/dchar are unsigned 8/16/32; bool is 0/1; size_t, ptrdiff_t and pointers are 32 bits wide on wasm32",
            "D spec (Cast Expressions): casting between integral types truncates when narrowing and sign-extends (signed source) or zero-extends (unsigned source) when widening; cast(bool)e is e != 0; bool converts to integral 0/1; casting an integer to a pointer or back keeps the address bits",
            "D spec (Usual Arithmetic Conversions): operands narrower than int are promoted to int; then ulong if either is ulong, else long if either is long, else uint if either is uint, else int; comparisons between signed and unsigned convert the signed operand to unsigned; integer arithmetic wraps",
            "D spec (Integer Literals): decimal literals are int or long; hex literals are the first of int, uint, long, ulong that fits; suffix U/u unsigned, L long",
            "D: `reinterpretCast!T(x)` is the helper template emitted into wit/common.d (union { U from; T to; } with T.sizeof == U.sizeof); its text is checked before it is modelled as a bit reinterpretation; UFCS `x.f!T` == `f!T(x)`",
            "D: unparenthesised mixes of comparison and bitwise operators are rejected by the compiler (treated as unknown)",
        ],
    }
}

pub fn type_by_name(lang: Lang, name: &str) -> Option<Ty> {
    let n: String = name.chars().filter(|c| !c.is_whitespace()).collect();
    Some(match lang {
        Lang::CSharp => match n.as_str() {
            "bool" => Ty::Bool,
            "sbyte" => I8,
            "byte" => U8,
            "short" => I16,
            "ushort" | "char" => U16,
            "int" | "nint" => I32,
            "uint" | "nuint" => U32,
            "long" => I64,
            "ulong" => U64,
            "float" => Ty::F32,
            "double" => Ty::F64,
            _ => return None,
        },
        Lang::Go => match n.as_str() {
            "bool" => Ty::Bool,
            "int8" => I8,
            "uint8" | "byte" => U8,
            "int16" => I16,
            "uint16" => U16,
            "int32" | "rune" => I32,
            "uint32" => U32,
            "int64" | "int" => I64,
            "uint64" | "uint" | "uintptr" => U64,
            "float32" => Ty::F32,
            "float64" => Ty::F64,
            _ => return None,
        },
        Lang::MoonBit => match n.as_str() {
            "Bool" => Ty::Bool,
            "Byte" => U8,
            "Int16" => I16,
            "UInt16" => U16,
            "Int" => I32,
            "UInt" => U32,
            "Int64" => I64,
            "UInt64" => U64,
            "Float" => Ty::F32,
            "Double" => Ty::F64,
            "Char" => Ty::Char,
            _ => return None,
        },
        Lang::D => match n.as_str() {
            "bool" => Ty::Bool,
            "byte" => I8,
            "ubyte" | "char" => U8,
            "short" => I16,
            "ushort" | "wchar" => U16,
            "int" | "ptrdiff_t" => I32,
            "uint" | "size_t" | "void*" => U32,
            "dchar" => Ty::Char,
            "long" => I64,
            "ulong" => U64,
            "float" => Ty::F32,
            "double" => Ty::F64,
            _ => return None,
        },
    })
}

fn lit_flag(e: &Expr) -> bool {
    e.konst.is_some()
}

/// marks "untyped constant" (Go) / "literal whose type comes from context"
/// (MoonBit): carried as I64-typed constant with this wrapper
#[derive(Clone)]
struct Typed {
    e: Expr,
    untyped: bool,
}

impl<'a> Cx<'a> {
    pub fn compile(&mut self, ast: &Ast) -> CResult<Expr> {
        let t = self.c(ast)?;
        self.settle(t)
    }

    /// give an untyped constant its default type
    fn settle(&self, t: Typed) -> CResult<Expr> {
        if !t.untyped {
            return Ok(t.e);
        }
        let def = match self.lang {
            Lang::Go => I64, // `int`
            _ => I32,
        };
        self.konst_to(&t.e, def)
    }

    fn konst_to(&self, e: &Expr, ty: Ty) -> CResult<Expr> {
        let Some(v) = e.konst else { return unknown("internal: untyped non-constant") };
        match ty {
            Ty::Int { bits, .. } => {
                let back = int_value(ty, (v as u64) & mask(bits));
                if back != v {
                    return unknown(format!("constant {v} is not representable in {} (would not compile)", ty.name()));
                }
                Ok(Expr::constant(ty, v))
            }
            _ => unknown(format!("integer constant used as {}", ty.name())),
        }
    }

    fn literal(&self, v: u128, suffix: &str, hex: bool) -> CResult<Typed> {
        if v > u64::MAX as u128 {
            return unknown("literal exceeds 64 bits");
        }
        let v = v as i128;
        let fits = |t: Ty| int_value(t, (v as u64) & mask(t.bits())) == v;
        let first = |cands: &[Ty]| -> CResult<Ty> {
            for c in cands {
                if fits(*c) {
                    return Ok(*c);
                }
            }
            unknown("literal does not fit its type")
        };
        let ty = match self.lang {
            Lang::CSharp => match suffix {
                "" => first(&[I32, U32, I64, U64])?,
                "u" => first(&[U32, U64])?,
                "l" => first(&[I64, U64])?,
                "ul" | "lu" => U64,
                _ => return unknown(format!("literal suffix `{suffix}`")),
            },
            Lang::D => match suffix {
                "" if hex => first(&[I32, U32, I64, U64])?,
                "" => first(&[I32, I64])?,
                "u" => first(&[U32, U64])?,
                "l" if hex => first(&[I64, U64])?,
                "l" => first(&[I64])?,
                "ul" | "lu" => U64,
                _ => return unknown(format!("literal suffix `{suffix}`")),
            },
            Lang::Go => {
                if !suffix.is_empty() {
                    return unknown(format!("literal suffix `{suffix}`"));
                }
                return Ok(Typed { e: Expr::constant(I64, v).with_konst(v), untyped: true });
            }
            Lang::MoonBit => match suffix {
                "" => return Ok(Typed { e: Expr::constant(I64, v).with_konst(v), untyped: true }),
                "l" => first(&[I64])?,
                "u" => first(&[U32])?,
                "ul" => U64,
                _ => return unknown(format!("literal suffix `{suffix}`")),
            },
        };
        Ok(Typed { e: Expr::constant(ty, v), untyped: false })
    }

    /// C# / D implicit (value preserving) conversion of `e` to `to`
    fn implicit(&self, e: Expr, to: Ty) -> CResult<Expr> {
        if e.ty == to {
            return Ok(e);
        }
        match (e.ty, to) {
            (Ty::Int { bits: fb, signed: fs }, Ty::Int { bits: tb, signed: ts }) => {
                let widening = if fs == ts { tb >= fb } else { !fs && ts && tb > fb };
                if widening {
                    return Ok(e.convert_int(to));
                }
                if let Some(v) = e.konst {
                    // constant expression conversion (C#) / value range propagation (D)
                    if int_value(to, (v as u64) & mask(tb)) == v {
                        return Ok(Expr::constant(to, v));
                    }
                }
                unknown(format!("no implicit conversion from {} to {} (would not compile)", e.ty.name(), to.name()))
            }
            (Ty::Bool, Ty::Int { .. }) if self.lang == Lang::D => Ok(e.map1(to, |r| (r != 0) as u64)),
            (Ty::Char, Ty::Int { bits, .. }) if self.lang == Lang::D && bits >= 32 => {
                if to == U32 || bits == 64 {
                    Ok(e.map1(to, |r| r & 0xffff_ffff))
                } else {
                    unknown("no implicit conversion from dchar to int")
                }
            }
            _ => unknown(format!("no implicit conversion from {} to {}", e.ty.name(), to.name())),
        }
    }

    /// numeric promotion for a binary operator; returns operands converted to the
    /// common type
    fn promote(&self, a: Typed, b: Typed, op: &str) -> CResult<(Expr, Expr, Ty)> {
        match self.lang {
            Lang::Go | Lang::MoonBit => {
                let (a, b) = match (a.untyped, b.untyped) {
                    (true, true) => {
                        // both untyped constants: compute in the default type
                        (self.settle(a)?, self.settle(b)?)
                    }
                    (true, false) => (self.konst_to(&a.e, b.e.ty)?, b.e),
                    (false, true) => {
                        let t = a.e.ty;
                        (a.e, self.konst_to(&b.e, t)?)
                    }
                    (false, false) => (a.e, b.e),
                };
                if a.ty != b.ty {
                    return unknown(format!("operator `{op}` on mismatched types {} and {} (would not compile)", a.ty.name(), b.ty.name()));
                }
                let t = a.ty;
                Ok((a, b, t))
            }
            Lang::CSharp => {
                let (a, b) = (a.e, b.e);
                let (Ty::Int { bits: ab, signed: asg }, Ty::Int { bits: bb, signed: bsg }) = (a.ty, b.ty) else {
                    if a.ty == b.ty {
                        let t = a.ty;
                        return Ok((a, b, t));
                    }
                    return unknown(format!("operator `{op}` on {} and {}", a.ty.name(), b.ty.name()));
                };
                let t = if a.ty == U64 || b.ty == U64 {
                    let other = if a.ty == U64 { &b } else { &a };
                    if other.ty.signed() && !lit_flag(other) {
                        return unknown("C#: ulong combined with a signed operand (would not compile)");
                    }
                    U64
                } else if ab == 64 || bb == 64 {
                    I64
                } else if a.ty == U32 || b.ty == U32 {
                    let other = if a.ty == U32 { &b } else { &a };
                    if other.ty.signed() {
                        match other.konst {
                            Some(v) if v >= 0 => U32,
                            _ => I64,
                        }
                    } else {
                        U32
                    }
                } else {
                    let _ = (asg, bsg);
                    I32
                };
                let a2 = if a.konst.is_some() { self.implicit(a, t)? } else { a.convert_int(t) };
                let b2 = if b.konst.is_some() { self.implicit(b, t)? } else { b.convert_int(t) };
                Ok((a2, b2, t))
            }
            Lang::D => {
                let conv = |e: Expr| -> CResult<Expr> {
                    Ok(match e.ty {
                        Ty::Bool => e.map1(I32, |r| (r != 0) as u64),
                        Ty::Char => e.map1(U32, |r| r & 0xffff_ffff),
                        Ty::Int { bits, .. } if bits < 32 => e.convert_int(I32),
                        Ty::Int { .. } => e,
                        t => return unknown(format!("arithmetic on {}", t.name())),
                    })
                };
                let (a, b) = (conv(a.e)?, conv(b.e)?);
                let t = if a.ty == U64 || b.ty == U64 {
                    U64
                } else if a.ty == I64 || b.ty == I64 {
                    I64
                } else if a.ty == U32 || b.ty == U32 {
                    U32
                } else {
                    I32
                };
                Ok((a.convert_int(t), b.convert_int(t), t))
            }
        }
    }

    fn c(&mut self, ast: &Ast) -> CResult<Typed> {
        let plain = |e: Expr| Ok(Typed { e, untyped: false });
        match ast {
            Ast::Var(n) => match self.vars.get(n) {
                Some((ty, slot)) => plain(Expr::var(*ty, *slot)),
                None => unknown(format!("unknown variable `{n}`")),
            },
            Ast::Int(v, s, h) => self.literal(*v, s, *h),
            Ast::Bool(b) => plain(Expr::constant(Ty::Bool, *b as i128).no_konst()),
            Ast::Wrap(w, e) => {
                let saved = self.checked;
                self.checked = w == "checked";
                let r = self.c(e);
                self.checked = saved;
                r
            }
            Ast::Unary(op, e) => {
                let t = self.c(e)?;
                if t.untyped {
                    let v = t.e.konst.unwrap();
                    let nv = match op.as_str() {
                        "-" => -v,
                        "+" => v,
                        "~" => !v,
                        _ => return unknown(format!("unary `{op}` on constant")),
                    };
                    return Ok(Typed { e: Expr::constant(I64, nv).with_konst(nv), untyped: true });
                }
                let e = t.e;
                match (op.as_str(), e.ty) {
                    ("!", Ty::Bool) => plain(e.map1(Ty::Bool, |r| (r == 0) as u64)),
                    ("+", _) if e.ty.is_int() => plain(e),
                    ("-", Ty::Int { .. }) | ("~", Ty::Int { .. }) => {
                        // C#/D promote narrow operands to int first
                        let e = match self.lang {
                            Lang::CSharp | Lang::D if e.ty.bits() < 32 => e.convert_int(I32),
                            _ => e,
                        };
                        if self.lang == Lang::CSharp && op == "-" && e.ty == U32 {
                            let e = e.convert_int(I64);
                            return plain(e.map1(I64, |r| (r as i64).wrapping_neg() as u64));
                        }
                        if self.lang == Lang::CSharp && op == "-" && e.ty == U64 {
                            return unknown("C#: unary minus on ulong");
                        }
                        let ty = e.ty;
                        let m = mask(ty.bits());
                        let k = e.konst;
                        let neg = op == "-";
                        let checked = self.checked && neg;
                        let mut r = e.try_map1(ty, move |r| {
                            if neg {
                                if checked && ty.signed() && int_value(ty, r) == -(1i128 << (ty.bits() - 1)) {
                                    return Err(Trap::Runtime("checked negation overflow"));
                                }
                                Ok(r.wrapping_neg() & m)
                            } else {
                                Ok(!r & m)
                            }
                        });
                        if let Some(v) = k {
                            let nv = if neg { -v } else { !v };
                            if int_value(ty, (nv as u64) & m) == nv {
                                r.konst = Some(nv);
                            }
                        }
                        plain(r)
                    }
                    _ => unknown(format!("unary `{op}` on {}", e.ty.name())),
                }
            }
            Ast::Binary(op, a, b) => {
                let (ta, tb) = (self.c(a)?, self.c(b)?);
                match op.as_str() {
                    "&&" | "||" => {
                        let (a, b) = (self.settle(ta)?, self.settle(tb)?);
                        if a.ty != Ty::Bool || b.ty != Ty::Bool {
                            return unknown(format!("`{op}` on non-bool"));
                        }
                        let and = op == "&&";
                        let (fa, fb) = (a.f, b.f);
                        plain(Expr::new(
                            Ty::Bool,
                            Arc::new(move |env: &[u64]| {
                                let x = fa(env)? != 0;
                                if and {
                                    if !x {
                                        return Ok(0);
                                    }
                                } else if x {
                                    return Ok(1);
                                }
                                fb(env)
                            }),
                        ))
                    }
                    "==" | "!=" | "<" | "<=" | ">" | ">=" => {
                        if ta.untyped && tb.untyped {
                            let (x, y) = (ta.e.konst.unwrap(), tb.e.konst.unwrap());
                            let r = match op.as_str() {
                                "==" => x == y,
                                "!=" => x != y,
                                "<" => x < y,
                                "<=" => x <= y,
                                ">" => x > y,
                                _ => x >= y,
                            };
                            return plain(Expr::constant(Ty::Bool, r as i128).no_konst());
                        }
                        let both_int_like = |t: Ty| matches!(t, Ty::Int { .. });
                        if both_int_like(ta.e.ty) && both_int_like(tb.e.ty) || ta.untyped || tb.untyped || (self.lang == Lang::D && ta.e.ty != tb.e.ty) {
                            let (a, b, _) = self.promote(ta, tb, op)?;
                            plain(compare(op, a, b)?)
                        } else {
                            plain(compare(op, ta.e, tb.e)?)
                        }
                    }
                    "<<" | ">>" => {
                        if ta.untyped && tb.untyped {
                            // constant shift of an untyped constant stays an untyped constant
                            let (x, y) = (ta.e.konst.unwrap(), tb.e.konst.unwrap());
                            if !(0..64).contains(&y) {
                                return unknown("constant shift count out of range");
                            }
                            let v = if op == "<<" { x.checked_shl(y as u32).filter(|v| (v >> y) == x) } else { Some(x >> y) };
                            let Some(v) = v else { return unknown("constant shift overflows") };
                            if v > u64::MAX as i128 || v < i64::MIN as i128 {
                                return unknown("constant exceeds 64 bits");
                            }
                            return Ok(Typed { e: Expr::constant(I64, v).with_konst(v), untyped: true });
                        }
                        // left operand decides the type
                        let cnt = self.settle_shift_count(tb)?;
                        let left = if ta.untyped {
                            self.settle(ta)?
                        } else {
                            match self.lang {
                                Lang::CSharp | Lang::D if ta.e.ty.is_int() && ta.e.ty.bits() < 32 => ta.e.convert_int(I32),
                                Lang::D if ta.e.ty == Ty::Char => ta.e.map1(U32, |r| r),
                                _ => ta.e,
                            }
                        };
                        let ty = left.ty;
                        let shift_mask = self.lang != Lang::Go;
                        if self.lang == Lang::D {
                            // D: count >= width is illegal
                            let bits = ty.bits() as i128;
                            let cty = cnt.ty;
                            let f = cnt.f.clone();
                            let guarded = Expr::new(
                                cty,
                                Arc::new(move |env: &[u64]| {
                                    let v = f(env)?;
                                    let c = int_value(cty, v);
                                    if c < 0 || c >= bits {
                                        return Err(Trap::Runtime("D: shift count out of range"));
                                    }
                                    Ok(v)
                                }),
                            );
                            return plain(int_binop(op, left, guarded, ty, true)?);
                        }
                        plain(int_binop(op, left, cnt, ty, shift_mask)?)
                    }
                    "+" | "-" | "*" | "&" | "|" | "^" | "&^" => {
                        if ta.untyped && tb.untyped {
                            let (x, y) = (ta.e.konst.unwrap(), tb.e.konst.unwrap());
                            let v = match op.as_str() {
                                "+" => x + y,
                                "-" => x - y,
                                "*" => match x.checked_mul(y) {
                                    Some(v) => v,
                                    None => return unknown("constant overflow"),
                                },
                                "&" => x & y,
                                "|" => x | y,
                                "^" => x ^ y,
                                _ => x & !y,
                            };
                            if v > u64::MAX as i128 || v < i64::MIN as i128 {
                                return unknown("constant exceeds 64 bits");
                            }
                            return Ok(Typed { e: Expr::constant(I64, v).with_konst(v), untyped: true });
                        }
                        let (a, b, ty) = self.promote(ta, tb, op)?;
                        if !ty.is_int() {
                            return unknown(format!("arithmetic `{op}` on {}", ty.name()));
                        }
                        if self.checked && matches!(op.as_str(), "+" | "-" | "*") {
                            let o = op.clone();
                            return plain(Expr::map2(a, b, ty, move |x, y| {
                                let (x, y) = (int_value(ty, x), int_value(ty, y));
                                let v = match o.as_str() {
                                    "+" => x + y,
                                    "-" => x - y,
                                    _ => x * y,
                                };
                                let raw = (v as u64) & mask(ty.bits());
                                if int_value(ty, raw) != v {
                                    return Err(Trap::Runtime("checked arithmetic overflow"));
                                }
                                Ok(raw)
                            }));
                        }
                        plain(int_binop(op, a, b, ty, true)?)
                    }
                    _ => unknown(format!("operator `{op}`")),
                }
            }
            Ast::Cond(c, a, b) => {
                let c = self.compile(c)?;
                if c.ty != Ty::Bool {
                    return unknown("condition is not bool");
                }
                let (ta, tb) = (self.c(a)?, self.c(b)?);
                if ta.untyped && tb.untyped {
                    // MoonBit: literal branches; type from context (default Int)
                    let (a, b) = (self.settle(ta)?, self.settle(tb)?);
                    let ty = a.ty;
                    return plain(Expr::cond(c, a, b, ty));
                }
                let (a, b) = match (ta.untyped, tb.untyped) {
                    (true, false) => (self.konst_to(&ta.e, tb.e.ty)?, tb.e),
                    (false, true) => {
                        let t = ta.e.ty;
                        (ta.e, self.konst_to(&tb.e, t)?)
                    }
                    _ => (ta.e, tb.e),
                };
                if a.ty == b.ty {
                    let ty = a.ty;
                    return plain(Expr::cond(c, a, b, ty));
                }
                match self.lang {
                    Lang::CSharp => {
                        if let Ok(b2) = self.implicit(b.clone(), a.ty) {
                            let ty = a.ty;
                            return plain(Expr::cond(c, a, b2, ty));
                        }
                        if let Ok(a2) = self.implicit(a.clone(), b.ty) {
                            let ty = b.ty;
                            return plain(Expr::cond(c, a2, b, ty));
                        }
                        unknown("C#: no common type for ?: branches")
                    }
                    Lang::D => {
                        let (a, b, ty) = self.promote(Typed { e: a, untyped: false }, Typed { e: b, untyped: false }, "?:")?;
                        plain(Expr::cond(c, a, b, ty))
                    }
                    _ => unknown("branches of different types"),
                }
            }
            Ast::Cast(tn, e) => {
                let Some(to) = type_by_name(self.lang, tn) else { return unknown(format!("cast to unknown type `{tn}`")) };
                let t = self.c(e)?;
                let e = t.e;
                self.explicit(e, to, tn)
            }
            Ast::Call(path, args) => self.call(path, args),
            Ast::Method(recv, name, targ, args) => self.method(recv, name, targ.as_deref(), args),
        }
    }

    fn settle_shift_count(&self, t: Typed) -> CResult<Expr> {
        if t.untyped {
            let v = t.e.konst.unwrap();
            if v < 0 {
                return unknown("negative constant shift count");
            }
            return Ok(Expr::constant(U32, v));
        }
        if !t.e.ty.is_int() {
            return unknown("shift count is not an integer");
        }
        Ok(t.e)
    }

    /// explicit conversion (C# cast, D cast, Go conversion)
    fn explicit(&self, e: Expr, to: Ty, tn: &str) -> CResult<Typed> {
        let plain = |e: Expr| Ok(Typed { e, untyped: false });
        let from = e.ty;
        if from == to {
            return plain(e);
        }
        match (from, to) {
            (Ty::Int { .. }, Ty::Int { .. }) => {
                if self.checked {
                    return plain(e.try_map1(to, move |r| {
                        let v = int_value(from, r);
                        let raw = (v as u64) & mask(to.bits());
                        if int_value(to, raw) != v {
                            return Err(Trap::Runtime("checked conversion overflow"));
                        }
                        Ok(raw)
                    }));
                }
                let k = e.konst;
                let mut r = e.map1(to, move |r| int_convert(from, to, r));
                if let Some(v) = k {
                    if int_value(to, (v as u64) & mask(to.bits())) == v {
                        r.konst = Some(v);
                    }
                }
                plain(r)
            }
            (Ty::Bool, Ty::Int { .. }) if self.lang == Lang::D => plain(e.map1(to, |r| (r != 0) as u64)),
            (Ty::Int { .. }, Ty::Bool) if self.lang == Lang::D => {
                let m = mask(from.bits());
                plain(e.map1(to, move |r| (r & m != 0) as u64))
            }
            (Ty::Int { .. }, Ty::Char) if self.lang == Lang::D => plain(e.map1(to, move |r| int_convert(from, U32, r))),
            (Ty::Char, Ty::Int { .. }) if self.lang == Lang::D => plain(e.map1(to, move |r| int_convert(U32, to, r))),
            // value conversions between floating point and integer types (all four
            // languages: truncation toward zero; an unrepresentable value has an
            // unspecified / implementation-defined result, modelled as a trap)
            (Ty::F32 | Ty::F64, Ty::Int { .. }) if self.lang != Lang::MoonBit => {
                let is32 = from == Ty::F32;
                plain(e.try_map1(to, move |r| {
                    let f = if is32 { f32::from_bits(r as u32) as f64 } else { f64::from_bits(r) };
                    let t = f.trunc();
                    let (lo, hi) = (int_value(to, if to.signed() { 1u64 << (to.bits() - 1) } else { 0 }) as f64, (mask(to.bits()) >> (to.signed() as u32)) as f64);
                    if t.is_nan() || t < lo || t > hi {
                        return Err(Trap::Runtime("float to integer conversion of an unrepresentable value (unspecified result)"));
                    }
                    Ok(((t as i128) as u64) & mask(to.bits()))
                }))
            }
            (Ty::Int { .. }, Ty::F32 | Ty::F64) if self.lang != Lang::MoonBit => {
                let to32 = to == Ty::F32;
                plain(e.map1(to, move |r| {
                    let v = int_value(from, r);
                    if to32 {
                        (v as f32).to_bits() as u64
                    } else {
                        (v as f64).to_bits()
                    }
                }))
            }
            (Ty::F32, Ty::F64) if self.lang != Lang::MoonBit => plain(e.map1(to, |r| (f32::from_bits(r as u32) as f64).to_bits())),
            (Ty::F64, Ty::F32) if self.lang != Lang::MoonBit => plain(e.map1(to, |r| (f64::from_bits(r) as f32).to_bits() as u64)),
            _ => unknown(format!("conversion from {} to {tn} is not modelled", from.name())),
        }
    }

    fn call(&mut self, path: &[String], args: &[Ast]) -> CResult<Typed> {
        let plain = |e: Expr| Ok(Typed { e, untyped: false });
        let last = path.last().unwrap().as_str();
        // Go conversions T(x)
        if self.lang == Lang::Go && path.len() == 1 {
            if let Some(to) = type_by_name(Lang::Go, last) {
                if args.len() != 1 {
                    return unknown("conversion with != 1 argument");
                }
                let t = self.c(&args[0])?;
                if t.untyped {
                    return plain(self.konst_to(&t.e, to).or_else(|e| if to.is_int() { Err(e) } else { unknown("constant conversion to non-integer") })?);
                }
                if to == Ty::Bool || t.e.ty == Ty::Bool {
                    if to == t.e.ty {
                        return plain(t.e);
                    }
                    return unknown("Go: conversion involving bool (would not compile)");
                }
                return self.explicit(t.e, to, last);
            }
        }
        if self.lang == Lang::Go && path.len() == 2 && path[0] == "math" {
            let (pt, rt) = match last {
                "Float32bits" => (Ty::F32, U32),
                "Float32frombits" => (U32, Ty::F32),
                "Float64bits" => (Ty::F64, U64),
                "Float64frombits" => (U64, Ty::F64),
                _ => return unknown(format!("math.{last} is not modelled")),
            };
            if args.len() != 1 {
                return unknown("wrong argument count");
            }
            let t = self.c(&args[0])?;
            let a = if t.untyped { self.konst_to(&t.e, pt)? } else { t.e };
            if a.ty != pt {
                return unknown(format!("math.{last} applied to {} (would not compile)", a.ty.name()));
            }
            return plain(a.map1(rt, |r| r));
        }
        if self.lang == Lang::CSharp {
            let p: Vec<&str> = path.iter().map(|s| s.as_str()).collect();
            let is_bc = matches!(p.as_slice(), ["global", "System", "BitConverter", _] | ["System", "BitConverter", _] | ["BitConverter", _]);
            if is_bc {
                let (pt, rt) = match last {
                    "SingleToInt32Bits" => (Ty::F32, I32),
                    "Int32BitsToSingle" => (I32, Ty::F32),
                    "SingleToUInt32Bits" => (Ty::F32, U32),
                    "UInt32BitsToSingle" => (U32, Ty::F32),
                    "DoubleToInt64Bits" => (Ty::F64, I64),
                    "Int64BitsToDouble" => (I64, Ty::F64),
                    "DoubleToUInt64Bits" => (Ty::F64, U64),
                    "UInt64BitsToDouble" => (U64, Ty::F64),
                    _ => return unknown(format!("BitConverter.{last} is not modelled")),
                };
                if args.len() != 1 {
                    return unknown("wrong argument count");
                }
                let a = self.compile(&args[0])?;
                let a = if a.ty == pt {
                    a
                } else if pt.is_int() && a.ty.is_int() {
                    self.implicit(a, pt)?
                } else {
                    return unknown(format!("BitConverter.{last} applied to {} (would not compile / value conversion)", a.ty.name()));
                };
                return plain(a.map1(rt, |r| r));
            }
        }
        if self.lang == Lang::MoonBit && path.len() == 2 {
            // Type::method(recv, args..)
            let Some(rt) = type_by_name(Lang::MoonBit, &path[0]) else { return unknown(format!("unknown type `{}`", path[0])) };
            if args.is_empty() {
                return unknown("static call without receiver");
            }
            let recv = self.c(&args[0])?;
            let recv = if recv.untyped { self.konst_to(&recv.e, rt)? } else { recv.e };
            if recv.ty != rt {
                return unknown(format!("{}::{} applied to {} (would not compile)", path[0], last, recv.ty.name()));
            }
            return self.mbt_method(recv, last, &args[1..]);
        }
        if path.len() == 1 {
            if let Some(Helper::Func { params, result, body }) = self.helpers.get(last).cloned() {
                if params.len() != args.len() {
                    return unknown("helper called with wrong argument count");
                }
                let mut fs = vec![];
                for (a, pt) in args.iter().zip(&params) {
                    let t = self.c(a)?;
                    let e = if t.untyped { self.konst_to(&t.e, *pt)? } else { t.e };
                    if e.ty != *pt {
                        return unknown(format!("helper `{last}` applied to {} instead of {}", e.ty.name(), pt.name()));
                    }
                    fs.push(e.f);
                }
                return plain(Expr::new(
                    result,
                    Arc::new(move |env: &[u64]| {
                        let mut slots = [0u64; 4];
                        for (i, f) in fs.iter().enumerate() {
                            slots[i] = f(env)?;
                        }
                        body(&slots[..])
                    }),
                ));
            }
        }
        unknown(format!("call of `{}` is not modelled", path.join(".")))
    }

    fn method(&mut self, recv: &Ast, name: &str, targ: Option<&str>, args: &[Ast]) -> CResult<Typed> {
        let plain = |e: Expr| Ok(Typed { e, untyped: false });
        match self.lang {
            Lang::MoonBit => {
                let r = self.c(recv)?;
                let r = self.settle(r)?;
                self.mbt_method(r, name, args)
            }
            Lang::D => {
                if name == "reinterpretCast" {
                    if !matches!(self.helpers.get("reinterpretCast"), Some(Helper::DReinterpret)) {
                        return unknown("reinterpretCast helper not found (or not of the expected shape) in the generated output");
                    }
                    let Some(t) = targ else { return unknown("reinterpretCast without template argument") };
                    let Some(to) = type_by_name(Lang::D, t) else { return unknown(format!("reinterpretCast to unknown type `{t}`")) };
                    if !args.is_empty() {
                        return unknown("reinterpretCast with extra arguments");
                    }
                    let e = self.compile(recv)?;
                    if e.ty.bits() != to.bits() || e.ty == Ty::Bool || to == Ty::Bool {
                        return unknown(format!("reinterpretCast!{t} of {}: sizes differ (template constraint fails, would not compile)", e.ty.name()));
                    }
                    return plain(e.map1(to, |r| r));
                }
                unknown(format!("D method/property `{name}` is not modelled"))
            }
            _ => unknown(format!("method call `.{name}()` is not modelled for this language")),
        }
    }

    fn mbt_method(&mut self, r: Expr, name: &str, args: &[Ast]) -> CResult<Typed> {
        let plain = |e: Expr| Ok(Typed { e, untyped: false });
        let ty = r.ty;
        let need0 = |n: usize| if n != 0 { unknown::<()>("unexpected arguments") } else { Ok(()) };
        // binary integer methods
        if matches!(name, "land" | "lor" | "lxor" | "lsl" | "shl" | "asr" | "lsr" | "shr") {
            if args.len() != 1 || !ty.is_int() {
                return unknown(format!("`{name}` shape"));
            }
            let a = self.c(&args[0])?;
            let shift = !matches!(name, "land" | "lor" | "lxor");
            let a = if a.untyped { self.konst_to(&a.e, if shift { I32 } else { ty })? } else { a.e };
            if shift {
                if a.ty != I32 {
                    return unknown("shift count must be Int");
                }
                if !matches!(ty, Ty::Int { bits: 32 | 64, .. }) {
                    return unknown(format!("`{name}` on {}", ty.name()));
                }
                return plain(match name {
                    "lsl" | "shl" => int_binop("<<", r, a, ty, true)?,
                    "asr" => {
                        let sty = Ty::Int { bits: ty.bits(), signed: true };
                        int_binop(">>", r.map1(sty, |x| x), a, sty, true)?.map1(ty, |x| x)
                    }
                    "lsr" => {
                        let uty = Ty::Int { bits: ty.bits(), signed: false };
                        int_binop(">>", r.map1(uty, |x| x), a, uty, true)?.map1(ty, |x| x)
                    }
                    _ => int_binop(">>", r, a, ty, true)?, // shr: by signedness
                });
            }
            if a.ty != ty {
                return unknown(format!("`{name}` argument type {} differs from receiver {}", a.ty.name(), ty.name()));
            }
            let op = match name {
                "land" => "&",
                "lor" => "|",
                _ => "^",
            };
            return plain(int_binop(op, r, a, ty, true)?);
        }
        need0(args.len())?;
        let to = |e: Expr, t: Ty| plain(e.convert_int(t));
        let same_bits = |e: Expr, t: Ty| plain(e.map1(t, |x| x));
        match (ty, name) {
            (Ty::Int { bits: 32, signed: true }, "to_byte") => to(r, U8),
            (Ty::Int { bits: 32, signed: true }, "to_int64") => to(r, I64),
            (Ty::Int { bits: 32, signed: true }, "reinterpret_as_uint" | "to_uint") => same_bits(r, U32),
            (Ty::Int { bits: 32, .. }, "reinterpret_as_float") => same_bits(r, Ty::F32),
            (Ty::Int { bits: 32, signed: true }, "unsafe_to_char") => same_bits(r, Ty::Char),
            (Ty::Int { bits: 32, signed: true }, "lnot") => plain(r.map1(I32, |x| !x & 0xffff_ffff)),
            (Ty::Int { bits: 32, signed: false }, "reinterpret_as_int" | "to_int") => same_bits(r, I32),
            (Ty::Int { bits: 32, signed: false }, "to_uint64") => to(r, U64),
            (Ty::Int { bits: 32, signed: false }, "to_byte") => to(r, U8),
            (Ty::Int { bits: 8, signed: false }, "to_int") => to(r, I32),
            (Ty::Int { bits: 8, signed: false }, "to_uint") => to(r, U32),
            (Ty::Int { bits: 8, signed: false }, "to_int64") => to(r, I64),
            (Ty::Int { bits: 8, signed: false }, "to_uint64") => to(r, U64),
            (Ty::Int { bits: 64, signed: true }, "to_int") => to(r, I32),
            (Ty::Int { bits: 64, signed: true }, "reinterpret_as_uint64" | "to_uint64") => same_bits(r, U64),
            (Ty::Int { bits: 64, .. }, "reinterpret_as_double") => same_bits(r, Ty::F64),
            (Ty::Int { bits: 64, signed: false }, "reinterpret_as_int64" | "to_int64") => same_bits(r, I64),
            (Ty::Int { bits: 64, signed: false }, "to_int") => to(r, I32),
            (Ty::Int { bits: 64, signed: false }, "to_uint") => to(r, U32),
            (Ty::F32, "reinterpret_as_int") => same_bits(r, I32),
            (Ty::F32, "reinterpret_as_uint") => same_bits(r, U32),
            (Ty::F64, "reinterpret_as_int64") => same_bits(r, I64),
            (Ty::F64, "reinterpret_as_uint64") => same_bits(r, U64),
            (Ty::Char, "to_int") => same_bits(r, I32),
            (Ty::Char, "to_uint") => same_bits(r, U32),
            (Ty::Bool, "to_int") => plain(r.map1(I32, |x| (x != 0) as u64)),
            _ => unknown(format!("MoonBit method `{}::{name}` is not modelled", ty.name())),
        }
    }
}

impl Expr {
    fn with_konst(mut self, v: i128) -> Expr {
        self.konst = Some(v);
        self
    }
    fn no_konst(mut self) -> Expr {
        self.konst = None;
        self
    }
}

/// Compile `src` (an expression over the given variables) for `lang`.
pub fn compile_expr(lang: Lang, src: &str, vars: &[(String, Ty)], helpers: &BTreeMap<String, Helper>) -> CResult<Expr> {
    let names: Vec<String> = vars.iter().map(|v| v.0.clone()).collect();
    let ast = crate::parse::parse_expr(lang, src, &names)?;
    let mut cx = Cx { lang, vars: vars.iter().enumerate().map(|(i, (n, t))| (n.clone(), (*t, i))).collect(), helpers, checked: false };
    cx.compile(&ast)
}
