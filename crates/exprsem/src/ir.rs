//! Typed closure IR shared by the four expression interpreters.
//!
//! Every value is carried as a raw `u64`: integers as the zero-extended bit
//! pattern of their width, floats as IEEE bits, bool as 0/1, chars as the scalar
//! value.  Types are resolved when an expression is *compiled*, so evaluation is
//! a tree of monomorphic closures over a small slot array (no re-parsing, no
//! dynamic typing per input).
use std::sync::Arc;

#[derive(Clone, Copy, PartialEq, Eq, Debug, Hash, PartialOrd, Ord)]
pub enum Ty {
    Bool,
    Int { bits: u8, signed: bool },
    F32,
    F64,
    /// 32-bit unicode scalar / code point type (MoonBit Char, D dchar, Rust char)
    Char,
    /// pointer of the given width (native compiled languages only; the
    /// interpreters model pointers as integers of the language's width)
    Ptr { bits: u8 },
    /// Rust `MaybeUninit<u64>` (PointerOrI64 slot)
    P64,
}

pub const I8: Ty = Ty::Int { bits: 8, signed: true };
pub const U8: Ty = Ty::Int { bits: 8, signed: false };
pub const I16: Ty = Ty::Int { bits: 16, signed: true };
pub const U16: Ty = Ty::Int { bits: 16, signed: false };
pub const I32: Ty = Ty::Int { bits: 32, signed: true };
pub const U32: Ty = Ty::Int { bits: 32, signed: false };
pub const I64: Ty = Ty::Int { bits: 64, signed: true };
pub const U64: Ty = Ty::Int { bits: 64, signed: false };

impl Ty {
    pub fn bits(self) -> u8 {
        match self {
            Ty::Bool => 8,
            Ty::Int { bits, .. } => bits,
            Ty::F32 | Ty::Char => 32,
            Ty::F64 | Ty::P64 => 64,
            Ty::Ptr { bits } => bits,
        }
    }
    pub fn is_int(self) -> bool {
        matches!(self, Ty::Int { .. })
    }
    pub fn signed(self) -> bool {
        matches!(self, Ty::Int { signed: true, .. })
    }
    pub fn name(self) -> String {
        match self {
            Ty::Bool => "bool".into(),
            Ty::Int { bits, signed } => format!("{}{}", if signed { "i" } else { "u" }, bits),
            Ty::F32 => "f32".into(),
            Ty::F64 => "f64".into(),
            Ty::Char => "char32".into(),
            Ty::Ptr { bits } => format!("ptr{bits}"),
            Ty::P64 => "p64".into(),
        }
    }
}

#[inline]
pub fn mask(bits: u8) -> u64 {
    if bits >= 64 {
        u64::MAX
    } else {
        (1u64 << bits) - 1
    }
}

/// mathematical value of an integer-like raw value (ints, bool, char, ptr)
#[inline]
pub fn int_value(ty: Ty, raw: u64) -> i128 {
    match ty {
        Ty::Int { bits, signed: true } => {
            let m = raw & mask(bits);
            if bits < 64 {
                let sign = 1u64 << (bits - 1);
                if m & sign != 0 {
                    (m as i128) - (1i128 << bits)
                } else {
                    m as i128
                }
            } else {
                (m as i64) as i128
            }
        }
        _ => (raw & mask(ty.bits())) as i128,
    }
}

/// two's complement conversion between integer types (truncate, or extend
/// according to the *source* signedness)
#[inline]
pub fn int_convert(from: Ty, to: Ty, raw: u64) -> u64 {
    (int_value(from, raw) as u64) & mask(to.bits())
}

#[derive(Clone, Debug, PartialEq, Eq)]
pub enum Trap {
    /// the language defines a run-time error here (checked overflow, panic …)
    Runtime(&'static str),
}

pub type EvalFn = Arc<dyn Fn(&[u64]) -> Result<u64, Trap> + Send + Sync>;

#[derive(Clone)]
pub struct Expr {
    pub ty: Ty,
    pub f: EvalFn,
    /// compile-time constant value, if this expression is a literal / constant
    /// (needed for the languages' "untyped constant" rules)
    pub konst: Option<i128>,
}

impl Expr {
    pub fn new(ty: Ty, f: EvalFn) -> Expr {
        Expr { ty, f, konst: None }
    }
    pub fn var(ty: Ty, slot: usize) -> Expr {
        Expr::new(ty, Arc::new(move |env: &[u64]| Ok(env[slot])))
    }
    pub fn constant(ty: Ty, v: i128) -> Expr {
        let raw = (v as u64) & mask(ty.bits());
        Expr { ty, f: Arc::new(move |_| Ok(raw)), konst: Some(v) }
    }
    pub fn map1(self, ty: Ty, g: impl Fn(u64) -> u64 + Send + Sync + 'static) -> Expr {
        let f = self.f;
        Expr::new(ty, Arc::new(move |env: &[u64]| Ok(g(f(env)?))))
    }
    pub fn try_map1(self, ty: Ty, g: impl Fn(u64) -> Result<u64, Trap> + Send + Sync + 'static) -> Expr {
        let f = self.f;
        Expr::new(ty, Arc::new(move |env: &[u64]| g(f(env)?)))
    }
    pub fn map2(a: Expr, b: Expr, ty: Ty, g: impl Fn(u64, u64) -> Result<u64, Trap> + Send + Sync + 'static) -> Expr {
        let (fa, fb) = (a.f, b.f);
        Expr::new(ty, Arc::new(move |env: &[u64]| g(fa(env)?, fb(env)?)))
    }
    pub fn cond(c: Expr, a: Expr, b: Expr, ty: Ty) -> Expr {
        let (fc, fa, fb) = (c.f, a.f, b.f);
        Expr::new(ty, Arc::new(move |env: &[u64]| if fc(env)? != 0 { fa(env) } else { fb(env) }))
    }
    /// integer conversion with two's complement semantics
    pub fn convert_int(self, to: Ty) -> Expr {
        let from = self.ty;
        if from == to {
            return self;
        }
        let k = self.konst;
        let mut e = self.map1(to, move |r| int_convert(from, to, r));
        if let Some(v) = k {
            // keep constness when the value is representable
            let conv = int_value(to, (v as u64) & mask(to.bits()));
            if conv == v {
                e.konst = Some(v);
            }
        }
        e
    }
}

/// An "unknown construct": the model does not understand this expression; the
/// (backend, instruction) pair becomes inconclusive.
#[derive(Debug, Clone)]
pub struct Unknown(pub String);

pub type CResult<T> = Result<T, Unknown>;

pub fn unknown<T>(msg: impl Into<String>) -> CResult<T> {
    Err(Unknown(msg.into()))
}

/// Binary integer operation on two operands of the same integer type with
/// wrap-around semantics.  `op` is one of + - * & | ^ << >> (and &^ for Go).
pub fn int_binop(op: &str, a: Expr, b: Expr, ty: Ty, shift_mask: bool) -> CResult<Expr> {
    let Ty::Int { bits, signed } = ty else { return unknown(format!("binary {op} on non-integer type {}", ty.name())) };
    let m = mask(bits);
    let sx = move |r: u64| int_value(Ty::Int { bits, signed }, r);
    let konst = match (a.konst, b.konst) {
        (Some(x), Some(y)) => match op {
            "+" => Some(x + y),
            "-" => Some(x - y),
            "*" => x.checked_mul(y),
            "&" => Some(x & y),
            "|" => Some(x | y),
            "^" => Some(x ^ y),
            _ => None,
        },
        _ => None,
    };
    let mut e = match op {
        "+" => Expr::map2(a, b, ty, move |x, y| Ok(x.wrapping_add(y) & m)),
        "-" => Expr::map2(a, b, ty, move |x, y| Ok(x.wrapping_sub(y) & m)),
        "*" => Expr::map2(a, b, ty, move |x, y| Ok(x.wrapping_mul(y) & m)),
        "&" => Expr::map2(a, b, ty, move |x, y| Ok(x & y & m)),
        "|" => Expr::map2(a, b, ty, move |x, y| Ok((x | y) & m)),
        "^" => Expr::map2(a, b, ty, move |x, y| Ok((x ^ y) & m)),
        "&^" => Expr::map2(a, b, ty, move |x, y| Ok(x & !y & m)),
        "<<" | ">>" => {
            let left = op == "<<";
            let bty = b.ty;
            Expr::map2(a, b, ty, move |x, y| {
                let cnt = int_value(bty, y);
                let cnt = if shift_mask {
                    // C#, D(x86/wasm), MoonBit(wasm): count taken modulo the width
                    (cnt as u64 & (bits as u64 - 1)) as u32
                } else {
                    // Go: negative count panics, count >= width gives 0 / sign fill
                    if cnt < 0 {
                        return Err(Trap::Runtime("negative shift count"));
                    }
                    if cnt >= bits as i128 {
                        return Ok(if left || !signed || sx(x) >= 0 { 0 } else { m });
                    }
                    cnt as u32
                };
                if left {
                    Ok((x << cnt) & m)
                } else if signed {
                    Ok(((sx(x) >> cnt) as u64) & m)
                } else {
                    Ok((x & m) >> cnt)
                }
            })
        }
        _ => return unknown(format!("unsupported integer operator `{op}`")),
    };
    if let Some(v) = konst {
        if int_value(ty, (v as u64) & m) == v {
            e.konst = Some(v);
        }
    }
    Ok(e)
}

/// Comparison of two operands of the same type; result Bool.
pub fn compare(op: &str, a: Expr, b: Expr) -> CResult<Expr> {
    let ty = a.ty;
    if ty != b.ty {
        return unknown(format!("comparison `{op}` of different types {} and {}", a.ty.name(), b.ty.name()));
    }
    let op = op.to_string();
    match ty {
        Ty::Int { .. } | Ty::Bool | Ty::Char | Ty::Ptr { .. } => {
            if ty == Ty::Bool && op != "==" && op != "!=" {
                return unknown("ordering comparison on bool");
            }
            Ok(Expr::map2(a, b, Ty::Bool, move |x, y| {
                let (x, y) = (int_value(ty, x), int_value(ty, y));
                Ok(match op.as_str() {
                    "==" => x == y,
                    "!=" => x != y,
                    "<" => x < y,
                    "<=" => x <= y,
                    ">" => x > y,
                    _ => x >= y,
                } as u64)
            }))
        }
        Ty::F32 | Ty::F64 => {
            let is32 = ty == Ty::F32;
            Ok(Expr::map2(a, b, Ty::Bool, move |x, y| {
                let (x, y) = if is32 { (f32::from_bits(x as u32) as f64, f32::from_bits(y as u32) as f64) } else { (f64::from_bits(x), f64::from_bits(y)) };
                Ok(match op.as_str() {
                    "==" => x == y,
                    "!=" => x != y,
                    "<" => x < y,
                    "<=" => x <= y,
                    ">" => x > y,
                    _ => x >= y,
                } as u64)
            }))
        }
        Ty::P64 => unknown("comparison on P64"),
    }
}
