//! Self-check of the expression interpreters on hand-computed vectors; run at
//! the start of every harness invocation (a failing model must never judge).
use crate::compile::{compile_expr, Helper};
use crate::ir::*;
use crate::parse::Lang;
use std::collections::BTreeMap;

/// expected: Ok(Some(raw)) value, Ok(None) trap, Err(()) unknown construct
type Vector = (Lang, &'static str, Ty, u64, Result<Option<(Ty, u64)>, ()>);

fn vectors() -> Vec<Vector> {
    use Lang::*;
    let ok = |t: Ty, v: u64| Ok(Some((t, v)));
    vec![
        // ---------------- C#
        (CSharp, "((sbyte)x)", I32, 0x1ff, ok(I8, 0xff)),
        (CSharp, "((sbyte)x)", I32, 128, ok(I8, 0x80)),
        (CSharp, "((short)x)", I32, 0xffff_8000, ok(I16, 0x8000)),
        (CSharp, "((ushort)x)", I32, 0xffff_ffff, ok(U16, 0xffff)),
        (CSharp, "unchecked((uint)(x))", I32, 0xffff_ffff, ok(U32, 0xffff_ffff)),
        (CSharp, "checked((sbyte)x)", I32, 128, Ok(None)),
        (CSharp, "checked((sbyte)x)", I32, 127, ok(I8, 127)),
        (CSharp, "(x ? 1 : 0)", Ty::Bool, 1, ok(I32, 1)),
        (CSharp, "(x != 0)", I32, 0x100, ok(Ty::Bool, 1)),
        (CSharp, "(long) (x)", I32, 0xffff_ffff, ok(I64, u64::MAX)),
        (CSharp, "(long) (x)", U32, 0xffff_ffff, ok(I64, 0xffff_ffff)),
        (CSharp, "(int) (x)", I64, 0x1_8000_0001, ok(I32, 0x8000_0001)),
        (CSharp, "(x & 0xFF)", I32, 0x1234, ok(I32, 0x34)),
        (CSharp, "(byte)(x >> 8)", I32, 0xffff_1234, ok(U8, 0x12)),
        (CSharp, "(x >> 31)", I32, 0x8000_0000, ok(I32, 0xffff_ffff)),
        (CSharp, "(x >> 31)", U32, 0x8000_0000, ok(U32, 1)),
        (CSharp, "(x << 33)", I32, 1, ok(I32, 2)),
        (CSharp, "x + 1", U8, 255, ok(I32, 256)),
        (CSharp, "x + 1", I32, 0x7fff_ffff, ok(I32, 0x8000_0000)),
        (CSharp, "checked(x + 1)", I32, 0x7fff_ffff, Ok(None)),
        (CSharp, "x + 1u", I32, 0xffff_ffff, ok(I64, 0)),
        (CSharp, "global::System.BitConverter.Int32BitsToSingle((int)x)", I64, 0x1_3f80_0000, ok(Ty::F32, 0x3f80_0000)),
        (CSharp, "global::System.BitConverter.SingleToInt32Bits(x)", Ty::F32, 0xffc0_0001, ok(I32, 0xffc0_0001)),
        (CSharp, "global::System.BitConverter.DoubleToInt64Bits(x)", Ty::F64, 0x7ff4_0000_0000_0001, ok(I64, 0x7ff4_0000_0000_0001)),
        (CSharp, "global::System.BitConverter.Int64BitsToDouble(x)", I32, 0xffff_ffff, ok(Ty::F64, u64::MAX)),
        (CSharp, "global::System.BitConverter.Int32BitsToSingle(x)", I64, 0, Err(())),
        (CSharp, "(float)x", I32, 3, ok(Ty::F32, 0x4040_0000)),
        (CSharp, "(uint)x", Ty::F32, 0x3fc0_0000, ok(U32, 1)),
        (CSharp, "(uint)x", Ty::F32, 0xbfc0_0000, Ok(None)),
        (CSharp, "x.Foo()", I32, 0, Err(())),
        // ---------------- Go
        (Go, "int8(x)", I32, 0x80, ok(I8, 0x80)),
        (Go, "int8(x)", I32, 0x17f, ok(I8, 0x7f)),
        (Go, "uint16(x)", I32, 0xffff_ffff, ok(U16, 0xffff)),
        (Go, "int32(x)", I8, 0x80, ok(I32, 0xffff_ff80)),
        (Go, "int32(x)", U16, 0x8000, ok(I32, 0x8000)),
        (Go, "int64(x)", I32, 0x8000_0000, ok(I64, 0xffff_ffff_8000_0000)),
        (Go, "int64(math.Float32bits(x))", Ty::F32, 0x8000_0000, ok(I64, 0x8000_0000)),
        (Go, "int32(math.Float32bits(x))", Ty::F32, 0xffc0_0000, ok(I32, 0xffc0_0000)),
        (Go, "math.Float32frombits(uint32(x))", I64, 0x1_7fc0_0001, ok(Ty::F32, 0x7fc0_0001)),
        (Go, "math.Float64frombits(uint64(x))", I64, 0x8000_0000_0000_0000, ok(Ty::F64, 0x8000_0000_0000_0000)),
        (Go, "math.Float32frombits(x)", I32, 0, Err(())),
        (Go, "(x != 0)", I32, 2, ok(Ty::Bool, 1)),
        (Go, "rune(x)", I32, 0x10ffff, ok(I32, 0x10ffff)),
        (Go, "uintptr(x)", I32, 0xffff_ffff, ok(U64, u64::MAX)),
        (Go, "uint32(x)", U64, 0x1_0000_0001, ok(U32, 1)),
        (Go, "x << 33", I32, 1, ok(I32, 0)),
        (Go, "x >> 40", I32, 0x8000_0000, ok(I32, 0xffff_ffff)),
        (Go, "x + 1", I8, 0x7f, ok(I8, 0x80)),
        (Go, "x &^ 0xf", I32, 0xff, ok(I32, 0xf0)),
        (Go, "x | 1 << 4", I32, 0, ok(I32, 16)),
        (Go, "uint8(300)", I32, 0, Err(())),
        (Go, "x + 300", I8, 0, Err(())),
        (Go, "int8(x) + x", I32, 0, Err(())),
        (Go, "bool(x)", I32, 0, Err(())),
        (Go, "uint32(x)", Ty::F32, 0x3fc0_0000, ok(U32, 1)),
        (Go, "int64(x)", Ty::F64, 0x7ff8_0000_0000_0000, Ok(None)),
        // ---------------- MoonBit
        (MoonBit, "(x).to_byte()", I32, 0x1ff, ok(U8, 0xff)),
        (MoonBit, "(x).to_int()", U8, 0xff, ok(I32, 0xff)),
        (MoonBit, "(x - 0x100)", I32, 5, ok(I32, 0xffff_ff05)),
        (MoonBit, "(x - 0x100)", I32, 0x8000_0000, ok(I32, 0x7fff_ff00)),
        (MoonBit, "(x.land(0xFFFF).reinterpret_as_uint())", I32, 0xffff_8001, ok(U32, 0x8001)),
        (MoonBit, "(x).reinterpret_as_int()", U32, 0xffff_ffff, ok(I32, 0xffff_ffff)),
        (MoonBit, "Int::to_int64(x)", I32, 0x8000_0000, ok(I64, 0xffff_ffff_8000_0000)),
        (MoonBit, "Int64::to_int(x)", I64, 0x1_8000_0001, ok(I32, 0x8000_0001)),
        (MoonBit, "(x).reinterpret_as_int().to_int64()", Ty::F32, 0xbf80_0000, ok(I64, 0xffff_ffff_bf80_0000)),
        (MoonBit, "(x).to_int().reinterpret_as_float()", I64, 0x1_3f80_0000, ok(Ty::F32, 0x3f80_0000)),
        (MoonBit, "(x).reinterpret_as_double()", I64, 0x7ff8_0000_0000_0001, ok(Ty::F64, 0x7ff8_0000_0000_0001)),
        (MoonBit, "(if x { 1 } else { 0 })", Ty::Bool, 1, ok(I32, 1)),
        (MoonBit, "(x != 0)", I32, 0x100, ok(Ty::Bool, 1)),
        (MoonBit, "Int::unsafe_to_char(x)", I32, 0x1f600, ok(Ty::Char, 0x1f600)),
        (MoonBit, "(x).to_int()", Ty::Char, 0x1f600, ok(I32, 0x1f600)),
        (MoonBit, "(x).lsl(24).asr(24)", I32, 0x180, ok(I32, 0xffff_ff80)),
        (MoonBit, "(x << 24) >> 24", I32, 0x180, ok(I32, 0xffff_ff80)),
        (MoonBit, "(x << 24) >> 24", U32, 0x180, ok(U32, 0x80)),
        (MoonBit, "(if x >= 0x80 { x - 0x100 } else { x })", I32, 0xff, ok(I32, 0xffff_ffff)),
        (MoonBit, "ext8(x)", I32, 0x180, ok(I32, 0xffff_ff80)),
        (MoonBit, "ext8b(x)", I32, 0x17f, ok(I32, 0x7f)),
        (MoonBit, "x + 1L", I32, 0, Err(())),
        (MoonBit, "(x).to_double()", Ty::F32, 0, Err(())),
        (MoonBit, "x - 0x100000000", I32, 0, Err(())),
        // ---------------- D
        (D, "cast(byte)(x)", U32, 0x180, ok(I8, 0x80)),
        (D, "cast(uint)(x)", I8, 0xff, ok(U32, 0xffff_ffff)),
        (D, "cast(uint)(x)", U16, 0xffff, ok(U32, 0xffff)),
        (D, "cast(uint)(x)", Ty::Bool, 1, ok(U32, 1)),
        (D, "cast(uint)(x)", Ty::Char, 0x10ffff, ok(U32, 0x10ffff)),
        (D, "cast(dchar)(x)", U32, 0x41, ok(Ty::Char, 0x41)),
        (D, "cast(ulong)(x)", U32, 0xffff_ffff, ok(U64, 0xffff_ffff)),
        (D, "cast(ulong)(x)", I32, 0xffff_ffff, ok(U64, u64::MAX)),
        (D, "cast(uint)(x)", U64, 0x1_0000_0002, ok(U32, 2)),
        (D, "(x) != 0", U32, 0x100, ok(Ty::Bool, 1)),
        (D, "(x).reinterpretCast!uint", Ty::F32, 0xffc0_0000, ok(U32, 0xffc0_0000)),
        (D, "(cast(uint)x).reinterpretCast!float", U64, 0x1_3f80_0000, ok(Ty::F32, 0x3f80_0000)),
        (D, "(x).reinterpretCast!ulong", Ty::F32, 0, Err(())),
        (D, "cast(void*)(x)", U32, 0x1234, ok(U32, 0x1234)),
        (D, "cast(size_t)(x)", U64, 0x1_0000_0007, ok(U32, 7)),
        (D, "x + 1", I8, 0x7f, ok(I32, 128)),
        (D, "x < 1", U32, 0xffff_ffff, ok(Ty::Bool, 0)),
        (D, "cast(float)(x)", U32, 0x0100_0001, ok(Ty::F32, 0x4b80_0000)),
        (D, "cast(int)(x)", Ty::F32, 0xc0a0_0000, ok(I32, 0xffff_fffb)),
        (D, "x & 1 == 0", U32, 0, Err(())),
    ]
}

pub fn run() -> Result<usize, String> {
    let (helpers, bad) = crate::helpers::moonbit_helpers(&[(
        "t.mbt".to_string(),
        "///|\nextern \"wasm\" fn ext8(value : Int) -> Int =\n  #|(func (param i32) (result i32) local.get 0 i32.extend8_s)\n\n///|\nextern \"wasm\" fn ext8b(value : Int) -> Int =\n  #|(func (param i32) (result i32) local.get 0 i32.const 24 i32.shl i32.const 24 i32.shr_s)\n\nextern \"wasm\" fn ld(p : Int) -> Int =\n  #|(func (param i32) (result i32) local.get 0 i32.load)\n".to_string(),
    )]);
    if !bad.contains_key("ld") || helpers.len() != 2 {
        return Err(format!("wat helper extraction: helpers={:?} bad={bad:?}", helpers.keys().collect::<Vec<_>>()));
    }
    let mut dh: BTreeMap<String, Helper> = BTreeMap::new();
    dh.insert("reinterpretCast".into(), Helper::DReinterpret);
    let mut n = 0;
    for (lang, src, ty, input, want) in vectors() {
        let h = match lang {
            Lang::MoonBit => &helpers,
            Lang::D => &dh,
            _ => &BTreeMap::new(),
        };
        let got = compile_expr(lang, src, &[("x".to_string(), ty)], h);
        match (got, want) {
            (Err(_), Err(())) => {}
            (Err(u), w) => return Err(format!("{lang:?} `{src}`: unexpectedly unknown ({}) but expected {w:?}", u.0)),
            (Ok(e), Err(())) => return Err(format!("{lang:?} `{src}`: compiled to type {} but should be rejected", e.ty.name())),
            (Ok(e), Ok(w)) => {
                let r = (e.f)(&[input]);
                match (r, w) {
                    (Err(_), None) => {}
                    (Ok(v), Some((t, x))) if t == e.ty && v == x => {}
                    (r, w) => return Err(format!("{lang:?} `{src}` on {input:#x}: got {r:?} : {} but expected {w:?}", e.ty.name())),
                }
            }
        }
        n += 1;
    }
    // oracle spot checks (hand computed from the canonical ABI)
    use crate::oracle::*;
    let checks: [(Scalar, u64, i128); 8] = [(Scalar::S8, 0xffff_ff80, -128), (Scalar::S8, 0x17f, 127), (Scalar::U8, 0xffff_ffff, 255), (Scalar::S16, 0x1_8000, -32768), (Scalar::U16, 0xabcd_1234, 0x1234), (Scalar::Bool, 2, 1), (Scalar::S32, 0xffff_ffff, -1), (Scalar::U32, 0xffff_ffff, 0xffff_ffff)];
    for (s, x, want) in checks {
        if lift_expected(s, x) != want {
            return Err(format!("oracle lift_expected({s:?}, {x:#x})"));
        }
    }
    if lower_expected(Scalar::S8, 0x80) != 0xffff_ff80 || lower_expected(Scalar::U16, 0xffff) != 0xffff || lower_expected(Scalar::S16, 0x8000) != 0xffff_8000 {
        return Err("oracle lower_expected".into());
    }
    let st = cast_steps("Sequence(F32ToI64,I64ToP64)").ok_or("cast_steps")?;
    if cast_expected(&st, 0xbf80_0000) != 0xbf80_0000 || cast_expected(&cast_steps("I64ToF32").unwrap(), 0x1_3f80_0000) != 0x3f80_0000 || cast_expected(&cast_steps("I32ToI64").unwrap(), 0xffff_ffff) != 0xffff_ffff {
        return Err("oracle cast_expected".into());
    }
    Ok(n)
}

#[cfg(test)]
mod tests {
    #[test]
    fn selftest() {
        super::run().unwrap();
    }
}
