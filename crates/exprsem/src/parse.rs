//! Tokenizer and expression parser for the expression shapes the C#, Go,
//! MoonBit and D backends emit.  Anything outside the grammar is an `Unknown`
//! (→ inconclusive), never a guess.
use crate::ir::{unknown, CResult, Unknown};

#[derive(Clone, Copy, PartialEq, Eq, Debug)]
pub enum Lang {
    CSharp,
    Go,
    MoonBit,
    D,
}

#[derive(Clone, Debug, PartialEq)]
pub enum Tok {
    Ident(String),
    /// integer literal: digits value, suffix (lower-cased), is_hex
    Int(u128, String, bool),
    Float(String),
    P(&'static str),
}

const PUNCTS: [&str; 44] = [
    "<<=", ">>=", "::", "!=", "==", "<=", ">=", "<<", ">>", "&&", "||", "&^", "->", "=>", ":=", "+=", "-=", "(", ")", "{", "}", "[", "]", ",", ".", ";", ":", "?", "!", "+", "-", "*", "/", "%", "&",
    "|", "^", "~", "<", ">", "=", "#", "@", "$",
];

pub fn lex(src: &str) -> CResult<Vec<Tok>> {
    let b: Vec<char> = src.chars().collect();
    let mut i = 0;
    let mut out = vec![];
    while i < b.len() {
        let c = b[i];
        if c.is_whitespace() {
            i += 1;
            continue;
        }
        if c == '/' && i + 1 < b.len() && b[i + 1] == '/' {
            while i < b.len() && b[i] != '\n' {
                i += 1;
            }
            continue;
        }
        if c.is_ascii_alphabetic() || c == '_' {
            let s = i;
            while i < b.len() && (b[i].is_ascii_alphanumeric() || b[i] == '_') {
                i += 1;
            }
            out.push(Tok::Ident(b[s..i].iter().collect()));
            continue;
        }
        if c.is_ascii_digit() {
            let s = i;
            let mut hex = false;
            let mut value: u128 = 0;
            let mut overflow = false;
            if c == '0' && i + 1 < b.len() && (b[i + 1] == 'x' || b[i + 1] == 'X') {
                hex = true;
                i += 2;
                let ds = i;
                while i < b.len() && (b[i].is_ascii_hexdigit() || b[i] == '_') {
                    if b[i] != '_' {
                        value = match value.checked_mul(16) {
                            Some(v) => v + b[i].to_digit(16).unwrap() as u128,
                            None => {
                                overflow = true;
                                0
                            }
                        };
                    }
                    i += 1;
                }
                if i == ds {
                    return unknown("malformed hex literal");
                }
            } else if c == '0' && i + 1 < b.len() && (b[i + 1] == 'b' || b[i + 1] == 'B' || b[i + 1] == 'o' || b[i + 1] == 'O') {
                return unknown("binary/octal literal");
            } else {
                while i < b.len() && (b[i].is_ascii_digit() || b[i] == '_') {
                    if b[i] != '_' {
                        value = match value.checked_mul(10) {
                            Some(v) => v + b[i].to_digit(10).unwrap() as u128,
                            None => {
                                overflow = true;
                                0
                            }
                        };
                    }
                    i += 1;
                }
                // float?
                if i < b.len() && ((b[i] == '.' && i + 1 < b.len() && b[i + 1].is_ascii_digit()) || b[i] == 'e' || b[i] == 'E') {
                    while i < b.len() && (b[i].is_ascii_alphanumeric() || b[i] == '.' || b[i] == '_') {
                        i += 1;
                    }
                    out.push(Tok::Float(b[s..i].iter().collect()));
                    continue;
                }
                if value != 0 && b[s] == '0' && i - s > 1 {
                    return unknown("leading-zero (octal) literal");
                }
            }
            if overflow {
                return unknown("integer literal too large");
            }
            let ss = i;
            while i < b.len() && (b[i].is_ascii_alphabetic()) {
                i += 1;
            }
            let suffix: String = b[ss..i].iter().collect::<String>().to_ascii_lowercase();
            if suffix.contains('f') || suffix.contains('d') || suffix.contains('m') {
                out.push(Tok::Float(b[s..i].iter().collect()));
                continue;
            }
            out.push(Tok::Int(value, suffix, hex));
            continue;
        }
        let mut matched = None;
        for p in PUNCTS {
            let pc: Vec<char> = p.chars().collect();
            if i + pc.len() <= b.len() && b[i..i + pc.len()] == pc[..] {
                matched = Some(p);
                break;
            }
        }
        match matched {
            Some(p) => {
                out.push(Tok::P(p));
                i += p.len();
            }
            None => return unknown(format!("unexpected character `{c}`")),
        }
    }
    Ok(out)
}

#[derive(Clone, Debug, PartialEq)]
pub enum Ast {
    Var(String),
    Int(u128, String, bool),
    Bool(bool),
    Unary(String, Box<Ast>),
    Binary(String, Box<Ast>, Box<Ast>),
    Cond(Box<Ast>, Box<Ast>, Box<Ast>),
    /// explicit cast to a named type: C# `(T)e`, D `cast(T)e`
    Cast(String, Box<Ast>),
    /// call of a (possibly qualified) name: `f(x)`, `Int::to_int64(x)`,
    /// `math.Float32bits(x)`, `global::System.BitConverter.X(x)`, Go `int32(x)`
    Call(Vec<String>, Vec<Ast>),
    /// `recv.name(args)`, D `recv.name!T` / `recv.name!T(args)`
    Method(Box<Ast>, String, Option<String>, Vec<Ast>),
    /// C# `unchecked(e)` / `checked(e)`
    Wrap(String, Box<Ast>),
}

pub struct Parser<'a> {
    pub lang: Lang,
    pub toks: Vec<Tok>,
    pub pos: usize,
    /// names that are variables (everything else followed by `.`/`::` is a path)
    pub vars: &'a [String],
}

const CS_TYPES: [&str; 15] = ["byte", "sbyte", "short", "ushort", "int", "uint", "long", "ulong", "float", "double", "bool", "char", "nint", "nuint", "decimal"];

impl<'a> Parser<'a> {
    pub fn new(lang: Lang, src: &str, vars: &'a [String]) -> CResult<Parser<'a>> {
        Ok(Parser { lang, toks: lex(src)?, pos: 0, vars })
    }
    fn peek(&self) -> Option<&Tok> {
        self.toks.get(self.pos)
    }
    fn peek_at(&self, n: usize) -> Option<&Tok> {
        self.toks.get(self.pos + n)
    }
    fn is_p(&self, p: &str) -> bool {
        matches!(self.peek(), Some(Tok::P(q)) if *q == p)
    }
    fn is_p_at(&self, n: usize, p: &str) -> bool {
        matches!(self.peek_at(n), Some(Tok::P(q)) if *q == p)
    }
    fn eat_p(&mut self, p: &str) -> bool {
        if self.is_p(p) {
            self.pos += 1;
            true
        } else {
            false
        }
    }
    fn expect_p(&mut self, p: &str) -> CResult<()> {
        if self.eat_p(p) {
            Ok(())
        } else {
            unknown(format!("expected `{p}` at token {} ({:?})", self.pos, self.peek()))
        }
    }
    fn ident(&mut self) -> CResult<String> {
        match self.peek().cloned() {
            Some(Tok::Ident(s)) => {
                self.pos += 1;
                Ok(s)
            }
            t => unknown(format!("expected identifier, found {t:?}")),
        }
    }
    pub fn at_end(&self) -> bool {
        self.pos >= self.toks.len()
    }

    pub fn parse_full(&mut self) -> CResult<Ast> {
        let e = self.expr()?;
        if !self.at_end() {
            return unknown(format!("trailing tokens after expression: {:?}", &self.toks[self.pos..self.toks.len().min(self.pos + 4)]));
        }
        Ok(e)
    }

    pub fn expr(&mut self) -> CResult<Ast> {
        let c = self.binary(1)?;
        if matches!(self.lang, Lang::CSharp | Lang::D) && self.eat_p("?") {
            let a = self.expr()?;
            self.expect_p(":")?;
            let b = self.expr()?;
            return Ok(Ast::Cond(Box::new(c), Box::new(a), Box::new(b)));
        }
        Ok(c)
    }

    fn prec(&self, op: &str) -> Option<u8> {
        Some(match self.lang {
            Lang::CSharp | Lang::D => match op {
                "||" => 1,
                "&&" => 2,
                "|" => 3,
                "^" => 4,
                "&" => 5,
                "==" | "!=" => 6,
                "<" | ">" | "<=" | ">=" => 7,
                "<<" | ">>" => 8,
                "+" | "-" => 9,
                "*" | "/" | "%" => 10,
                _ => return None,
            },
            Lang::Go => match op {
                "||" => 1,
                "&&" => 2,
                "==" | "!=" | "<" | ">" | "<=" | ">=" => 3,
                "+" | "-" | "|" | "^" => 4,
                "*" | "/" | "%" | "<<" | ">>" | "&" | "&^" => 5,
                _ => return None,
            },
            Lang::MoonBit => match op {
                "||" => 1,
                "&&" => 2,
                "==" | "!=" | "<" | ">" | "<=" | ">=" => 3,
                "|" => 4,
                "^" => 5,
                "&" => 6,
                "<<" | ">>" => 7,
                "+" | "-" => 8,
                "*" | "/" | "%" => 9,
                _ => return None,
            },
        })
    }

    fn binary(&mut self, min: u8) -> CResult<Ast> {
        let mut lhs = self.unary()?;
        loop {
            let op = match self.peek() {
                Some(Tok::P(p)) => *p,
                _ => break,
            };
            let Some(pr) = self.prec(op) else { break };
            if pr < min {
                break;
            }
            self.pos += 1;
            let rhs = self.binary(pr + 1)?;
            // D rejects unparenthesised mixes of comparison and bitwise operators
            if self.lang == Lang::D {
                if let (Ast::Binary(o2, ..), true) = (&rhs, matches!(op, "&" | "|" | "^")) {
                    if matches!(o2.as_str(), "==" | "!=" | "<" | ">" | "<=" | ">=") {
                        return unknown("D: comparison inside bitwise operator needs parentheses");
                    }
                }
            }
            lhs = Ast::Binary(op.to_string(), Box::new(lhs), Box::new(rhs));
        }
        Ok(lhs)
    }

    fn type_text_until_close(&mut self) -> CResult<String> {
        // collects tokens up to the matching `)` (exclusive), consuming the `)`
        let mut depth = 0;
        let mut s = String::new();
        loop {
            match self.peek().cloned() {
                None => return unknown("unterminated type in cast"),
                Some(Tok::P(")")) if depth == 0 => {
                    self.pos += 1;
                    return Ok(s);
                }
                Some(Tok::P("(")) => {
                    depth += 1;
                    s.push('(');
                }
                Some(Tok::P(")")) => {
                    depth -= 1;
                    s.push(')');
                }
                Some(Tok::P(p)) => s.push_str(p),
                Some(Tok::Ident(i)) => {
                    if !s.is_empty() && s.chars().last().map(|c| c.is_ascii_alphanumeric() || c == '_').unwrap_or(false) {
                        s.push(' ');
                    }
                    s.push_str(&i)
                }
                Some(t) => return unknown(format!("unexpected token in type: {t:?}")),
            }
            self.pos += 1;
        }
    }

    fn unary(&mut self) -> CResult<Ast> {
        if let Some(Tok::P(p)) = self.peek().cloned() {
            match p {
                "-" | "!" | "~" | "+" => {
                    self.pos += 1;
                    let e = self.unary()?;
                    return Ok(Ast::Unary(p.to_string(), Box::new(e)));
                }
                "^" if self.lang == Lang::Go => {
                    self.pos += 1;
                    let e = self.unary()?;
                    return Ok(Ast::Unary("~".to_string(), Box::new(e)));
                }
                "(" if self.lang == Lang::CSharp => {
                    // `(T)e` with T a predefined type keyword
                    if let (Some(Tok::Ident(t)), true) = (self.peek_at(1).cloned(), self.is_p_at(2, ")")) {
                        if CS_TYPES.contains(&t.as_str()) {
                            self.pos += 3;
                            let e = self.unary()?;
                            return Ok(Ast::Cast(t, Box::new(e)));
                        }
                    }
                }
                _ => {}
            }
        }
        if self.lang == Lang::D {
            if let Some(Tok::Ident(k)) = self.peek() {
                if k == "cast" && self.is_p_at(1, "(") {
                    self.pos += 2;
                    let t = self.type_text_until_close()?;
                    let e = self.unary()?;
                    return Ok(Ast::Cast(t, Box::new(e)));
                }
            }
        }
        self.postfix()
    }

    fn args(&mut self) -> CResult<Vec<Ast>> {
        // after `(`
        let mut v = vec![];
        if self.eat_p(")") {
            return Ok(v);
        }
        loop {
            v.push(self.expr()?);
            if self.eat_p(",") {
                if self.eat_p(")") {
                    break;
                }
                continue;
            }
            self.expect_p(")")?;
            break;
        }
        Ok(v)
    }

    fn postfix(&mut self) -> CResult<Ast> {
        let mut e = self.primary()?;
        loop {
            if self.is_p(".") {
                // method / property
                let Some(Tok::Ident(name)) = self.peek_at(1).cloned() else { return unknown("`.` not followed by a name") };
                self.pos += 2;
                let mut targ = None;
                if self.lang == Lang::D && self.is_p("!") && !self.is_p_at(1, "=") {
                    self.pos += 1;
                    if self.eat_p("(") {
                        targ = Some(self.type_text_until_close()?);
                    } else {
                        targ = Some(self.ident()?);
                    }
                }
                if self.eat_p("(") {
                    let a = self.args()?;
                    e = Ast::Method(Box::new(e), name, targ, a);
                } else if self.lang == Lang::D {
                    // UFCS / property call without parentheses
                    e = Ast::Method(Box::new(e), name, targ, vec![]);
                } else {
                    return unknown(format!("field access `.{name}`"));
                }
                continue;
            }
            if self.is_p("[") {
                return unknown("indexing");
            }
            break;
        }
        Ok(e)
    }

    fn primary(&mut self) -> CResult<Ast> {
        match self.peek().cloned() {
            None => unknown("unexpected end of expression"),
            Some(Tok::Int(v, s, h)) => {
                self.pos += 1;
                Ok(Ast::Int(v, s, h))
            }
            Some(Tok::Float(f)) => unknown(format!("floating point literal `{f}`")),
            Some(Tok::P("(")) => {
                self.pos += 1;
                let e = self.expr()?;
                if self.lang == Lang::MoonBit && self.eat_p(":") {
                    // type ascription `(e : T)`
                    let _t = self.ident()?;
                    return unknown("type ascription");
                }
                self.expect_p(")")?;
                Ok(e)
            }
            Some(Tok::P(p)) => unknown(format!("unexpected `{p}`")),
            Some(Tok::Ident(id)) => {
                self.pos += 1;
                match id.as_str() {
                    "true" => return Ok(Ast::Bool(true)),
                    "false" => return Ok(Ast::Bool(false)),
                    "if" if self.lang == Lang::MoonBit => {
                        let c = self.expr()?;
                        self.expect_p("{")?;
                        let a = self.expr()?;
                        self.expect_p("}")?;
                        match self.peek() {
                            Some(Tok::Ident(e)) if e == "else" => self.pos += 1,
                            _ => return unknown("if without else"),
                        }
                        if matches!(self.peek(), Some(Tok::Ident(e)) if e == "if") {
                            let b = self.primary()?;
                            return Ok(Ast::Cond(Box::new(c), Box::new(a), Box::new(b)));
                        }
                        self.expect_p("{")?;
                        let b = self.expr()?;
                        self.expect_p("}")?;
                        return Ok(Ast::Cond(Box::new(c), Box::new(a), Box::new(b)));
                    }
                    "unchecked" | "checked" if self.lang == Lang::CSharp && self.is_p("(") => {
                        self.pos += 1;
                        let e = self.expr()?;
                        self.expect_p(")")?;
                        return Ok(Ast::Wrap(id, Box::new(e)));
                    }
                    _ => {}
                }
                if self.vars.iter().any(|v| *v == id) {
                    return Ok(Ast::Var(id));
                }
                // (qualified) name, must be called
                let mut path = vec![id];
                loop {
                    let sep = if self.is_p("::") {
                        true
                    } else if self.is_p(".") {
                        true
                    } else {
                        false
                    };
                    if sep {
                        if let Some(Tok::Ident(n)) = self.peek_at(1).cloned() {
                            self.pos += 2;
                            path.push(n);
                            continue;
                        }
                    }
                    break;
                }
                if self.lang == Lang::D && self.is_p("!") && !self.is_p_at(1, "=") {
                    // template instance f!T(args)
                    self.pos += 1;
                    let t = if self.eat_p("(") { self.type_text_until_close()? } else { self.ident()? };
                    self.expect_p("(")?;
                    let mut a = self.args()?;
                    if a.len() != 1 || path.len() != 1 {
                        return unknown("template call shape");
                    }
                    return Ok(Ast::Method(Box::new(a.remove(0)), path.remove(0), Some(t), vec![]));
                }
                if self.eat_p("(") {
                    let a = self.args()?;
                    return Ok(Ast::Call(path, a));
                }
                unknown(format!("unknown name `{}`", path.join(".")))
            }
        }
    }
}

pub fn parse_expr(lang: Lang, src: &str, vars: &[String]) -> Result<Ast, Unknown> {
    Parser::new(lang, src, vars)?.parse_full()
}
