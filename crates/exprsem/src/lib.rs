//! exprsem — extraction and evaluation of the scalar-conversion / Bitcast
//! expressions every wit-bindgen backend emits (checks C14 and C04 part 3).
pub mod compile;
pub mod extract;
pub mod helpers;
pub mod ir;
pub mod native;
pub mod oracle;
pub mod parse;
pub mod probe;
pub mod run;
pub mod selftest;
