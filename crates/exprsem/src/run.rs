//! Orchestration: observations -> cases -> evaluators -> judged statistics.
use crate::compile::{compile_expr, trusted_base, Helper};
use crate::extract::{Extraction, Obs};
use crate::ir::{int_value, mask, Expr, Ty};
use crate::native::{self, NCase, NLang};
use crate::oracle::*;
use crate::parse::Lang;
use crate::probe::{self, Types};
use serde_json::{json, Value};
use std::collections::{BTreeMap, BTreeSet};
use std::path::Path;
use std::sync::Arc;

pub const VAR: &str = "opnd0";

#[derive(Clone, Debug)]
pub struct Case {
    pub backend: String,
    pub inst: String,
    pub is_cast: bool,
    pub template: String,
    pub sample_operand: String,
    pub sample_result: String,
    pub occurrences: u64,
    pub world: String,
}

impl Case {
    pub fn key(&self) -> String {
        format!("{}:{}:{}", self.backend, self.inst, self.template)
    }
}

fn is_ident_char(c: char) -> bool {
    c.is_alphanumeric() || c == '_'
}

/// replace whole-token occurrences of `operand` in `result` by VAR
pub fn make_template(result: &str, operand: &str) -> Option<String> {
    if operand.is_empty() {
        return None;
    }
    let first_ident = operand.chars().next().map(is_ident_char).unwrap_or(false);
    let last_ident = operand.chars().last().map(is_ident_char).unwrap_or(false);
    let mut out = String::new();
    let mut i = 0;
    let mut n = 0;
    while i < result.len() {
        if result[i..].starts_with(operand) {
            let before = result[..i].chars().last();
            let after = result[i + operand.len()..].chars().next();
            let ok_before = !first_ident || !before.map(|c| is_ident_char(c) || c == '.').unwrap_or(false);
            let ok_after = !last_ident || !after.map(is_ident_char).unwrap_or(false);
            if ok_before && ok_after {
                out.push_str(VAR);
                i += operand.len();
                n += 1;
                continue;
            }
        }
        let ch = result[i..].chars().next().unwrap();
        out.push(ch);
        i += ch.len_utf8();
    }
    if n == 0 {
        None
    } else {
        Some(out)
    }
}

pub fn lang_of(backend: &str) -> Option<Lang> {
    match backend {
        "csharp" => Some(Lang::CSharp),
        "go" => Some(Lang::Go),
        "moonbit" => Some(Lang::MoonBit),
        "d" => Some(Lang::D),
        _ => None,
    }
}

/// language type of a wasm slot type
pub fn w_type_name(backend: &str, types: &Types, w: W) -> Option<String> {
    let core = |s: &str| types.core.get(s).cloned();
    match w {
        W::I32 => core("s32"),
        W::I64 => core("s64"),
        W::F32 => core("f32"),
        W::F64 => core("f64"),
        W::P => Some(
            match backend {
                "rust" => "*mut u8",
                "c" => "uint8_t *",
                "cpp" => "uint8_t*",
                "csharp" => "nint",
                "go" => "uintptr",
                "moonbit" => "Int",
                "d" => "void*",
                _ => return None,
            }
            .to_string(),
        ),
        W::L => Some(
            match backend {
                "rust" => "usize",
                "c" | "cpp" => "size_t",
                "csharp" => "int",
                "go" => "uint32",
                "moonbit" => "Int",
                "d" => "size_t",
                _ => return None,
            }
            .to_string(),
        ),
        W::P64 => Some(
            match backend {
                "rust" => "::core::mem::MaybeUninit<u64>",
                "c" | "cpp" => "int64_t",
                "csharp" => "long",
                "go" => "int64",
                "moonbit" => "Int64",
                "d" => "ulong",
                _ => return None,
            }
            .to_string(),
        ),
    }
}

#[derive(Clone, Debug, Default)]
pub struct Stats {
    pub evaluated: u64,
    pub ok: u64,
    pub ok_zero_ext: u64,
    pub ok_sign_ext: u64,
    pub lenient: u64,
    pub lenient_true: u64,
    pub lenient_false: u64,
    pub lenient_trap: u64,
    pub nan_payload: u64,
    pub unencodable: u64,
    /// class -> (count, smallest failing domain index, input, got)
    pub bad: BTreeMap<String, (u64, u64, u64, Option<u64>)>,
}

impl Stats {
    fn merge(&mut self, o: &Stats) {
        self.evaluated += o.evaluated;
        self.ok += o.ok;
        self.ok_zero_ext += o.ok_zero_ext;
        self.ok_sign_ext += o.ok_sign_ext;
        self.lenient += o.lenient;
        self.lenient_true += o.lenient_true;
        self.lenient_false += o.lenient_false;
        self.lenient_trap += o.lenient_trap;
        self.nan_payload += o.nan_payload;
        self.unencodable += o.unencodable;
        for (k, v) in &o.bad {
            let e = self.bad.entry(k.clone()).or_insert((0, u64::MAX, 0, None));
            e.0 += v.0;
            if v.1 < e.1 {
                e.1 = v.1;
                e.2 = v.2;
                e.3 = v.3;
            }
        }
    }
    pub fn to_json(&self) -> Value {
        json!({"evaluated": self.evaluated, "ok": self.ok, "zx": self.ok_zero_ext, "sx": self.ok_sign_ext, "len": self.lenient,
               "lt": self.lenient_true, "lf": self.lenient_false, "lx": self.lenient_trap, "nan": self.nan_payload, "unenc": self.unencodable,
               "bad": self.bad.iter().map(|(k, v)| json!([k, v.0, v.1.to_string(), v.2.to_string(), v.3.map(|g| g.to_string())])).collect::<Vec<_>>()})
    }
    pub fn from_json(v: &Value) -> Stats {
        let g = |k: &str| v[k].as_u64().unwrap_or(0);
        let mut s = Stats { evaluated: g("evaluated"), ok: g("ok"), ok_zero_ext: g("zx"), ok_sign_ext: g("sx"), lenient: g("len"), lenient_true: g("lt"), lenient_false: g("lf"), lenient_trap: g("lx"), nan_payload: g("nan"), unencodable: g("unenc"), bad: BTreeMap::new() };
        for b in v["bad"].as_array().cloned().unwrap_or_default() {
            let p = |i: usize| b[i].as_str().and_then(|s| s.parse::<u64>().ok());
            s.bad.insert(b[0].as_str().unwrap_or("?").to_string(), (b[1].as_u64().unwrap_or(0), p(2).unwrap_or(0), p(3).unwrap_or(0), p(4)));
        }
        s
    }
}

#[derive(Clone)]
pub enum Evaluator {
    Interp(Expr),
    Native(native::BatchFn),
}

#[derive(Clone)]
pub struct Prepared {
    pub case: Case,
    pub sem: Sem,
    pub operand_ty: Ty,
    pub result_ty: Ty,
    pub eval: Evaluator,
    /// "", "debug", "release" (Rust)
    pub profile: String,
    /// see oracle::TypeCheck::Soft
    pub soft: Option<String>,
}

const BLOCK: usize = 4096;

fn eval_block(ev: &Evaluator, raws: &[u64], out: &mut [u64], st: &mut [u8]) {
    match ev {
        Evaluator::Interp(e) => {
            for (i, r) in raws.iter().enumerate() {
                match (e.f)(std::slice::from_ref(r)) {
                    Ok(v) => {
                        out[i] = v;
                        st[i] = 0
                    }
                    Err(_) => st[i] = 1,
                }
            }
        }
        Evaluator::Native(f) => unsafe { f(raws.as_ptr(), out.as_mut_ptr(), st.as_mut_ptr(), raws.len()) },
    }
}

pub fn threads() -> usize {
    std::env::var("VERIF_THREADS").ok().and_then(|s| s.parse().ok()).unwrap_or_else(|| std::thread::available_parallelism().map(|n| n.get()).unwrap_or(4)).max(1)
}

/// Evaluate one prepared case over a domain.
pub fn run_case(p: &Prepared, domain: &Domain, ptr_sext: bool) -> Stats {
    let n = domain.len();
    let nthreads = if n < 200_000 { 1 } else { threads() };
    let chunk = (n + nthreads as u64 - 1) / nthreads as u64;
    let mut total = Stats::default();
    let parts: Vec<Stats> = std::thread::scope(|sc| {
        let hs: Vec<_> = (0..nthreads as u64)
            .map(|t| {
                let (lo, hi) = (t * chunk, ((t + 1) * chunk).min(n));
                sc.spawn(move || {
                    let mut s = Stats::default();
                    let mut xs = Vec::with_capacity(BLOCK);
                    let mut idx = Vec::with_capacity(BLOCK);
                    let mut raws = Vec::with_capacity(BLOCK);
                    let mut out = vec![0u64; BLOCK];
                    let mut st = vec![0u8; BLOCK];
                    let mut i = lo;
                    while i < hi {
                        xs.clear();
                        raws.clear();
                        idx.clear();
                        while i < hi && xs.len() < BLOCK {
                            let x = domain.get(i);
                            match encode_input(&p.sem, p.operand_ty, x, ptr_sext) {
                                Some(r) => {
                                    xs.push(x);
                                    raws.push(r);
                                    idx.push(i);
                                }
                                None => s.unencodable += 1,
                            }
                            i += 1;
                        }
                        let m = xs.len();
                        eval_block(&p.eval, &raws, &mut out[..m], &mut st[..m]);
                        for k in 0..m {
                            // status 2: the harness itself could not build the operand (invalid char) -> skipped
                            if st[k] == 2 {
                                s.unencodable += 1;
                                continue;
                            }
                            let res = if st[k] == 0 { Ok(out[k]) } else { Err(()) };
                            s.evaluated += 1;
                            match judge(&p.sem, xs[k], res, p.result_ty) {
                                Verdict::Ok => s.ok += 1,
                                Verdict::OkZeroExt => s.ok_zero_ext += 1,
                                Verdict::OkSignExt => s.ok_sign_ext += 1,
                                Verdict::Lenient => {
                                    s.lenient += 1;
                                    match res {
                                        Err(()) => s.lenient_trap += 1,
                                        Ok(v) if v != 0 => s.lenient_true += 1,
                                        Ok(_) => s.lenient_false += 1,
                                    }
                                }
                                Verdict::NanPayload => s.nan_payload += 1,
                                Verdict::Bad(class) => {
                                    let e = s.bad.entry(class.to_string()).or_insert((0, u64::MAX, 0, None));
                                    e.0 += 1;
                                    if idx[k] < e.1 {
                                        e.1 = idx[k];
                                        e.2 = xs[k];
                                        e.3 = res.ok();
                                    }
                                }
                            }
                        }
                    }
                    s
                })
            })
            .collect();
        hs.into_iter().map(|h| h.join().unwrap()).collect()
    });
    for p in &parts {
        total.merge(p);
    }
    total
}

/// round trip through the backend's own pair of casts: down(up(x)) == x
pub fn run_roundtrip(up: &Prepared, down: &Prepared, domain: &Domain) -> Stats {
    let n = domain.len();
    let nthreads = if n < 200_000 { 1 } else { threads() };
    let chunk = (n + nthreads as u64 - 1) / nthreads as u64;
    let from = up.sem.from_w().unwrap();
    let parts: Vec<Stats> = std::thread::scope(|sc| {
        let hs: Vec<_> = (0..nthreads as u64)
            .map(|t| {
                let (lo, hi) = (t * chunk, ((t + 1) * chunk).min(n));
                sc.spawn(move || {
                    let mut s = Stats::default();
                    let mut xs = Vec::with_capacity(BLOCK);
                    let mut idx = Vec::with_capacity(BLOCK);
                    let mut raws = Vec::with_capacity(BLOCK);
                    let mut mid = vec![0u64; BLOCK];
                    let mut out = vec![0u64; BLOCK];
                    let mut st = vec![0u8; BLOCK];
                    let mut st2 = vec![0u8; BLOCK];
                    let mut i = lo;
                    while i < hi {
                        xs.clear();
                        raws.clear();
                        idx.clear();
                        while i < hi && xs.len() < BLOCK {
                            let x = domain.get(i) & mask(from.bits());
                            if let Some(r) = encode_input(&up.sem, up.operand_ty, x, false) {
                                xs.push(x);
                                raws.push(r);
                                idx.push(i);
                            }
                            i += 1;
                        }
                        let m = xs.len();
                        eval_block(&up.eval, &raws, &mut mid[..m], &mut st[..m]);
                        // store into the slot: implicit value-preserving conversion to the slot type
                        for k in 0..m {
                            let v = match up.result_ty {
                                Ty::Int { .. } => int_value(up.result_ty, mid[k]) as u64,
                                _ => mid[k],
                            };
                            mid[k] = v & mask(down.operand_ty.bits());
                        }
                        eval_block(&down.eval, &mid[..m], &mut out[..m], &mut st2[..m]);
                        for k in 0..m {
                            s.evaluated += 1;
                            let got = match down.result_ty {
                                Ty::Int { .. } => (int_value(down.result_ty, out[k]) as u64) & mask(from.bits()),
                                _ => out[k] & mask(from.bits()),
                            };
                            if st[k] == 0 && st2[k] == 0 && got == xs[k] {
                                s.ok += 1;
                            } else {
                                let class = if st[k] != 0 || st2[k] != 0 { "traps" } else { "round-trip" };
                                let e = s.bad.entry(class.to_string()).or_insert((0, u64::MAX, 0, None));
                                e.0 += 1;
                                if idx[k] < e.1 {
                                    e.1 = idx[k];
                                    e.2 = xs[k];
                                    e.3 = Some(got);
                                }
                            }
                        }
                    }
                    s
                })
            })
            .collect();
        hs.into_iter().map(|h| h.join().unwrap()).collect()
    });
    let mut total = Stats::default();
    for p in &parts {
        total.merge(p);
    }
    total
}

// ------------------------------------------------------------------ preparation

pub struct BackendCtx {
    pub backend: String,
    pub types: Types,
    pub helpers: BTreeMap<String, Helper>,
    pub helper_problems: BTreeMap<String, String>,
    pub files_all: Vec<(String, String)>,
    pub files_scalars: Vec<(String, String)>,
}

pub fn cases_from(ex: &Extraction, mode_casts: bool) -> (Vec<Case>, Vec<(Obs, String)>) {
    let mut map: BTreeMap<(String, String, String), Case> = BTreeMap::new();
    let mut temps = vec![];
    for o in &ex.obs {
        if o.is_cast != mode_casts {
            continue;
        }
        match make_template(&o.result, &o.operand) {
            Some(t) => {
                let k = (o.backend.clone(), o.inst.clone(), t.clone());
                map.entry(k)
                    .and_modify(|c| c.occurrences += o.occurrences)
                    .or_insert(Case { backend: o.backend.clone(), inst: o.inst.clone(), is_cast: o.is_cast, template: t, sample_operand: o.operand.clone(), sample_result: o.result.clone(), occurrences: o.occurrences, world: o.world.clone() });
            }
            None => temps.push((o.clone(), "operand does not occur in the result string (result materialised in a temporary)".to_string())),
        }
    }
    (map.into_values().collect(), temps)
}

pub fn sem_of(case: &Case) -> Option<Sem> {
    if case.is_cast {
        if case.inst == "None" {
            return None;
        }
        cast_steps(&case.inst).map(|steps| Sem::Cast { kind: case.inst.clone(), steps })
    } else {
        scalar_inst(&case.inst).map(|(lower, s)| if lower { Sem::Lower(s) } else { Sem::Lift(s) })
    }
}

/// operand / expected-result type names for a case
pub fn type_names(backend: &str, types: &Types, sem: &Sem) -> Result<(String, String), String> {
    match sem {
        Sem::Lower(s) => {
            let o = types.declared.get(s.wit()).cloned().ok_or_else(|| format!("declared type of {} unknown (probe failed)", s.wit()))?;
            let r = types.core.get(s.wit()).cloned().ok_or_else(|| format!("core type of {} unknown (probe failed)", s.wit()))?;
            Ok((o, r))
        }
        Sem::Lift(s) => {
            let r = types.declared.get(s.wit()).cloned().ok_or_else(|| format!("declared type of {} unknown (probe failed)", s.wit()))?;
            let o = types.core.get(s.wit()).cloned().ok_or_else(|| format!("core type of {} unknown (probe failed)", s.wit()))?;
            Ok((o, r))
        }
        Sem::Cast { steps, .. } => {
            let o = w_type_name(backend, types, steps[0].0).ok_or("slot type unknown (probe failed)")?;
            let r = w_type_name(backend, types, steps.last().unwrap().1).ok_or("slot type unknown (probe failed)")?;
            Ok((o, r))
        }
    }
}

/// Prepare an interpreted case.  Err = inconclusive reason.
pub fn prepare_interp(case: &Case, cx: &BackendCtx) -> Result<Prepared, String> {
    let lang = lang_of(&case.backend).unwrap();
    let sem = sem_of(case).ok_or("instruction not recognised")?;
    let (otn, rtn) = type_names(&case.backend, &cx.types, &sem)?;
    let oty = crate::compile::type_by_name(lang, &otn).ok_or_else(|| format!("operand type `{otn}` is not modelled"))?;
    let declared = crate::compile::type_by_name(lang, &rtn);
    let expr = compile_expr(lang, &case.template, &[(VAR.to_string(), oty)], &cx.helpers).map_err(|u| format!("unknown construct: {}", u.0))?;
    let allow_bool = lang == Lang::D;
    let decl_for_check = match sem {
        Sem::Lift(_) => Some(declared.ok_or_else(|| format!("declared type `{rtn}` is not modelled"))?),
        _ => None,
    };
    let soft = match result_type_problem(&sem, expr.ty, decl_for_check, allow_bool) {
        TypeCheck::Ok => None,
        TypeCheck::Soft(s) => Some(s),
        TypeCheck::Hard(p) => return Err(p),
    };
    Ok(Prepared { case: case.clone(), sem, operand_ty: oty, result_ty: expr.ty, eval: Evaluator::Interp(expr), profile: String::new(), soft })
}

/// Go: a result that is a temporary assigned in an `if`/`else`.
pub fn prepare_go_temp(o: &Obs, cx: &BackendCtx) -> Result<Prepared, String> {
    let (tyname, a, b) = crate::helpers::go_temp_statement(&cx.files_all, &o.result, &o.operand).map_err(|u| u.0)?;
    let (lower, s) = scalar_inst(&o.inst).ok_or("not a scalar instruction")?;
    let sem = if lower { Sem::Lower(s) } else { Sem::Lift(s) };
    let (otn, _) = type_names(&o.backend, &cx.types, &sem)?;
    let oty = crate::compile::type_by_name(Lang::Go, &otn).ok_or_else(|| format!("operand type `{otn}` is not modelled"))?;
    let rty = crate::compile::type_by_name(Lang::Go, &tyname).ok_or_else(|| format!("temporary type `{tyname}` is not modelled"))?;
    if oty != Ty::Bool {
        return Err("condition operand is not bool".into());
    }
    let cond = Expr::var(oty, 0);
    let ea = compile_expr(Lang::Go, &format!("{tyname}({a})"), &[], &cx.helpers).map_err(|u| u.0)?;
    let eb = compile_expr(Lang::Go, &format!("{tyname}({b})"), &[], &cx.helpers).map_err(|u| u.0)?;
    let e = Expr::cond(cond, ea, eb, rty);
    if let TypeCheck::Hard(p) | TypeCheck::Soft(p) = result_type_problem(&sem, e.ty, None, false) {
        return Err(p);
    }
    let case = Case {
        backend: o.backend.clone(),
        inst: o.inst.clone(),
        is_cast: false,
        template: format!("var R {tyname}; if {VAR} {{ R = {a} }} else {{ R = {b} }}; R"),
        sample_operand: o.operand.clone(),
        sample_result: o.result.clone(),
        occurrences: o.occurrences,
        world: o.world.clone(),
    };
    Ok(Prepared { case, sem, operand_ty: oty, result_ty: rty, eval: Evaluator::Interp(e), profile: String::new(), soft: None })
}

pub fn backend_ctx(ex: &Extraction, backend: &str) -> BackendCtx {
    let scal: Vec<(String, String)> = ex.files.get(&(backend.to_string(), "scalars".to_string())).cloned().unwrap_or_default();
    let mut all = vec![];
    for ((b, _), f) in &ex.files {
        if b == backend {
            all.extend(f.iter().cloned());
        }
    }
    let types = probe::probe(backend, &scal);
    let (helpers, helper_problems) = match backend {
        "moonbit" => crate::helpers::moonbit_helpers(&all),
        "d" => (crate::helpers::d_helpers(&all), BTreeMap::new()),
        _ => (BTreeMap::new(), BTreeMap::new()),
    };
    BackendCtx { backend: backend.to_string(), types, helpers, helper_problems, files_all: all, files_scalars: scal }
}

// --------------------------------------------------------------- native backends

#[derive(Clone)]
pub struct NPrep {
    pub id: usize,
    pub case: Case,
    pub sem: Sem,
    pub operand_ty: Ty,
    pub result_ty: Ty,
    pub oname: String,
    pub rname: String,
    /// Rust: expression type inferred by rustc because it does not type-check against `rname`
    pub infer: bool,
}

pub struct NativePlan {
    pub lang: NLang,
    pub prepared: Vec<NPrep>,
    pub inconclusive: Vec<(Case, String)>,
}

pub fn plan_native(cases: &[Case], cx: &BackendCtx) -> NativePlan {
    let lang = NLang::of(&cx.backend).unwrap();
    let mut plan = NativePlan { lang, prepared: vec![], inconclusive: vec![] };
    for (i, c) in cases.iter().enumerate() {
        let Some(sem) = sem_of(c) else {
            if c.inst != "None" {
                plan.inconclusive.push((c.clone(), "instruction not recognised".into()));
            }
            continue;
        };
        match type_names(&cx.backend, &cx.types, &sem) {
            Ok((o, r)) => match (native::type_by_name(lang, &o), native::type_by_name(lang, &r)) {
                (Some(ot), Some(rt)) => plan.prepared.push(NPrep { id: i, case: c.clone(), sem, operand_ty: ot, result_ty: rt, oname: o, rname: r, infer: false }),
                _ => plan.inconclusive.push((c.clone(), format!("types `{o}` / `{r}` are not modelled by the native wrapper"))),
            },
            Err(e) => plan.inconclusive.push((c.clone(), e)),
        }
    }
    plan
}

pub fn native_sources(plan: &NativePlan, cx: &BackendCtx, only: Option<usize>) -> Result<String, String> {
    let ncases: Vec<NCase> = plan.prepared.iter().filter(|p| only.map(|o| o == p.id).unwrap_or(true)).map(|p| NCase { id: p.id, expr: p.case.template.clone(), operand_ty: p.oname.clone(), result_ty: p.rname.clone(), infer: p.infer }).collect();
    match plan.lang {
        NLang::Rust => {
            // the scalar world's runtime module holds every helper the scalar arms use
            let rt = native::rust_rt_module(&cx.files_scalars).or_else(|| native::rust_rt_module(&cx.files_all)).ok_or("`mod _rt` not found in the generated Rust")?;
            Ok(native::rust_source(&ncases, &rt))
        }
        NLang::C => Ok(native::c_source(&ncases, &native::c_unions(&cx.files_all), false)),
        NLang::Cpp => Ok(native::c_source(&ncases, "", true)),
    }
}

/// Build the shared object(s); cases whose wrapper does not compile are moved to
/// `inconclusive` (compilability of generated code is C09/C12/C31's business).
pub fn build_native(plan: &mut NativePlan, cx: &BackendCtx, dir: &Path) -> Result<Vec<(String, std::path::PathBuf)>, String> {
    let profiles: Vec<&str> = if plan.lang == NLang::Rust { vec!["debug", "release"] } else { vec![""] };
    let mut tried_individual = false;
    loop {
        let src = native_sources(plan, cx, None)?;
        let mut libs = vec![];
        let mut failed = None;
        let lang = plan.lang;
        let results: Vec<(String, Result<native::Built, String>)> = std::thread::scope(|sc| {
            let hs: Vec<_> = profiles
                .iter()
                .map(|p| {
                    let stem = format!("exprsem_{}_{}", cx.backend, if p.is_empty() { "x" } else { p });
                    let src = &src;
                    sc.spawn(move || (p.to_string(), native::build(lang, dir, &stem, src, p)))
                })
                .collect();
            hs.into_iter().map(|h| h.join().unwrap()).collect()
        });
        for (p, r) in results {
            match r {
                Ok(b) => libs.push((p, b.lib)),
                Err(e) => {
                    failed = Some(e);
                    break;
                }
            }
        }
        let Some(err) = failed else { return Ok(libs) };
        if tried_individual {
            return Err(format!("native wrapper does not compile: {}", first_error_line(&err)));
        }
        tried_individual = true;
        // find the offenders one by one
        let ids: Vec<usize> = plan.prepared.iter().map(|p| p.id).collect();
        let mut offenders = vec![];
        for id in ids {
            let src1 = native_sources(plan, cx, Some(id))?;
            if let Err(e) = native::build(plan.lang, dir, &format!("exprsem_{}_probe", cx.backend), &src1, profiles[0]) {
                if plan.lang == NLang::Rust {
                    // does the expression compile at its own (inferred) type?
                    let pos = plan.prepared.iter().position(|p| p.id == id).unwrap();
                    plan.prepared[pos].infer = true;
                    let src2 = native_sources(plan, cx, Some(id))?;
                    if native::build(plan.lang, dir, &format!("exprsem_{}_probe", cx.backend), &src2, profiles[0]).is_ok() {
                        continue;
                    }
                    plan.prepared[pos].infer = false;
                }
                offenders.push((id, first_error_line(&e)));
            }
        }
        if offenders.is_empty() && plan.prepared.iter().any(|p| p.infer) {
            continue;
        }
        if offenders.is_empty() {
            return Err(format!("native wrapper does not compile as a whole: {}", first_error_line(&err)));
        }
        for (id, e) in offenders {
            if let Some(pos) = plan.prepared.iter().position(|p| p.id == id) {
                let p = plan.prepared.remove(pos);
                plan.inconclusive.push((p.case, format!("wrapper `{}` -> `{}` does not compile: {e}", p.oname, p.rname)));
            }
        }
    }
}

fn first_error_line(log: &str) -> String {
    log.lines().find(|l| l.contains("error")).unwrap_or_else(|| log.lines().next().unwrap_or("")).chars().take(300).collect()
}

// ----------------------------------------------------------------------- report

pub fn class_priority(c: &str) -> usize {
    ["wrong-on-canonical-input", "wrong-value", "low-bits-wrong", "high-bits-garbage", "no-sign-extension", "not-zero-extended", "bool-not-0-or-1", "bits-changed", "traps", "undefined-behaviour", "round-trip", "high-bits-not-ignored"]
        .iter()
        .position(|x| *x == c)
        .unwrap_or(99)
}

pub fn trusted_base_all() -> Vec<String> {
    let mut v: Vec<String> = vec![
        "Rust/C/C++ expressions are not modelled: they are compiled (rustc 2021 with the generated `_rt` helper module; clang-14 -std=c11 and g++-12 -std=c++20, both -O1 -fsanitize=undefined -fno-sanitize-recover=all) for x86_64-linux and executed; operands/results cross the harness boundary with memcpy (C/C++) or same-width `as`/from_bits/to_bits (Rust)".into(),
        "native runs use 64-bit pointers / size_t / usize: 32-bit pointer and length slot values are fed zero- and sign-extended and pointer/length results are judged modulo 2^32 (wasm32 keeps only those bits)".into(),
        "a C/C++ result is converted to the slot/declared type by initialising a variable of that type (the implicit conversion the generated code performs on assignment / return / argument passing)".into(),
        "operand and result types are read from the generated bindings of the fixed scalar world (probes); Pointer/Length/PointerOrI64 slot types are the backends' `wasm_type` tables".into(),
        "oracle: canonical ABI lower_flat/lift_flat for scalars; slot coercions = cabi_ref::Abi::coerce_into_slot / coerce_from_slot; a 32->64 bit into-slot cast is accepted when the low half is exact and the high half is all zeros (spec) or the sign fill (every conforming peer applies wrap_i64_to_i32, so the two are observationally equivalent); which one occurs is recorded in coverage.slot_high_bits".into(),
        "bool lifts are judged strictly on {0,1}; other core values are recorded but never a violation (generators may assume a valid encoding; Rust debug builds panic by design); char lifts are judged on unicode scalar values only".into(),
    ];
    for l in [Lang::CSharp, Lang::Go, Lang::MoonBit, Lang::D] {
        v.extend(trusted_base(l).into_iter().map(|s| s.to_string()));
    }
    v
}

pub fn hex(x: u64) -> String {
    format!("0x{x:x}")
}

pub fn witness_json(p: &Prepared, class: &str, input: u64, got: Option<u64>, domain: &str) -> Value {
    json!({
        "backend": p.case.backend,
        "instruction": p.case.inst,
        "expression": p.case.sample_result,
        "operand": p.case.sample_operand,
        "template": p.case.template,
        "operand_type": p.operand_ty.name(),
        "result_type": p.result_ty.name(),
        "profile": p.profile,
        "class": class,
        "input": hex(input),
        "expected": describe_expected(&p.sem, input),
        "got": describe_got(got.ok_or(()), p.result_ty),
        "domain": domain,
    })
}

pub struct Outcome {
    pub key: String,
    pub prepared_backend: String,
    pub inst: String,
    pub is_cast: bool,
    pub template: String,
    pub profile: String,
    pub stats: Stats,
    pub domain: String,
    pub witness: BTreeMap<String, Value>,
    pub soft: Option<String>,
    /// statistics copied from an identical (expression, operand type, widths) run of another Bitcast kind
    pub reused: bool,
}

pub fn outcome_of(p: &Prepared, stats: Stats, domain: &Domain) -> Outcome {
    let mut witness = BTreeMap::new();
    for (class, (_, _, input, got)) in &stats.bad {
        witness.insert(class.clone(), witness_json(p, class, *input, *got, &domain.describe()));
    }
    Outcome { key: format!("{}{}", p.case.key(), if p.profile.is_empty() { String::new() } else { format!(":{}", p.profile) }), prepared_backend: p.case.backend.clone(), inst: p.case.inst.clone(), is_cast: p.case.is_cast, template: p.case.template.clone(), profile: p.profile.clone(), stats, domain: domain.describe(), witness, soft: p.soft.clone(), reused: false }
}

pub fn outcome_to_json(o: &Outcome) -> Value {
    json!({"key": o.key, "backend": o.prepared_backend, "inst": o.inst, "is_cast": o.is_cast, "template": o.template, "profile": o.profile, "stats": o.stats.to_json(), "domain": o.domain, "witness": o.witness, "soft": o.soft, "reused": o.reused})
}

pub fn outcome_from_json(v: &Value) -> Outcome {
    Outcome {
        key: v["key"].as_str().unwrap_or("").to_string(),
        prepared_backend: v["backend"].as_str().unwrap_or("").to_string(),
        inst: v["inst"].as_str().unwrap_or("").to_string(),
        is_cast: v["is_cast"].as_bool().unwrap_or(false),
        template: v["template"].as_str().unwrap_or("").to_string(),
        profile: v["profile"].as_str().unwrap_or("").to_string(),
        stats: Stats::from_json(&v["stats"]),
        domain: v["domain"].as_str().unwrap_or("").to_string(),
        witness: v["witness"].as_object().map(|m| m.iter().map(|(k, v)| (k.clone(), v.clone())).collect()).unwrap_or_default(),
        soft: v["soft"].as_str().map(|s| s.to_string()),
        reused: v["reused"].as_bool().unwrap_or(false),
    }
}

pub fn unused() -> (Arc<()>, BTreeSet<()>) {
    (Arc::new(()), BTreeSet::new())
}
