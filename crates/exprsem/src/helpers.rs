//! Helper functions found in generated output: MoonBit inline-wasm FFI helpers
//! (interpreted from their WebAssembly text), the D `reinterpretCast` template
//! (verified textually), and Go statement sequences that materialise a result in
//! a temporary.
use crate::compile::Helper;
use crate::ir::*;
use crate::parse::{lex, Lang, Tok};
use std::collections::BTreeMap;
use std::sync::Arc;

// ------------------------------------------------------------------ wasm text

#[derive(Clone, Copy, Debug, PartialEq, Eq)]
enum W {
    I32,
    I64,
    F32,
    F64,
}

#[derive(Clone, Debug)]
enum Op {
    LocalGet(usize),
    Const(W, u64),
    Un(&'static str),
    Bin(&'static str),
}

fn wty(s: &str) -> Option<W> {
    Some(match s {
        "i32" => W::I32,
        "i64" => W::I64,
        "f32" => W::F32,
        "f64" => W::F64,
        _ => return None,
    })
}

const UNOPS: [(&str, W, W); 17] = [
    ("i32.extend8_s", W::I32, W::I32),
    ("i32.extend16_s", W::I32, W::I32),
    ("i64.extend8_s", W::I64, W::I64),
    ("i64.extend16_s", W::I64, W::I64),
    ("i64.extend32_s", W::I64, W::I64),
    ("i64.extend_i32_s", W::I32, W::I64),
    ("i64.extend_i32_u", W::I32, W::I64),
    ("i32.wrap_i64", W::I64, W::I32),
    ("i32.eqz", W::I32, W::I32),
    ("i64.eqz", W::I64, W::I32),
    ("f32.reinterpret_i32", W::I32, W::F32),
    ("i32.reinterpret_f32", W::F32, W::I32),
    ("f64.reinterpret_i64", W::I64, W::F64),
    ("i64.reinterpret_f64", W::F64, W::I64),
    ("i32.clz", W::I32, W::I32),
    ("i32.ctz", W::I32, W::I32),
    ("i32.popcnt", W::I32, W::I32),
];

const BINOPS: [&str; 11] = ["add", "sub", "mul", "and", "or", "xor", "shl", "shr_s", "shr_u", "rotl", "rotr"];

fn unop(name: &str, x: u64) -> u64 {
    match name {
        "i32.extend8_s" => (x as u8 as i8 as i32 as u32) as u64,
        "i32.extend16_s" => (x as u16 as i16 as i32 as u32) as u64,
        "i64.extend8_s" => x as u8 as i8 as i64 as u64,
        "i64.extend16_s" => x as u16 as i16 as i64 as u64,
        "i64.extend32_s" => x as u32 as i32 as i64 as u64,
        "i64.extend_i32_s" => x as u32 as i32 as i64 as u64,
        "i64.extend_i32_u" => x as u32 as u64,
        "i32.wrap_i64" => x as u32 as u64,
        "i32.eqz" => ((x as u32) == 0) as u64,
        "i64.eqz" => (x == 0) as u64,
        "i32.clz" => (x as u32).leading_zeros() as u64,
        "i32.ctz" => (x as u32).trailing_zeros() as u64,
        "i32.popcnt" => (x as u32).count_ones() as u64,
        _ => x, // reinterprets
    }
}

fn binop(w: W, name: &str, a: u64, b: u64) -> u64 {
    if w == W::I32 {
        let (a, b) = (a as u32, b as u32);
        (match name {
            "add" => a.wrapping_add(b),
            "sub" => a.wrapping_sub(b),
            "mul" => a.wrapping_mul(b),
            "and" => a & b,
            "or" => a | b,
            "xor" => a ^ b,
            "shl" => a.wrapping_shl(b),
            "shr_s" => ((a as i32).wrapping_shr(b)) as u32,
            "shr_u" => a.wrapping_shr(b),
            "rotl" => a.rotate_left(b & 31),
            _ => a.rotate_right(b & 31),
        }) as u64
    } else {
        match name {
            "add" => a.wrapping_add(b),
            "sub" => a.wrapping_sub(b),
            "mul" => a.wrapping_mul(b),
            "and" => a & b,
            "or" => a | b,
            "xor" => a ^ b,
            "shl" => a.wrapping_shl(b as u32),
            "shr_s" => ((a as i64).wrapping_shr(b as u32)) as u64,
            "shr_u" => a.wrapping_shr(b as u32),
            "rotl" => a.rotate_left((b & 63) as u32),
            _ => a.rotate_right((b & 63) as u32),
        }
    }
}

/// Parse `(func (param i32) ... (result i32) instr*)` with a flat (non-folded)
/// instruction list and compile it to a closure.  Returns (params, result, body).
fn compile_wat(text: &str) -> CResult<(Vec<W>, W, EvalFn)> {
    // tokens: parens and whitespace separated atoms
    let mut toks: Vec<String> = vec![];
    let mut cur = String::new();
    for ch in text.chars() {
        if ch == '(' || ch == ')' || ch.is_whitespace() {
            if !cur.is_empty() {
                toks.push(std::mem::take(&mut cur));
            }
            if ch == '(' || ch == ')' {
                toks.push(ch.to_string());
            }
        } else {
            cur.push(ch);
        }
    }
    if !cur.is_empty() {
        toks.push(cur);
    }
    let mut i = 0;
    let expect = |i: &mut usize, s: &str| -> CResult<()> {
        if toks.get(*i).map(|t| t.as_str()) == Some(s) {
            *i += 1;
            Ok(())
        } else {
            unknown(format!("wat: expected `{s}` at {:?}", toks.get(*i)))
        }
    };
    expect(&mut i, "(")?;
    expect(&mut i, "func")?;
    let mut params = vec![];
    let mut results = vec![];
    while toks.get(i).map(|t| t.as_str()) == Some("(") {
        let kind = toks.get(i + 1).cloned().unwrap_or_default();
        if kind != "param" && kind != "result" {
            return unknown(format!("wat: folded instruction or `({kind}` is not supported"));
        }
        i += 2;
        while toks.get(i).map(|t| t.as_str()) != Some(")") {
            let Some(t) = toks.get(i) else { return unknown("wat: unterminated") };
            if t.starts_with('$') {
                return unknown("wat: named params are not supported");
            }
            let Some(w) = wty(t) else { return unknown(format!("wat: type `{t}`")) };
            if kind == "param" {
                params.push(w)
            } else {
                results.push(w)
            }
            i += 1;
        }
        i += 1;
    }
    if results.len() != 1 {
        return unknown("wat: helper must have exactly one result");
    }
    // instruction list with abstract stack typing
    let mut ops = vec![];
    let mut stack: Vec<W> = vec![];
    while toks.get(i).map(|t| t.as_str()) != Some(")") {
        let Some(t) = toks.get(i).cloned() else { return unknown("wat: unterminated func") };
        i += 1;
        if t == "local.get" {
            let Some(n) = toks.get(i).and_then(|s| s.parse::<usize>().ok()) else { return unknown("wat: local.get index") };
            i += 1;
            if n >= params.len() {
                return unknown("wat: local index out of range");
            }
            stack.push(params[n]);
            ops.push(Op::LocalGet(n));
            continue;
        }
        if t == "i32.const" || t == "i64.const" {
            let w = if t == "i32.const" { W::I32 } else { W::I64 };
            let Some(txt) = toks.get(i).cloned() else { return unknown("wat: const") };
            i += 1;
            let txt = txt.replace('_', "");
            let v: i128 = if let Some(h) = txt.strip_prefix("0x") {
                i128::from_str_radix(h, 16).map_err(|_| Unknown("wat: const".into()))?
            } else if let Some(h) = txt.strip_prefix("-0x") {
                -i128::from_str_radix(h, 16).map_err(|_| Unknown("wat: const".into()))?
            } else {
                txt.parse::<i128>().map_err(|_| Unknown("wat: const".into()))?
            };
            let raw = if w == W::I32 { (v as u64) & 0xffff_ffff } else { v as u64 };
            stack.push(w);
            ops.push(Op::Const(w, raw));
            continue;
        }
        if let Some((name, from, to)) = UNOPS.iter().find(|(n, ..)| *n == t) {
            match stack.pop() {
                Some(w) if w == *from => {}
                other => return unknown(format!("wat: `{t}` applied to {other:?}")),
            }
            stack.push(*to);
            ops.push(Op::Un(name));
            continue;
        }
        if let Some((w, opn)) = t.split_once('.').and_then(|(p, o)| wty(p).map(|w| (w, o))) {
            if let (Some(name), true) = (BINOPS.iter().find(|b| **b == opn), matches!(w, W::I32 | W::I64)) {
                let (b, a) = (stack.pop(), stack.pop());
                if a != Some(w) || b != Some(w) {
                    return unknown(format!("wat: `{t}` operand types"));
                }
                stack.push(w);
                // encode width in the op name through a static table
                ops.push(Op::Bin(if w == W::I32 { I32_BIN[BINOPS.iter().position(|x| x == name).unwrap()] } else { I64_BIN[BINOPS.iter().position(|x| x == name).unwrap()] }));
                continue;
            }
        }
        return unknown(format!("wat: instruction `{t}` is not modelled"));
    }
    if stack.len() != 1 || stack[0] != results[0] {
        return unknown("wat: body does not leave exactly the result on the stack");
    }
    if ops.len() > 14 {
        return unknown("wat: body too long");
    }
    let body: EvalFn = Arc::new(move |env: &[u64]| {
        let mut st = [0u64; 16];
        let mut sp = 0;
        for op in &ops {
            match op {
                Op::LocalGet(n) => {
                    st[sp] = env[*n];
                    sp += 1
                }
                Op::Const(_, v) => {
                    st[sp] = *v;
                    sp += 1
                }
                Op::Un(n) => st[sp - 1] = unop(n, st[sp - 1]),
                Op::Bin(n) => {
                    let (w, name) = if let Some(x) = n.strip_prefix("i32.") { (W::I32, x) } else { (W::I64, &n[4..]) };
                    st[sp - 2] = binop(w, name, st[sp - 2], st[sp - 1]);
                    sp -= 1;
                }
            }
        }
        Ok(st[0])
    });
    Ok((params, results[0], body))
}

const I32_BIN: [&str; 11] = ["i32.add", "i32.sub", "i32.mul", "i32.and", "i32.or", "i32.xor", "i32.shl", "i32.shr_s", "i32.shr_u", "i32.rotl", "i32.rotr"];
const I64_BIN: [&str; 11] = ["i64.add", "i64.sub", "i64.mul", "i64.and", "i64.or", "i64.xor", "i64.shl", "i64.shr_s", "i64.shr_u", "i64.rotl", "i64.rotr"];

fn mbt_wasm_ty(t: Ty) -> Option<W> {
    Some(match t {
        Ty::Bool | Ty::Char => W::I32,
        Ty::Int { bits, .. } if bits <= 32 => W::I32,
        Ty::Int { .. } => W::I64,
        Ty::F32 => W::F32,
        Ty::F64 => W::F64,
        _ => return None,
    })
}

/// Find `extern "wasm" fn NAME(p : T, ..) -> R =` followed by `#|(func ...)`
/// lines in MoonBit output.  Returns helpers and a list of helpers that were
/// found but not understood (name, reason).
pub fn moonbit_helpers(files: &[(String, String)]) -> (BTreeMap<String, Helper>, BTreeMap<String, String>) {
    let mut out = BTreeMap::new();
    let mut bad = BTreeMap::new();
    for (_, text) in files {
        let lines: Vec<&str> = text.lines().collect();
        let mut i = 0;
        while i < lines.len() {
            let l = lines[i].trim();
            i += 1;
            let Some(rest) = l.strip_prefix("extern \"wasm\" fn ") else { continue };
            let Some(open) = rest.find('(') else { continue };
            let name = rest[..open].trim().to_string();
            // signature may span the line only (generated code is single-line)
            let Some(close) = rest.rfind(')') else { continue };
            let params_txt = &rest[open + 1..close];
            let after = rest[close + 1..].trim();
            let ret_txt = after.trim_start_matches("->").trim().trim_end_matches('=').trim();
            let mut wat = String::new();
            while i < lines.len() && lines[i].trim_start().starts_with("#|") {
                wat.push_str(lines[i].trim_start().trim_start_matches("#|"));
                wat.push('\n');
                i += 1;
            }
            if out.contains_key(&name) {
                continue;
            }
            let res = (|| -> CResult<Helper> {
                let mut ptys = vec![];
                for p in params_txt.split(',').map(|s| s.trim()).filter(|s| !s.is_empty()) {
                    let Some((_, t)) = p.split_once(':') else { return unknown("parameter without type") };
                    let Some(ty) = crate::compile::type_by_name(Lang::MoonBit, t.trim()) else { return unknown(format!("parameter type `{}`", t.trim())) };
                    ptys.push(ty);
                }
                if !after.starts_with("->") {
                    return unknown("helper without result");
                }
                let Some(rty) = crate::compile::type_by_name(Lang::MoonBit, ret_txt) else { return unknown(format!("result type `{ret_txt}`")) };
                let (wp, wr, body) = compile_wat(&wat)?;
                if wp.len() != ptys.len() {
                    return unknown("wasm param count differs from MoonBit signature");
                }
                for (w, t) in wp.iter().zip(&ptys) {
                    if mbt_wasm_ty(*t) != Some(*w) {
                        return unknown("wasm param type differs from MoonBit signature");
                    }
                }
                if mbt_wasm_ty(rty) != Some(wr) {
                    return unknown("wasm result type differs from MoonBit signature");
                }
                // a narrower MoonBit result type (Byte) would need a rule for the
                // excess bits; only full-width results are modelled
                if !matches!(rty, Ty::Int { bits: 32 | 64, .. } | Ty::F32 | Ty::F64) {
                    return unknown("narrow helper result type");
                }
                for t in &ptys {
                    if !matches!(t, Ty::Int { bits: 32 | 64, .. } | Ty::F32 | Ty::F64) {
                        return unknown("narrow helper parameter type");
                    }
                }
                Ok(Helper::Func { params: ptys, result: rty, body })
            })();
            match res {
                Ok(h) => {
                    out.insert(name, h);
                }
                Err(Unknown(e)) => {
                    bad.insert(name, e);
                }
            }
        }
    }
    (out, bad)
}

/// The D helper template must look exactly like the union-based reinterpret
/// the model assumes.
pub fn d_helpers(files: &[(String, String)]) -> BTreeMap<String, Helper> {
    let mut out = BTreeMap::new();
    for (_, text) in files {
        let Some(pos) = text.find("reinterpretCast(T, U)") else { continue };
        let tail: String = text[pos..].chars().take(400).collect();
        let norm: String = tail.split_whitespace().collect::<Vec<_>>().join(" ");
        let want = "reinterpretCast(T, U)(auto ref U from) @trusted if (T.sizeof == U.sizeof) { union tmp { U from; T to; } return tmp(from).to; }";
        if norm.starts_with(want) {
            out.insert("reinterpretCast".to_string(), Helper::DReinterpret);
        }
    }
    out
}

// ------------------------------------------------------- Go result-in-temp form

/// Go `I32FromBool` writes
/// ```text
/// var R int32
/// if V {
///         R = 1
/// } else {
///         R = 0
/// }
/// ```
/// and returns `R`.  Locate that statement group for (`result`, `operand`) in
/// the generated text and turn it into the equivalent conditional expression
/// text `__cond(V, T, A, B)` parts.  Returns (type name, then-expr, else-expr).
pub fn go_temp_statement(files: &[(String, String)], result: &str, operand: &str) -> CResult<(String, String, String)> {
    let want_op = lex(operand)?;
    let needle = format!("var {result} ");
    for (_, text) in files {
        let mut from = 0;
        while let Some(p) = text[from..].find(&needle) {
            let start = from + p;
            from = start + needle.len();
            // preceded by an identifier character => different name
            if start > 0 && text[..start].chars().last().map(|c| c.is_alphanumeric() || c == '_').unwrap_or(false) {
                continue;
            }
            // window: up to and including the second `}`
            let mut closes = 0;
            let mut endp = None;
            for (k, ch) in text[start..].char_indices() {
                if ch == '}' {
                    closes += 1;
                    if closes == 2 {
                        endp = Some(start + k + 1);
                        break;
                    }
                }
                if k > 600 {
                    break;
                }
            }
            let Some(endp) = endp else { continue };
            let Ok(toks) = lex(&text[start..endp]) else { continue };
            let n = toks.len();
            if n < 8 || toks[0] != Tok::Ident("var".into()) || toks[1] != Tok::Ident(result.into()) {
                continue;
            }
            let Tok::Ident(tyname) = toks[2].clone() else { continue };
            if toks.get(3) != Some(&Tok::Ident("if".into())) {
                continue;
            }
            let mut j = 4;
            let cs = j;
            while j < n && toks[j] != Tok::P("{") {
                j += 1;
            }
            if toks[cs..j] != want_op[..] {
                continue;
            }
            let take_assign = |j: &mut usize| -> CResult<Vec<Tok>> {
                if toks.get(*j) != Some(&Tok::P("{")) || toks.get(*j + 1) != Some(&Tok::Ident(result.into())) || toks.get(*j + 2) != Some(&Tok::P("=")) {
                    return unknown("Go temp statement: unexpected block shape");
                }
                *j += 3;
                let s = *j;
                while *j < n && toks[*j] != Tok::P("}") {
                    *j += 1;
                }
                if *j >= n {
                    return unknown("Go temp statement: unterminated block");
                }
                let e = toks[s..*j].to_vec();
                *j += 1;
                Ok(e)
            };
            let a = take_assign(&mut j)?;
            if toks.get(j) != Some(&Tok::Ident("else".into())) {
                return unknown("Go temp statement: if without else");
            }
            j += 1;
            let b = take_assign(&mut j)?;
            if j != n {
                return unknown("Go temp statement: trailing tokens");
            }
            let simple = |v: &Vec<Tok>| v.len() == 1 && matches!(v[0], Tok::Int(..));
            if !simple(&a) || !simple(&b) {
                return unknown("Go temp statement: branch value is not a single integer literal");
            }
            return Ok((tyname, tok_text(&a), tok_text(&b)));
        }
    }
    unknown(format!("result `{result}` is a temporary whose defining statements were not found in the generated output"))
}

fn tok_text(v: &[Tok]) -> String {
    v.iter()
        .map(|t| match t {
            Tok::Ident(s) => s.clone(),
            Tok::Int(v, s, h) => {
                if *h {
                    format!("0x{v:x}{s}")
                } else {
                    format!("{v}{s}")
                }
            }
            Tok::Float(s) => s.clone(),
            Tok::P(p) => p.to_string(),
        })
        .collect::<Vec<_>>()
        .join(" ")
}
